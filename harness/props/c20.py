"""C20 — plots show exactly the histogram's data and never modify it."""
from __future__ import annotations

import contextlib
import copy
import io as _io
import math
import os
import warnings
from fractions import Fraction

import numpy as np

os.environ.setdefault("MPLBACKEND", "Agg")
warnings.simplefilter("ignore")

from .. import gen1, impl1, implnd
from ..core import nrs, rs
from .c09 import rand_nd_op
from .c10 import rand_hist_op


def fr(x):
    return Fraction(float(x))


def close(a, b, tol=1e-9):
    a, b = float(a), float(b)
    return abs(a - b) <= tol * max(abs(a), abs(b), 1e-12) + 1e-12


def ff(s):
    """rational string -> float"""
    return float(Fraction(s))


SECONDS = {"sec": 1, "min": 60, "hour": 3600, "day": 86400}
SUFFIX = {"sec": ["s", "sec", "secs"], "min": ["m", "min", "mins"], "hour": ["h", "hour", "hours"], "day": ["d", "day", "days"]}
# value_format arguments: strings that format ints and floats alike, and callables (named, so that cases stay JSON)
VALUE_FORMATS = {"f2": ".2f", "g3": ".3g", "e1": ".1e", "w9": "9.3f"}
CALLABLE_FORMATS = {"brackets": lambda x: "<%g>" % x, "unit": lambda x: "%.1f u" % x}
# x / y transformations of a 2-D map (functions of both bin coordinates)
TRANSFORMS = {
    "shear": (lambda x, y: 2 * x + y, lambda x, y: y - x),
    "x_only": (lambda x, y: 3 * x, None),
    "y_only": (None, lambda x, y: y + 0.5 * x),
    "polar_xy": (lambda r, phi: r * np.cos(phi), lambda r, phi: r * np.sin(phi)),
}
SURFACE_Z = {"zero": None, "plane": lambda x, y: x + 0.5 * y}
KINDS = (["mpl1"] * 5 + ["plotly1"] * 2 + ["ascii", "ascii_map"] + ["mpl2"] * 4 + ["polar"] * 2 + ["mpl3d"] * 2
         + ["pair"] + ["collection"] * 3 + ["ticks"] * 4 + ["refuse"] * 2 + ["backend"] + ["data"] * 2)
BAD_1D = ["map", "image", "bar3d", "polar_map", "nokind", "nobackend", "bokeh", "plotly_map", "ascii_map",
          "errors_cumulative_bar", "errors_cumulative_line", "errors_cumulative_scatter"]
BAD_2D = ["bar", "line", "step", "scatter", "fill", "hbar", "plotly_bar", "nokind", "nobackend", "bokeh"]


def value_formatter(spec):
    """the python object behind a value_format spec of a case, and the function the labels must show"""
    if spec is None:
        return None, None
    k, name = spec.split(":")
    if k == "s":
        s = VALUE_FORMATS[name]
        return s, (lambda v: format(v, s))
    if k == "c":
        return CALLABLE_FORMATS[name], CALLABLE_FORMATS[name]
    return {"int": 5, "list": [".2f"]}[name], None


def label_ok(text, fmt, v):
    """does a value label show v?  (v may differ from the plotted number in the last bits)"""
    v = float(v)
    if fmt is None:
        try:
            return close(float(text), v)
        except ValueError:
            return False
    return any(text == fmt(x) for x in (v, v * (1 + 1e-12), v * (1 - 1e-12)))


_LUT = {}


def cmap_pos(rgba, name):
    """position (0..255) of a face colour in the colour map's own table: the colour map's ordering"""
    import matplotlib.pyplot as plt
    if name not in _LUT:
        _LUT[name] = np.asarray(plt.get_cmap(name)(np.linspace(0, 1, 256)))[:, :3]
    d = ((_LUT[name] - np.asarray(rgba[:3], dtype=float)) ** 2).sum(axis=1)
    return int(np.argmin(d))


def monotone(vals, pos):
    """pos is weakly monotone (one direction) in vals; values equal up to rounding are not compared"""
    order = sorted(range(len(vals)), key=lambda i: vals[i])
    diffs = []
    for a in range(len(order)):
        for b in range(a + 1, len(order)):
            i, j = order[a], order[b]
            if not close(vals[i], vals[j], 1e-9):
                diffs.append(pos[j] - pos[i])
    return (not diffs) or all(x <= 1e-9 for x in diffs) or all(x >= -1e-9 for x in diffs)


def multiples_inside(lo, hi, w):
    return [k * w for k in range(math.ceil(lo / w - 1e-12) - 1, math.floor(hi / w + 1e-12) + 2) if lo <= k * w <= hi]


def spell_level(rng, name, n):
    """one of the accepted string spellings of (name, n)"""
    suffix = rng.choice(SUFFIX[name])
    if n == 1 and rng.random() < 0.5:
        return suffix
    return (str(int(n)) if float(n).is_integer() else repr(float(n))) + suffix


def partition(rng, total, kmax=4):
    """rising edges 0 .. total"""
    k = rng.randint(1, kmax)
    if rng.random() < 0.5:
        cuts = [i / k for i in range(k + 1)]
    else:
        inner = sorted(rng.sample([0.125, 0.25, 0.375, 0.5, 0.625, 0.75, 0.875], k - 1))
        cuts = [0.0] + inner + [1.0]
    e = [c * total for c in cuts]
    return [[e[i], e[i + 1]] for i in range(k)]


def same_points(got, want, tol=1e-6):
    """the same points in any order"""
    left = list(got)
    for w in want:
        hit = [g for g in left if all(abs(a - b) <= 1e-9 + tol * abs(b) for a, b in zip(g, w))]
        if not hit:
            return False
        left.remove(hit[0])
    return not left


def enc_pairs(pairs):
    return [[rs(l), rs(r)] for l, r in pairs]


class C20:
    ID = "C20"
    N_QUICK = 252
    N_THOROUGH = 2500
    N_SEARCH = 150
    RULE = ("1-D histograms (irregular / gapped bins, zeros, int and float contents, custom errors, name / title / axis name) x "
            "matplotlib bar / step / line / scatter / fill with density / cumulative (also both) / errors / show_values with a "
            "value_format string or callable / show_stats / log scales / lw / alpha / ticks at centres or edges / xlim, ylim / a "
            "time tick handler / explicit title and labels, called as plot(kind), plot() or plot.kind(); pair_bars; histogram "
            "collections; plotly bar / line / scatter (ticks); ASCII hbar and 2-D map; 2-D histograms x matplotlib map (show_zero, "
            "show_values, value_format, density, colour map, log / custom normalisation, grid colour, transformed coordinates), "
            "image (interpolation), bar3d, surface_map, plotly map; polar / spherical / cylindrical histograms x polar_map, "
            "transformed map, globe_map, cylinder_map; wrong dimension, unknown kind / backend, errors with cumulative; "
            "set_default_backend round trips; get_data / get_err_data / get_value_format directly; the time-tick helper on ranges "
            "with negative / non-multiple limits for sec / min / hour / day units in every accepted spelling, edge / centre levels "
            "and the automatic level. Every 8th case (k % 8 == 3) reuses ONE TimeTickHandler object (edge / centre / unit / automatic "
            "level) for 2-4 calls in a row -- histograms over the same range with different inner bins, over other ranges, the same "
            "histogram again; called directly (also with a range other than the histogram's) and through tick_handler= of matplotlib "
            "bar / step / line / scatter / fill (also of a two-member collection in one axis) and plotly line / scatter: each call's ticks are those of the histogram and range of "
            "that call, one label per tick, and equal to those of a never-used handler. Every 8th case (k % 8 == 5) plots a DERIVED "
            "histogram: a 2-D histogram with pairwise different contents and different bin counts per axis, constructed from C-ordered, "
            "Fortran-ordered or strided (non-contiguous) arrays, then a chain of T / copy / scalar * and / / normalize / h + h / "
            "merge_bins / slicing (polar, spherical, cylindrical: copy / scale / normalize), drawn with every 2-D kind and option above "
            "(map, image, plotly map, bar3d, surface_map, ASCII map, polar_map, globe_map, cylinder_map), or projected / selected to "
            "1-D and drawn with the 1-D kinds; the expected marks come from the derived histogram's public bins / frequencies, and "
            "the source histogram is snapshotted too. Marks are read back from the artists (patches, lines, collections, images, texts, title, "
            "labels, ticks), traces and captured stdout; the histogram is snapshotted before and after. "
            "Every 16th case (k % 16 == 7, stream:grown_collection) plots a HistogramCollection over an ADAPTIVE fixed-width binning "
            "(multi_h1(..., 'fixed_width', bin_width=w, adaptive=True), create() on an adaptive binning, a collection made of adaptive "
            "histograms) AFTER some members were filled (fill / fill_n, also with weights), added to (+= of an adaptive histogram over "
            "another range), merged (merge_bins) or added late, so that the members have different bin counts and ranges; the collection "
            "is drawn with matplotlib bar / line / scatter / step / fill (density, cumulative, errors, show_values, title) and plotly "
            "bar / line / scatter (3-5 of them, or all eight), as plot(kind) or plot.kind(): the artists / the trace of member k show "
            "member k's OWN bins -- as many marks as it has bins, at its edges / centres, with its widths, heights = its frequencies / "
            "densities / cumulative sums, error bars and value labels at its centres; a refusal of members with unequal bins is "
            "accepted and counted (the ASCII backend refuses collections: counted); one member is also sent through the model. "
            "Every 16th case (k % 16 == 15, stream:prepared_axes) draws a matplotlib bar / step / line / scatter / fill / map / image / "
            "bar3d (all their options above) into an ax= the caller prepared: an axes that already carries a title / x label / y label "
            "(placeholders), an axes that holds an EARLIER physt plot of another histogram (with its own title / axis names / explicit "
            "labels), one cell of a subplot grid, a twin axes: afterwards the title and axis labels of that axes are the explicit "
            "title= / xlabel= / ylabel=, else the plotted histogram's title / axis names (pinned only where one of them exists), "
            "whatever the axes carried before; the marks ADDED by the call are those of the histogram plotted (all clauses above, the "
            "model included), and neither histogram is modified. "
            "non-trivial = non-zero contents; distinct = case hash")
    EXTRA_TRUST = ["matplotlib / plotly rendering, colour-map tables and layout are outside the model",
                   "the ASCII map's colours are read at the call of xtermcolor.colorize (replaced by a recorder while the map is printed)"]
    ASSUMPTIONS = ["plot functions are pure in the model: 'plotting never modifies the histogram' is checked by snapshots only"]

    # ------------------------------------------------------------------ generators
    def gen_case(self, rng, k, tier):
        # two streams take a fixed share of the case indices: helper objects reused across calls, derived histograms as plot inputs
        # (a third one, every 16th case (k % 16 == 7): collections whose adaptive members grew apart after the collection was made;
        #  N_QUICK was raised from 220 to 236 with it, so that the older streams keep their number of cases)
        # (a fourth one, every 16th case (k % 16 == 15): plots into axes that are not fresh; N_QUICK 236 -> 252 with it)
        kind = ("reuse" if k % 8 == 3 else "derived" if k % 8 == 5 else "grown" if k % 16 == 7 else "prepared" if k % 16 == 15
                else rng.choice(KINDS))
        c = getattr(self, "_gen_" + kind)(rng)
        c["tags"] = [t for t in dict.fromkeys(c["tags"])]
        return c

    def _opt1(self, rng, kind, pairs, t, init):
        opt = {"plot": rng.choice(["bar", "step", "line", "scatter", "fill"]) if kind == "mpl1" else rng.choice(["bar", "line", "scatter"]),
               "density": rng.random() < 0.35, "cumulative": rng.random() < 0.35, "errors": rng.random() < 0.4,
               "show_values": rng.random() < 0.35,
               "name": rng.choice([None, "hname"]), "title": rng.choice([None, "The title"]), "axis_name": rng.choice([None, "energy"]),
               "title_arg": rng.choice([None, None, "override"]), "xlabel_arg": rng.choice([None, None, "xl"]),
               "ylabel_arg": rng.choice([None, None, "yl"]),
               "width": rng.choice([10, 40, 80]), "bad": rng.choice(BAD_1D)}
        if opt["cumulative"]:
            opt["errors"] = False          # refused together: exercised by the bad:errors_cumulative_* calls
            if opt["density"] and all(x == "0" for x in init["freq"]):
                init["freq"][0] = "3"      # the normalised cumulative curve of an empty histogram is undefined
        if t["gapped"] and opt["plot"] == "step":
            opt["plot"] = "bar"
        return opt

    def _gen_mpl1(self, rng, pairs=None):
        given = pairs is not None
        if given:
            t = {"gapped": not gen1.is_consecutive_exact(pairs), "tiny_gap": False}
        else:
            pairs, t = gen1.rising_bins(rng)
        handler = None
        if not given and rng.random() < 0.15:
            # a time axis (seconds) for the tick handler
            name, n = rng.choice([("sec", 1), ("sec", 0.5), ("sec", 5), ("min", 1)])
            w = n * SECONDS[name]
            e = [rng.choice([-3, 0, 2, 7]) * w + rng.choice([0, 0.25 * w])]
            for _ in range(rng.randint(1, 5)):
                e.append(e[-1] + rng.choice([0.5, 1.0, 2.5]) * w)
            pairs, t = [[e[i], e[i + 1]] for i in range(len(e) - 1)], {"gapped": False, "tiny_gap": False}
            form = rng.choice(["tuple", "str", "auto"])
            handler = {"unit": [name, n], "form": form, "text": spell_level(rng, name, n) if form == "str" else None}
        init = rand_hist_op(rng, pairs)
        init["keep"] = True
        if rng.random() < 0.5:
            init["dtype"] = "float64"
        opt = self._opt1(rng, "mpl1", pairs, t, init)
        p = opt["plot"]
        opt["call"] = rng.choice(["plot", "plot", "proxy", "kind_none"])
        opt["value_format"] = None
        if opt["show_values"] and p != "fill" and rng.random() < 0.6:
            opt["value_format"] = rng.choice(["s:" + k for k in VALUE_FORMATS] + ["c:" + k for k in CALLABLE_FORMATS])
        opt["show_stats"] = rng.choice([False, False, True, "total"])
        positive = any(x != "0" for x in init["freq"])
        opt["yscale"] = "log" if positive and rng.random() < 0.15 else None
        opt["xscale"] = "log" if pairs[0][0] > 0 and rng.random() < 0.3 else None
        opt["lw"] = rng.choice([None, None, 2, 0.5])
        opt["alpha"] = rng.choice([None, None, 0.5])
        opt["ticks"] = rng.choice([None, None, "center", "edge"]) if handler is None else None
        opt["tick_handler"] = handler
        opt["xlim"] = rng.choice([None, None, "auto", "keep", [pairs[0][0] - 1, pairs[-1][1] + 1]]) if handler is None else None
        opt["ylim"] = rng.choice([None, None, "auto", "keep", [0, 20]])
        # (explicit limits reaching 0 or below cannot be shown on a logarithmic axis: matplotlib's business, not the property's)
        if opt["yscale"] and isinstance(opt["ylim"], list):
            opt["ylim"] = "auto"
        if opt["xscale"] and isinstance(opt["xlim"], list):
            opt["xlim"] = "auto"
        tags = ["mpl1", "plot:" + p, "call:" + opt["call"]]
        tags += ["opt:" + k for k in ("density", "cumulative", "errors", "show_values", "show_stats", "xscale", "yscale", "lw", "alpha")
                 if opt[k]]
        if opt["density"] and opt["cumulative"]:
            tags.append("opt:cumulative_density")
        if opt["value_format"]:
            tags.append("opt:value_format_" + ("string" if opt["value_format"][0] == "s" else "callable"))
        if opt["ticks"]:
            tags.append("opt:ticks_" + opt["ticks"])
        if handler:
            tags.append("opt:tick_handler_" + handler["form"])
        for k in ("xlim", "ylim"):
            if opt[k]:
                tags.append(f"opt:{k}_" + (opt[k] if isinstance(opt[k], str) else "tuple"))
        tags.append("bad:" + opt["bad"])
        return {"kind": "mpl1", "init": init, "opt": opt, "tags": tags}

    def _gen_plotly1(self, rng, pairs=None):
        if pairs is not None:
            t = {"gapped": not gen1.is_consecutive_exact(pairs), "tiny_gap": False}
        else:
            pairs, t = gen1.rising_bins(rng)
        init = rand_hist_op(rng, pairs)
        init["keep"] = True
        if rng.random() < 0.5:
            init["dtype"] = "float64"
        opt = self._opt1(rng, "plotly1", pairs, t, init)
        opt["call"] = rng.choice(["plot", "plot", "proxy", "kind_none"])
        # (plotly's bar hands unknown keywords to go.Bar before the ticks are taken out: ticks are asked of line / scatter only)
        opt["ticks"] = rng.choice([None, "center", "edge"]) if opt["plot"] != "bar" and opt["call"] != "kind_none" else None
        opt["tick_handler"] = None
        if opt["plot"] != "bar" and opt["call"] != "kind_none" and not opt["ticks"] and rng.random() < 0.4:
            name, n = rng.choice([("sec", 1), ("sec", 0.5), ("sec", 2)])
            form = rng.choice(["tuple", "str"])
            opt["tick_handler"] = {"unit": [name, n], "form": form, "text": spell_level(rng, name, n) if form == "str" else None}
        tags = ["plotly1", "plot:" + opt["plot"], "call:" + opt["call"], "bad:" + opt["bad"]]
        if opt["tick_handler"]:
            tags.append("opt:tick_handler_" + opt["tick_handler"]["form"])
        if opt["density"] and opt["cumulative"]:
            tags.append("opt:cumulative_density")
        if opt["ticks"]:
            tags.append("opt:ticks_" + opt["ticks"])
        return {"kind": "plotly1", "init": init, "opt": opt, "tags": tags}

    def _gen_ascii(self, rng, pairs=None):
        if pairs is not None:
            t = {"gapped": not gen1.is_consecutive_exact(pairs), "tiny_gap": False}
        else:
            pairs, t = gen1.rising_bins(rng)
        init = rand_hist_op(rng, pairs)
        init["keep"] = True
        if all(x == "0" for x in init["freq"]):
            init["freq"][0] = "3"
        if rng.random() < 0.5:
            init["dtype"] = "float64"
        opt = self._opt1(rng, "ascii", pairs, t, init)
        opt["plot"] = "hbar"
        opt["call"] = rng.choice(["plot", "proxy", "kind_none"])
        return {"kind": "ascii", "init": init, "opt": opt, "tags": ["ascii", "plot:hbar", "call:" + opt["call"], "bad:" + opt["bad"]]}

    def _gen_refuse(self, rng):
        if rng.random() < 0.5:
            pairs, t = gen1.rising_bins(rng)
            init = rand_hist_op(rng, pairs)
            init["keep"] = True
            opt = self._opt1(rng, "refuse", pairs, t, init)
            return {"kind": "refuse", "init": init, "opt": opt, "tags": ["refuse", "dim:1", "bad:" + opt["bad"]]}
        init, axes = rand_nd_op(rng, d=2, names=True)
        opt = {"bad": rng.choice(BAD_2D)}
        return {"kind": "refuse2", "init": init, "opt": opt, "tags": ["refuse", "dim:2", "bad:" + opt["bad"]]}

    def _gen_ascii_map(self, rng):
        init, axes = rand_nd_op(rng, d=2, names=True)
        if all(x == "0" for x in init["freq"]):
            init["freq"][0] = "2"
        opt = {"plot": "ascii_map", "cmap": rng.choice([None, "Greys", "Greys_r"]), "value_format": rng.choice([None, ".1f"]),
               "bad": rng.choice(BAD_2D)}
        return {"kind": "ascii_map", "init": init, "opt": opt, "tags": ["ascii_map", "plot:ascii_map", "bad:" + opt["bad"]]}

    def _gen_mpl2(self, rng):
        init, axes = rand_nd_op(rng, d=2, names=True)
        opt = {"plot": rng.choice(["map", "map", "map", "image", "plotly_map"]), "density": rng.random() < 0.3, "show_zero": rng.random() < 0.6,
               "show_values": rng.random() < 0.4, "bad": rng.choice(BAD_2D),
               "title": rng.choice([None, "Map title"]),
               "title_arg": rng.choice([None, None, "override"]), "xlabel_arg": rng.choice([None, None, "xl"]),
               "ylabel_arg": rng.choice([None, None, "yl"])}
        tags = ["mpl2", "plot:" + opt["plot"]]
        if opt["plot"] == "image":
            w1, w2 = rng.choice([1.0, 0.5]), rng.choice([1.0, 2.0])
            n1, n2 = rng.randint(1, 4), rng.randint(1, 3)
            init["axes"] = [gen1.binning_json([[i * w1, (i + 1) * w1] for i in range(n1)], form="static_obj"),
                            gen1.binning_json([[i * w2 - 1, (i + 1) * w2 - 1] for i in range(n2)], form="static_obj")]
            if rng.random() < 0.3 and n1 >= 2:
                # equal-width bins WITH GAPS: an image has equally wide columns over its extent, so it cannot show every bin at
                # the bin's position -- refused, or every pixel column on its bin
                init["axes"][0] = gen1.binning_json([[2 * i * w1, (2 * i + 1) * w1] for i in range(n1)], form="static_obj")
                tags.append("image:gapped_equal_width")
            init["freq"] = [rs(rng.randint(0, 9)) for _ in range(n1 * n2)]
            init["err2"] = None
            opt["interpolation"] = rng.choice([None, "nearest", "bilinear"])
            if opt["interpolation"]:
                tags.append("opt:interpolation")
        if opt["plot"] == "map":
            opt["value_format"] = None
            if opt["show_values"] and rng.random() < 0.6:
                opt["value_format"] = rng.choice(["s:" + k for k in VALUE_FORMATS] + ["c:" + k for k in CALLABLE_FORMATS])
            opt["cmap"] = rng.choice([None, None, "viridis", "Greys_r"])
            opt["cmap_normalize"] = "log" if rng.random() < 0.2 else None
            # (limits that cannot cross whatever the data are: vmin > vmax is an error of matplotlib's, not a subject of the property)
            opt["cmap_min"], opt["cmap_max"] = rng.choice([(None, None), (None, None), ("min", None), (None, 3.0), (None, 100.0), (0.5, 1e15)])
            if opt["cmap_normalize"] == "log":
                opt["cmap_min"] = opt["cmap_max"] = None
                opt["show_zero"] = False   # log(0) has no colour (and matplotlib rejects the masked alpha physt passes on for it)
            opt["grid_color"] = rng.choice([None, "red"])
            opt["alpha"] = rng.choice([None, None, 0.5])
            opt["transform"] = rng.choice([None, None, None, "shear", "x_only", "y_only"])
            opt["show_colorbar"] = rng.random() < 0.15
            if opt["cmap_normalize"] == "log" and all(x == "0" for x in init["freq"]):
                init["freq"][0] = "2"
            tags += ["opt:" + k for k in ("density", "show_zero", "show_values", "cmap", "cmap_normalize", "cmap_min", "cmap_max",
                                          "grid_color", "alpha", "transform", "show_colorbar") if opt[k]]
            if opt["value_format"]:
                tags.append("opt:value_format_" + ("string" if opt["value_format"][0] == "s" else "callable"))
        tags += ["opt:" + k for k in ("title_arg", "xlabel_arg", "ylabel_arg") if opt[k] and opt["plot"] != "plotly_map"]
        tags.append("bad:" + opt["bad"])
        return {"kind": "mpl2", "init": init, "opt": opt, "tags": tags}

    def _special(self, rng, hist):
        if hist == "polar":
            e = [rng.choice([0.0, 0.5, 1.0])]
            for _ in range(rng.randint(1, 3)):
                e.append(e[-1] + rng.choice([0.5, 1.0, 1.5]))
            b0 = [[e[i], e[i + 1]] for i in range(len(e) - 1)]
            if len(b0) == 3 and rng.random() < 0.3:
                del b0[1]
            b1 = partition(rng, 2 * math.pi)
        elif hist == "spherical":
            b0, b1 = partition(rng, math.pi, 3), partition(rng, 2 * math.pi, 3)
        else:
            b0 = partition(rng, 2 * math.pi, 3)
            zp, _ = gen1.rising_bins(rng, allow_gaps=False)
            b1 = zp[:3]
        isint = rng.random() < 0.5
        f = [rng.choice([0, 0, 1, 2, 3, 5, 8]) if isint else rng.choice([0, 0.5, 1.25, 2, 4.75]) for _ in range(len(b0) * len(b1))]
        c = {"hist": hist, "b0": enc_pairs(b0), "b1": enc_pairs(b1), "freq": [rs(x) for x in f], "dtype": "int64" if isint else "float64"}
        if hist == "cylinder":
            c["radius"] = rng.choice([1.0, 2.0, 0.5])
        return c

    def _gen_polar(self, rng):
        c = self._special(rng, "polar")
        opt = {"plot": rng.choice(["polar_map", "polar_map", "map_xy"]), "density": rng.random() < 0.4, "show_zero": rng.random() < 0.6,
               "cmap": rng.choice([None, "viridis"]), "grid_color": rng.choice([None, "red"]), "call": rng.choice(["plot", "proxy"]),
               "bad": rng.choice(BAD_2D)}
        c.update({"kind": "polar", "opt": opt,
                  "tags": ["polar", "plot:" + opt["plot"], "hist:polar", "bad:" + opt["bad"]] + ["opt:" + k for k in ("density", "show_zero", "cmap") if opt[k]]})
        if opt["plot"] == "map_xy":
            c["tags"].append("opt:transform")
        return c

    def _gen_mpl3d(self, rng):
        p = rng.choice(["bar3d", "bar3d", "surface_map", "globe_map", "cylinder_map"])
        opt = {"plot": p, "density": rng.random() < 0.4, "show_zero": rng.random() < 0.6, "bad": rng.choice(BAD_2D),
               "title_arg": rng.choice([None, "override"]), "xlabel_arg": rng.choice([None, "xl"]), "ylabel_arg": rng.choice([None, "yl"])}
        tags = ["mpl3d", "plot:" + p, "bad:" + opt["bad"]] + ["opt:" + k for k in ("density", "show_zero") if opt[k]]
        if p in ("globe_map", "cylinder_map"):
            c = self._special(rng, "spherical" if p == "globe_map" else "cylinder")
            c.update({"kind": "mpl3d", "opt": opt, "tags": tags + ["hist:" + c["hist"]]})
            return c
        axes = [gen1.rising_bins(rng, allow_gaps=(p == "bar3d"))[0][:3] for _ in range(2)]
        size = len(axes[0]) * len(axes[1])
        isint = rng.random() < 0.5
        f = [rng.choice([0, 0, 1, 2, 3, 5, 8]) if isint else rng.choice([0, 0.5, 1.25, 2, 4.75]) for _ in range(size)]
        init = {"op": "of_arrays", "out": 0, "axes": [gen1.binning_json(a, form="static_obj") for a in axes], "freq": [rs(x) for x in f],
                "err2": None, "missed": "0", "dtype": "int64" if isint else "float64",
                "names": rng.choice([None, ["u", "v"]]), "keep": True}
        if p == "surface_map":
            opt["z"] = rng.choice(["zero", "plane"])
            opt["transform"] = rng.choice([None, "shear"])
            tags += ["opt:z_" + opt["z"]] + (["opt:transform"] if opt["transform"] else [])
        return {"kind": "mpl3d", "init": init, "opt": opt, "tags": tags}

    PREP_TEXTS = {"title": "placeholder title", "xlabel": "placeholder x", "ylabel": "placeholder y"}

    def _gen_prepared(self, rng):
        """a matplotlib plot (1-D kinds, map / image, bar3d) drawn into an axes the caller prepared (stream:prepared_axes)"""
        dim = rng.choice([1, 1, 1, 2, 2, 3])
        if dim == 1:
            c = self._gen_mpl1(rng)
            o = c["opt"]
            # (ticks / scales / limits of an axes shared with other marks are matplotlib's business: the older streams cover them)
            for k in ("ticks", "tick_handler", "xscale", "yscale", "xlim", "ylim"):
                o[k] = None
            o["show_stats"] = False
            c["tags"] = [t for t in c["tags"] if not t.startswith(("opt:ticks", "opt:tick_handler", "opt:xscale", "opt:yscale", "opt:xlim",
                                                                   "opt:ylim", "opt:show_stats"))]
        elif dim == 2:
            while True:
                c = self._gen_mpl2(rng)
                if c["opt"]["plot"] != "plotly_map":
                    break
            c["opt"]["show_colorbar"] = False
            c["tags"] = [t for t in c["tags"] if t != "opt:show_colorbar"]
        else:
            while True:
                c = self._gen_mpl3d(rng)
                if c["opt"]["plot"] == "bar3d":
                    break
            c["opt"]["title"] = rng.choice([None, "Box title"])
        mode = rng.choice(["labelled", "labelled", "earlier", "earlier", "grid", "twin"] if dim != 3 else ["labelled", "earlier", "grid"])
        prep = {"mode": mode, "texts": {}}
        if mode != "earlier":
            texts = {k: (v if rng.random() < 0.75 else None) for k, v in self.PREP_TEXTS.items()}
            if not any(texts.values()):
                texts[rng.choice(sorted(texts))] = "placeholder"
            prep["texts"] = texts
        if mode == "grid":
            prep["grid"] = rng.choice([[1, 2], [2, 1], [2, 2]])
            prep["cell"] = rng.randrange(prep["grid"][0] * prep["grid"][1])
            prep["suptitle"] = rng.random() < 0.3
        elif mode == "twin":
            prep["twin"] = rng.choice(["x", "y"])
        elif mode == "earlier":
            # the axes hold an earlier physt plot of ANOTHER histogram (its own title / names / explicit labels)
            if dim == 1:
                pairs, t = gen1.rising_bins(rng)
                init = rand_hist_op(rng, pairs)
                init["keep"] = True
                plot = rng.choice(["bar", "line", "scatter", "fill"] + ([] if t["gapped"] else ["step"]))
            elif dim == 2:
                init, _ = rand_nd_op(rng, d=2, names=True)
                plot = "map"
            else:
                while True:
                    c0 = self._gen_mpl3d(rng)
                    if c0["opt"]["plot"] == "bar3d":
                        break
                init, plot = c0["init"], "bar3d"
            prep["first"] = {"init": init, "plot": plot, "title": rng.choice([None, "First title", "First title"]),
                             "axis_name": rng.choice([None, "first axis"]) if dim == 1 else None,
                             "title_arg": rng.choice([None, None, "first override"]), "xlabel_arg": rng.choice([None, None, "first xl"]),
                             "ylabel_arg": rng.choice([None, "first yl"])}
            if not (prep["first"]["title"] or prep["first"]["title_arg"]) and rng.random() < 0.7:
                prep["first"]["title"] = "First title"
        c["prep"] = prep
        c["tags"] = ["stream:prepared_axes", "prep:" + mode, "prep:dim%d" % dim] + c["tags"]
        return c

    def _gen_pair(self, rng):
        pairs, t = gen1.rising_bins(rng)
        a = rand_hist_op(rng, pairs, out=0)
        p2 = pairs if rng.random() < 0.6 else gen1.rising_bins(rng)[0]
        b = rand_hist_op(rng, p2, out=1)
        a["keep"] = b["keep"] = True
        opt = {"plot": "pair_bars", "density": rng.random() < 0.3, "title_arg": rng.choice([None, "override"]),
               "names": [rng.choice([None, "first"]), rng.choice([None, "second"])]}
        return {"kind": "pair", "inits": [a, b], "opt": opt, "tags": ["pair", "plot:pair_bars"] + (["opt:density"] if opt["density"] else [])}

    def _gen_collection(self, rng):
        pairs, t = gen1.rising_bins(rng)
        n = rng.choice([1, 2, 2, 3, 3])
        inits = [rand_hist_op(rng, pairs, out=i) for i in range(n)]
        for i in inits:
            i["binning"] = copy.deepcopy(inits[0]["binning"])
            i["keep"] = True
        # (every member of a collection must be drawn with the same options: the plotly traces are the ones built per member)
        p = rng.choice(["bar", "line", "scatter", "step", "plotly_bar", "plotly_line", "plotly_line"])
        if t["gapped"] and p == "step":
            p = "bar"
        opt = {"plot": p, "density": rng.random() < 0.3, "cumulative": rng.random() < 0.3, "title": rng.choice([None, "Coll title"]),
               "title_arg": rng.choice([None, None, "override"]), "hist_title": rng.choice([None, "member title"])}
        if opt["density"] and opt["cumulative"]:
            for i in inits:
                if all(x == "0" for x in i["freq"]):
                    i["freq"][0] = "3"
        return {"kind": "collection", "inits": inits, "opt": opt,
                "tags": ["collection", "plot:" + p] + ["opt:" + k for k in ("density", "cumulative") if opt[k]]}

    def _gen_ticks(self, rng):
        mode = rng.choice(["unit"] * 5 + ["edge", "center"] + ["auto"] * 3 + ["invalid"])
        if mode == "auto":
            cls = rng.choice(["subsec", "sec", "min", "hour", "day"])
            a, b = {"subsec": (0.5, 4.0), "sec": (6.0, 280.0), "min": (320.0, 17000.0), "hour": (19000.0, 400000.0),
                    "day": (5e5, 5e7)}[cls]
            span = rng.uniform(a, b) if rng.random() < 0.7 else float(rng.choice([a, b, (a + b) / 2]))
            lo = rng.choice([0.0, -0.3 * span, 1000.0, 259200.0, -span]) + rng.choice([0.0, 0.0, 0.37 * span])
            return {"kind": "ticks", "unit": None, "lo": lo, "hi": lo + span, "level": "auto", "spell": {"form": "auto"},
                    "tags": ["ticks", "ticks:auto", "range:" + cls]}
        unit = rng.choice([("sec", 1), ("sec", 5), ("sec", 0.5), ("sec", 2.5), ("min", 1), ("min", 15), ("hour", 1), ("hour", 6),
                           ("day", 1), ("day", 2), ("day", 0.5)])
        w = unit[1] * SECONDS[unit[0]]
        lo = rng.choice([-2.5, -1.0, 0.0, 0.5, 1.0, 3.0]) * w + rng.choice([0, 0, 0.25 * w, -0.5 * w])
        hi = lo + rng.choice([1.0, 2.5, 4.0, 7.25]) * w
        c = {"kind": "ticks", "unit": list(unit), "lo": lo, "hi": hi, "level": mode}
        if mode == "unit":
            form = rng.choice(["tuple", "tuple", "str", "str", "str", "number", "timedelta"])
            c["spell"] = {"form": form, "text": spell_level(rng, *unit) if form == "str" else None}
            c["tags"] = ["ticks", "ticks:unit", "unit:" + unit[0], "level:" + form]
        elif mode == "invalid":
            c["spell"] = {"form": "invalid", "text": rng.choice(["xx", "5 parsecs", "min5", "foo1", "min_only", "min_str", "list", "triple"])}
            c["tags"] = ["ticks", "ticks:invalid", "level:invalid"]
        else:
            c["spell"] = {"form": "str", "text": rng.choice([mode, mode + "s"])}
            c["tags"] = ["ticks", "ticks:" + mode]
        return c

    def _gen_backend(self, rng):
        pairs, t = gen1.rising_bins(rng)
        init = rand_hist_op(rng, pairs)
        init["keep"] = True
        if all(x == "0" for x in init["freq"]):
            init["freq"][0] = "3"
        name = rng.choice(["matplotlib", "plotly", "ascii"])
        return {"kind": "backend", "init": init, "name": name, "call": rng.choice(["plot", "proxy", "kind_none"]),
                "bad_names": rng.sample(["bokeh", "no_such_backend", "", "Matplotlib", "vega"], 2), "dir_pick": rng.randint(0, 9),
                "shape3": [rng.randint(1, 2) for _ in range(3)],
                "tags": ["backend", "default:" + name, "bad:no_kind_for_dim", "bad:default_backend"]}

    def _gen_data(self, rng):
        flags = {"density": rng.random() < 0.5, "cumulative": rng.random() < 0.4, "flatten": rng.random() < 0.5}
        vf = rng.choice([None, "", "x:int", "x:list"] + ["s:" + k for k in VALUE_FORMATS] + ["c:" + k for k in CALLABLE_FORMATS])
        tags = ["data"] + ["data:" + k for k in flags if flags[k]] + ["vf:" + ("default" if not vf else vf.split(":")[0])]
        if flags["cumulative"]:
            tags.append("bad:errors_cumulative")
        if rng.random() < 0.6:
            pairs, t = gen1.rising_bins(rng)
            init = rand_hist_op(rng, pairs)
            init["keep"] = True
            if flags["density"] and flags["cumulative"] and all(x == "0" for x in init["freq"]):
                init["freq"][0] = "3"
            return {"kind": "data", "dim": 1, "init": init, "flags": flags, "vf": vf, "tags": tags + ["dim:1"]}
        init, axes = rand_nd_op(rng, d=2, names=True)
        return {"kind": "data", "dim": 2, "init": init, "flags": flags, "vf": vf, "tags": tags + ["dim:2"]}

    # ---- collections whose members no longer share one binning: adaptive members filled / added to / merged AFTER the collection
    #      was made, so that every member has bins (count, range, widths) of its own; every collection plot of every backend
    GROWN_PLOTS = [["matplotlib", k] for k in ("bar", "line", "scatter", "step", "fill")] + [["plotly", k] for k in ("bar", "line", "scatter")]

    def _gen_grown(self, rng):
        w = rng.choice([0.25, 0.5, 0.5, 1.0, 1.0, 1.0, 2.0])
        n0 = rng.randint(2, 5)                      # bins of the original range [lo, hi)
        lo = rng.randint(-6, 6) * w                 # (a multiple of the width: aligned binnings everywhere)
        hi = lo + n0 * w
        build = rng.choice(["multi_h1"] * 3 + ["create"] * 2 + ["from_hists"] * 2)
        nm = rng.choice([1, 2, 2, 2, 2, 3, 3, 3])
        dtype = rng.choice([None, None, "float64"]) if build != "multi_h1" else None

        def inside():
            return lo + rng.randrange(0, 8 * n0) * w / 8

        def outside():
            d = rng.randint(0, 5) * w
            if rng.random() < 0.5:
                return hi + d + rng.randrange(0, 8) * w / 8
            return lo - d - rng.randrange(1, 9) * w / 8

        def weights(n, p=0.35):
            if rng.random() > p:
                return None
            return [rs(rng.choice([1, 2, 3] if dtype is None else [0.5, 1, 1.5, 2])) for _ in range(n)]

        members = []
        for i in range(nm):
            vals = [inside() for _ in range(rng.randint(1, 5))]
            if build == "create" and rng.random() < 0.25:
                vals.append(outside())              # (create() fills the new member: its bins may grow at once)
            members.append({"name": "abc"[i], "values": [rs(v) for v in vals], "weights": weights(len(vals)) if build != "multi_h1" else None})
        opt = {"density": rng.random() < 0.35, "cumulative": rng.random() < 0.3, "errors": rng.random() < 0.3,
               "show_values": rng.random() < 0.25, "title": rng.choice([None, "Coll title"]), "title_arg": rng.choice([None, None, "override"])}
        ops = []
        for _ in range(rng.choice([0, 1, 1, 2, 2, 3, 4])):
            m = rng.randrange(nm)
            what = rng.choice(["fill"] * 4 + ["fill_n"] * 3 + ["iadd"] * 2 + ["merge"] * 2 + ["add_fresh"])
            first = not ops and rng.random() < 0.6  # (most histories begin with a member growing)
            if first:
                what = rng.choice(["fill", "fill", "fill_n", "fill_n", "iadd"])
            if what == "fill":
                v = outside() if first or rng.random() < 0.85 else inside()
                ws = weights(1)
                ops.append({"op": "fill", "m": m, "value": rs(v), "weight": ws[0] if ws else None})
            elif what == "fill_n":
                vals = [outside() if rng.random() < 0.6 or (first and i == 0) else inside() for i in range(rng.randint(1, 4))]
                ops.append({"op": "fill_n", "m": m, "values": [rs(v) for v in vals], "weights": weights(len(vals))})
            elif what == "iadd":
                # += of another adaptive histogram of the same width over another (aligned) range
                cnt = rng.randint(1, 3)
                mn = rng.choice([hi + rng.randint(0, 3) * w, lo - (cnt + rng.randint(0, 3)) * w] + ([] if first else [lo]))
                vals = [mn + rng.randrange(0, 8 * cnt) * w / 8 for _ in range(rng.randint(1, 3))]
                ops.append({"op": "iadd", "m": m, "min": rs(mn), "count": cnt, "values": [rs(v) for v in vals]})
            elif what == "merge":
                ops.append({"op": "merge", "m": m, "amount": rng.randint(2, 3)})
            else:
                ops.append({"op": "add_fresh", "values": [rs(inside()) for _ in range(rng.randint(1, 3))]})
        plots = [list(p) for p in self.GROWN_PLOTS] if rng.random() < 0.5 else [list(p) for p in rng.sample(self.GROWN_PLOTS, rng.randint(3, 5))]
        plots = [{"backend": b, "plot": p, "call": rng.choice(["plot", "plot", "proxy"])} for b, p in plots]
        tags = ["grown", "stream:grown_collection", "build:" + build] + ["grow:" + o["op"] for o in ops]
        tags += ["plot:coll_" + pl["backend"] + "_" + pl["plot"] for pl in plots] + ["opt:" + k for k in ("density", "cumulative", "errors", "show_values") if opt[k]]
        if not ops:
            tags.append("grow:none")
        return {"kind": "grown", "build": build, "w": rs(w), "lo": rs(lo), "count": n0, "dtype": dtype, "members": members, "ops": ops,
                "plots": plots, "opt": opt, "model_member": rng.randrange(3), "tags": tags}

    # ---- helper objects reused across calls: one TimeTickHandler for several histograms in a row
    def _gen_reuse(self, rng):
        mode = rng.choice(["edge", "center"] * 3 + ["unit"] * 3 + ["auto"] * 2)
        name, n = rng.choice([("sec", 1), ("sec", 0.5), ("sec", 5), ("min", 1), ("min", 15), ("hour", 1)])
        w = n * SECONDS[name]
        if mode == "unit":
            form = rng.choice(["tuple", "str"])
            level = {"mode": mode, "unit": [name, n], "spell": {"form": form, "text": spell_level(rng, name, n) if form == "str" else None}}
        elif mode == "auto":
            level = {"mode": mode, "unit": None, "spell": {"form": "auto"}}
        else:
            level = {"mode": mode, "unit": None, "spell": {"form": "str", "text": rng.choice([mode, mode + "s"])}}

        def span():
            lo = rng.choice([-3, 0, 0, 2, 7]) * w + rng.choice([0, 0, 0.25 * w])
            return lo, lo + rng.choice([2, 3, 4, 6, 8]) * w

        def cut(lo, hi, avoid):
            """consecutive bins over exactly [lo, hi] whose inner edges differ from those of the edge lists in avoid"""
            for _ in range(8):
                k = rng.randint(1, 5)
                if rng.random() < 0.4:
                    inner = [i / k for i in range(1, k)]
                else:
                    inner = sorted(rng.sample([j / 16 for j in range(1, 16)], k - 1))
                e = [lo] + [lo + (hi - lo) * q for q in inner] + [hi]
                if e not in avoid:
                    break
            return e

        ranges, edges, steps = [span()], [], []
        for i in range(rng.randint(2, 4)):
            how = "new_range" if i == 0 else rng.choice(["same_range"] * 3 + ["new_range", "same_hist"])
            if how == "same_hist":
                j = rng.randrange(len(edges))
            else:
                if how == "new_range":
                    if i:
                        ranges.append(span())
                    r = ranges[-1]
                else:
                    r = rng.choice(ranges)
                edges.append(cut(r[0], r[1], [e for e in edges if e[0] == r[0] and e[-1] == r[1]]))
                j = len(edges) - 1
            via = rng.choice(["direct"] * 4 + ["mpl:bar", "mpl:step", "mpl:line", "mpl:scatter", "mpl:fill", "plotly:line", "plotly:scatter",
                                                 "mplc:" + rng.choice(["bar", "line", "scatter", "step"])])
            st = {"h": j, "via": via, "how": how}
            if via == "direct":
                # the range handed to the helper: the histogram's own, or another one (the unit levels place their ticks in it)
                lo, hi = edges[j][0], edges[j][-1]
                st["range"] = rng.choice([[lo, hi]] * 3 + [[lo - 1.5 * w, hi + 0.75 * w], [lo + 0.5 * w, hi - 0.25 * w]])
            steps.append(st)
        inits = []
        for j, e in enumerate(edges):
            op = rand_hist_op(rng, [[e[i], e[i + 1]] for i in range(len(e) - 1)], out=j, keep=True)
            inits.append(op)
        tags = ["reuse", "reuse:level_" + mode, "reuse:steps_%d" % len(steps)]
        tags += ["reuse:via_" + s["via"].split(":")[0] for s in steps] + ["reuse:" + s["how"] for s in steps[1:]]
        return {"kind": "reuse", "level": level, "inits": inits, "steps": steps, "tags": tags}

    # ---- derived histograms as plot inputs: h.T, copies, scaled, normalised, merged, sliced, sums, projections, selections,
    #      and histograms constructed from Fortran-ordered / non-contiguous arrays
    @staticmethod
    def _shape_of(init):
        return [len(b["bins"]) if b["t"] == "static" else b["count"] for b in init["axes"]]

    @staticmethod
    def _distinct_contents(rng, shape, dtype, zeros=True):
        """pairwise different contents (so that any reordering of the bins shows), a few of them zero"""
        size = shape[0] * shape[1]
        vals = rng.sample(range(1, 3 * size + 2), size)
        if zeros and size >= 3:
            for i in rng.sample(range(size), rng.choice([0, 1, 1, 2])):
                vals[i] = 0
        if not dtype.startswith("int"):
            q = rng.choice([0.25, 0.5, 1.5])
            vals = [v * q for v in vals]
        return [rs(v) for v in vals]

    def _derive_ops(self, rng, shape, allow):
        """a chain of derivations of a 2-D histogram (each gives a 2-D histogram again); shape is updated in place"""
        ops = []
        for _ in range(rng.choice([0, 1, 1, 2, 2, 3])):
            what = rng.choice(allow)
            if what == "T":
                ops.append({"op": "T"})
                shape.reverse()
            elif what == "copy":
                ops.append({"op": "copy"})
            elif what == "mul":
                c, k = rng.choice([("2", "pyint"), ("3", "pyint"), ("1/2", "pyfloat"), ("5/2", "pyfloat")])
                ops.append({"op": "mul", "c": c, "k": k, "reflected": rng.random() < 0.3})
            elif what == "div":
                ops.append({"op": "div", "c": rng.choice(["2", "4"]), "k": "pyfloat"})
            elif what == "normalize":
                ops.append({"op": "normalize", "percent": rng.random() < 0.3})
            elif what == "add_self":
                ops.append({"op": "add", "a": 0, "b": 0})
            elif what == "merge":
                ax = rng.randrange(2)
                if shape[ax] < 2:
                    continue
                am = rng.randint(2, shape[ax])
                ops.append({"op": "merge", "amount": am, "axis": ax})
                shape[ax] = -(-shape[ax] // am)
            elif what == "slice":
                idx = []
                for ax in range(2):
                    a = rng.randint(0, shape[ax] - 1)
                    b = rng.randint(a + 1, shape[ax])
                    if rng.random() < 0.4:
                        a, b = 0, shape[ax]
                    idx.append({"s": [a, b]})
                    shape[ax] = b - a
                ops.append({"op": "getitem", "index": idx})
        return ops

    def _gen_derived(self, rng):
        target = rng.choice(["mpl2"] * 5 + ["mpl3d"] * 3 + ["polar"] * 2 + ["ascii_map"] + ["proj1"] * 3)
        layout = rng.choice(["C", "C", "F", "F", "strided"])
        if target == "proj1":
            return self._gen_derived_1d(rng, layout)
        for _ in range(6):       # different bin counts per axis: a transposition cannot go unnoticed
            c = getattr(self, "_gen_" + target)(rng)
            shape = self._shape_of(c["init"]) if "init" in c else [len(c["b0"]), len(c["b1"])]
            if shape[0] != shape[1]:
                break
        full = list(shape)
        if "init" in c:
            allow = ["T", "T", "T", "copy", "mul", "div", "normalize", "add_self", "slice"]
            if c["opt"]["plot"] != "image":
                allow.append("merge")           # (an image needs bins of one width: merging would leave a narrower last bin)
        else:
            allow = ["copy", "copy", "mul", "div", "normalize"]     # (the special histograms have no transposition)
        c["layout"] = layout
        c["derive"] = self._derive_ops(rng, shape, allow)
        if layout == "C" and not c["derive"]:
            c["derive"] = [{"op": allow[0]}]
        # (a slice may keep the empty bins only, and several plot options have no meaning for an all-zero histogram: zeros without slicing)
        zeros = not any(d["op"] == "getitem" for d in c["derive"])
        if "init" in c:
            c["init"]["freq"] = self._distinct_contents(rng, full, c["init"]["dtype"], zeros)
            if c["init"].get("err2") is not None:
                c["init"]["err2"] = [rs(rng.randint(0, 9)) for _ in c["init"]["freq"]]
        else:
            c["freq"] = self._distinct_contents(rng, full, c["dtype"], zeros)
        c["tags"] = ["derived", "derived:" + target, "layout:" + layout] + ["derive:" + d["op"] for d in c["derive"]] + c["tags"]
        return c

    def _gen_derived_1d(self, rng, layout):
        """1-D plot kinds on a projection / a selection of a derived 2-D histogram"""
        while True:
            axes = [gen1.rising_bins(rng, allow_gaps=(a == 1))[0][:4] for a in range(2)]
            if len(axes[0]) != len(axes[1]):
                break
        shape = [len(axes[0]), len(axes[1])]
        dt = rng.choice(["int64", "float64", "int32"])
        init = {"op": "of_arrays", "out": 0, "axes": [gen1.binning_json(a, form="static_obj") for a in axes],
                "freq": self._distinct_contents(rng, shape, dt, zeros=False),
                "err2": rng.choice([None, [rs(rng.randint(0, 9)) for _ in range(shape[0] * shape[1])]]), "missed": "0", "dtype": dt,
                "names": rng.choice([None, ["u", "v"]]), "keep": True}
        order = [0, 1]
        derive = self._derive_ops(rng, list(shape), ["T", "T", "copy", "mul", "add_self"])
        for d in derive:
            if d["op"] == "T":
                order.reverse()
        ax = rng.randrange(2)
        if rng.random() < 0.6:
            derive.append({"op": "projection", "axes": [ax]})
        else:
            n_other = len(axes[order[1 - ax]])
            derive.append({"op": "select", "axis": 1 - ax, "index": rng.randrange(n_other)})
        pairs = axes[order[ax]]
        gen = rng.choice([self._gen_mpl1] * 3 + [self._gen_plotly1, self._gen_ascii])
        c = gen(rng, pairs=pairs)
        del c["init"]
        c["from2d"] = {"init": init, "layout": layout, "derive": derive}
        c["tags"] = ["derived", "derived:proj1", "layout:" + layout] + ["derive:" + d["op"] for d in derive] + c["tags"]
        return c

    # ------------------------------------------------------------------ implementation
    @staticmethod
    def _texts(ax):
        return [[nrs(t.get_position()[0]), nrs(t.get_position()[1]), t.get_text(), t.get_transform() is ax.transData] for t in ax.texts]

    @staticmethod
    def _level_obj(case):
        from datetime import timedelta
        sp = case.get("spell") or {"form": "tuple"}
        form = sp["form"]
        if form == "auto":
            return None
        if form == "str":
            return sp["text"]
        if form == "invalid":
            return {"min_only": ("min",), "min_str": ("min", "1"), "list": [1, 2], "triple": ("min", 1, 2), "foo1": ("foo", 1)}.get(sp["text"], sp["text"])
        unit = case["unit"]
        w = unit[1] * SECONDS[unit[0]]
        if form == "number":
            return w
        if form == "timedelta":
            return timedelta(seconds=w)
        return (unit[0], unit[1])

    def _run_ticks(self, case):
        from physt import h1
        from physt.plotting.common import TimeTickHandler
        e = np.linspace(case["lo"], case["hi"], 5)
        h = h1(None, e)
        out = {"edges": [nrs(x) for x in e]}
        if case["level"] in ("edge", "center") and "spell" not in case:
            lvl = case["level"]
        else:
            lvl = self._level_obj(case)
        try:
            th = TimeTickHandler(lvl)
            ticks, labels = th(h, case["lo"], case["hi"])
        except Exception as ex:
            out.update({"refused": type(ex).__name__, "ticks": [], "labels": []})
            return {"outs": out, "log": []}
        out.update({"ticks": [nrs(t) for t in ticks], "labels": [str(x) for x in labels]})
        if case["level"] == "auto":
            d = TimeTickHandler.deduce_level(case["lo"], case["hi"])
            out["deduced"] = [str(d[0]), nrs(d[1])]
        return {"outs": out, "log": []}

    @staticmethod
    def _kwargs1(p, opt):
        """keyword arguments of a matplotlib 1-D plot call"""
        from physt.plotting.common import TimeTickHandler
        kw = {"density": opt["density"], "cumulative": opt["cumulative"]}
        if p in ("bar", "line", "scatter") and opt["errors"]:
            kw["errors"] = True
        if p != "fill" and opt["show_values"]:
            kw["show_values"] = True
            if opt.get("value_format"):
                kw["value_format"] = value_formatter(opt["value_format"])[0]
        if opt["title_arg"]:
            kw["title"] = opt["title_arg"]
        if opt["xlabel_arg"]:
            kw["xlabel"] = opt["xlabel_arg"]
        if opt.get("ylabel_arg"):
            kw["ylabel"] = opt["ylabel_arg"]
        if opt.get("show_stats"):
            kw["show_stats"] = opt["show_stats"]
            if opt["show_stats"] == "total":
                kw["stats_title"] = "Stats"
                kw["stats_loc"] = 4
        for k in ("xscale", "yscale", "lw", "alpha", "ticks"):
            if opt.get(k):
                kw[k] = opt[k]
        for k in ("xlim", "ylim"):
            if opt.get(k):
                kw[k] = tuple(opt[k]) if isinstance(opt[k], list) else opt[k]
        th = opt.get("tick_handler")
        if th:
            kw["tick_handler"] = TimeTickHandler(None if th["form"] == "auto" else th["text"] if th["form"] == "str" else tuple(th["unit"]))
        return kw

    @staticmethod
    def _call(h, call, kind, backend, kw):
        if call == "proxy":
            return getattr(h.plot, kind)(backend=backend, **kw)
        if call == "kind_none":
            return h.plot(backend=backend, **kw)
        return h.plot(kind, backend=backend, **kw)

    @staticmethod
    def _default_kind(backend, ndim):
        import physt.plotting as pp
        b = pp.backends[backend]
        ks = [t for t in b.types if ndim in b.dims[t]]
        return ks[0] if ks else None

    @staticmethod
    def _read1(ax, out, with_ticks=False):
        out["title"] = ax.get_title(); out["xlabel"] = ax.get_xlabel(); out["ylabel"] = ax.get_ylabel()
        out["patches"] = [[nrs(p.get_x()), nrs(p.get_width()), nrs(p.get_height())] for p in ax.patches]
        out["lines"] = [[[nrs(x) for x in l.get_xdata()], [nrs(y) for y in l.get_ydata()]] for l in ax.lines]
        out["offsets"] = [[[nrs(a), nrs(b)] for a, b in c.get_offsets()] for c in ax.collections if hasattr(c, "get_offsets") and len(c.get_offsets())]
        segs = []
        for c in ax.collections:
            if hasattr(c, "get_segments"):
                segs += [[[nrs(a), nrs(b)] for a, b in s] for s in c.get_segments()]
        out["segments"] = segs
        polys = []
        for c in ax.collections:
            if type(c).__name__ in ("PolyCollection", "FillBetweenPolyCollection"):
                polys += [[[nrs(a), nrs(b)] for a, b in p.vertices] for p in c.get_paths()]
        out["polys"] = polys
        out["texts"] = C20._texts(ax)
        if with_ticks:
            out["xticks"] = [nrs(x) for x in ax.get_xticks()]
            out["xticklabels"] = [t.get_text() for t in ax.get_xticklabels()]
            out["xlim"] = [nrs(x) for x in ax.get_xlim()]

    @staticmethod
    def _try_bad(h, bad):
        """one call that the property wants refused"""
        import matplotlib.pyplot as plt
        try:
            with contextlib.redirect_stdout(_io.StringIO()):
                if bad == "nobackend":
                    h.plot("bar" if h.ndim == 1 else "map", backend="no_such_backend")
                elif bad == "bokeh":
                    h.plot("bar" if h.ndim == 1 else "map", backend="bokeh")
                elif bad == "nokind":
                    h.plot("no_such_kind", backend="matplotlib")
                elif bad == "hbar":
                    h.plot("hbar", backend="ascii")
                elif bad == "ascii_map":
                    h.plot("map", backend="ascii")
                elif bad.startswith("plotly_"):
                    h.plot(bad[7:], backend="plotly")
                elif bad.startswith("errors_cumulative_"):
                    h.plot(bad[18:], backend="matplotlib", errors=True, cumulative=True)
                else:
                    h.plot(bad, backend="matplotlib")
            return "accepted"
        except Exception:
            return "REFUSED"
        finally:
            plt.close("all")

    @staticmethod
    def _mk_special(case):
        from physt import special_histograms as sh
        cls = {"polar": sh.PolarHistogram, "spherical": sh.SphericalSurfaceHistogram, "cylinder": sh.CylindricalSurfaceHistogram}[case["hist"]]
        b0 = np.array([[impl1.fl(l), impl1.fl(r)] for l, r in case["b0"]])
        b1 = np.array([[impl1.fl(l), impl1.fl(r)] for l, r in case["b1"]])
        f = np.array([impl1.fl(x) for x in case["freq"]], dtype=case["dtype"]).reshape(len(b0), len(b1))
        kw = {"radius": case["radius"]} if "radius" in case else {}
        h = cls([b0, b1], C20._relayout(f, case.get("layout")), **kw)
        return C20._derive(h, case["derive"], []) if case.get("derive") else h

    @staticmethod
    def _boxes(coll):
        """(xmin, ymin, zmin, xmax, ymax, zmax) of every box of a bar3d collection (six faces per box)"""
        F = getattr(coll, "_faces", None)
        if F is None:
            return None
        F = np.asarray(F, dtype=float)
        if F.ndim != 3 or F.shape[0] % 6 or F.shape[1:] != (4, 3):
            return None
        out = []
        for b in range(F.shape[0] // 6):
            v = F[b * 6:(b + 1) * 6].reshape(-1, 3)
            out.append([nrs(x) for x in list(v.min(axis=0)) + list(v.max(axis=0))])
        return out

    @staticmethod
    def _quads(ax):
        qs = []
        for c in ax.collections:
            F = getattr(c, "_faces", None)
            if F is None:
                return None
            F = np.asarray(F, dtype=float)
            if F.shape != (1, 4, 3):
                return None
            qs.append({"verts": [[nrs(x) for x in v] for v in F[0]], "color": [float(x) for x in np.asarray(c.get_facecolor()).reshape(-1, 4)[0]]})
        return qs

    @staticmethod
    def _relayout(a, layout):
        """the same logical array in another memory layout"""
        if a is None or layout in (None, "C"):
            return a
        if layout == "F":
            return np.asfortranarray(a)
        big = np.zeros(tuple(2 * n + 1 for n in a.shape), dtype=a.dtype)      # a non-contiguous view
        view = big[tuple(slice(1, None, 2) for _ in a.shape)]
        view[...] = a
        return view

    @staticmethod
    def _derive(h, ops, log):
        st = implnd.Store(); st.set(0, h)
        for op in ops or []:
            if implnd.step(st, dict(op, h=0, out=0), log) == implnd.REFUSED:
                log.append("derivation refused: " + op["op"])
        return st.get(0)

    def _hist_nd(self, spec, log):
        """the histogram of a case: constructed from arrays in the given memory layout, then derived; also the source histogram"""
        from physt.histogram_nd import Histogram2D
        init, layout = spec["init"], spec.get("layout")
        if layout in (None, "C"):
            st = implnd.Store(); implnd.step(st, init, log); src = st.get(0)
        else:
            axes = [impl1.mk_binning(b) for b in init["axes"]]
            shape = tuple(self._shape_of(init))
            dt = np.dtype(init["dtype"])
            f = self._relayout(impl1.arr(init["freq"], dt).reshape(shape), layout)
            e = None if init.get("err2") is None else self._relayout(impl1.arr(init["err2"], dt).reshape(shape), layout)
            kw = {"axis_names": init["names"]} if init.get("names") is not None else {}
            src = Histogram2D(axes, f, errors2=e, missed=impl1.fl(init.get("missed", "0")), keep_missed=init.get("keep", True), **kw)
        return self._derive(src, spec.get("derive"), log), src

    class _NewArtists:
        """the artists of an axes that were not there before the call (everything else is passed through to the axes)"""
        def __init__(self, ax, skip):
            self._ax, self._skip = ax, skip

        def __getattr__(self, name):
            v = getattr(self._ax, name)
            if name in ("patches", "lines", "collections", "texts", "images"):
                return [a for a in v if id(a) not in self._skip]
            return v

    def _prep_axes(self, case, out):
        """the axes a prepared-axes case draws into (None: the library makes its own), and the view of the artists the call adds"""
        prep = case.get("prep")
        if not prep:
            return None
        import matplotlib.pyplot as plt
        sk = {"projection": "3d"} if case["kind"] == "mpl3d" else {}
        mode = prep["mode"]
        if mode == "grid":
            fig, axs = plt.subplots(prep["grid"][0], prep["grid"][1], subplot_kw=sk, squeeze=False)
            ax = axs.ravel()[prep["cell"]]
            if prep.get("suptitle"):
                fig.suptitle("figure title")
        elif mode == "twin":
            fig, base = plt.subplots()
            base.set_title("base title"); base.set_xlabel("base x"); base.set_ylabel("base y")
            ax = base.twinx() if prep["twin"] == "x" else base.twiny()
        else:
            fig = plt.figure()
            ax = fig.add_subplot(111, **sk)
        if mode == "earlier":
            f = prep["first"]
            nd = "axes" in f["init"]
            st = (implnd if nd else impl1).Store()
            (implnd if nd else impl1).step(st, f["init"], [])
            h0 = st.get(0)
            if f.get("title"):
                h0.title = f["title"]
            if f.get("axis_name"):
                h0.axis_name = f["axis_name"]
            snap = implnd.snapn if nd else impl1.snap1
            before, meta = snap(h0), dict(h0.meta_data)
            kw = {k: f[a] for k, a in (("title", "title_arg"), ("xlabel", "xlabel_arg"), ("ylabel", "ylabel_arg")) if f.get(a)}
            h0.plot(f["plot"], backend="matplotlib", ax=ax, **kw)
            self._first = (h0, snap, before, meta)
        for k, v in prep["texts"].items():
            if v:
                getattr(ax, "set_" + k)(v)
        out["prep_texts"] = {"title": ax.get_title(), "xlabel": ax.get_xlabel(), "ylabel": ax.get_ylabel()}
        self._keep = list(ax.get_children())       # (kept alive: the ids below stay theirs)
        return ax

    def _prep_view(self, ax):
        return ax if ax is None else self._NewArtists(ax, {id(a) for a in self._keep})

    def _prep_done(self, case, out, ax, ret):
        if ax is None:
            return
        out["same_axes"] = ret is ax
        if case["prep"]["mode"] == "earlier":
            h0, snap, before, meta = self._first
            out["first_unchanged"] = snap(h0) == before and dict(h0.meta_data) == meta
            out["first_title_meta"] = h0.title
        self._first = None

    def run_impl(self, case):
        import matplotlib
        matplotlib.use("Agg")
        import matplotlib.pyplot as plt
        try:
            return getattr(self, "_run_" + {"refuse2": "refuse", "plotly1": "one", "mpl1": "one", "ascii": "one", "refuse": "one"}.get(case["kind"], case["kind"]))(case)
        finally:
            self._first = self._keep = None
            plt.close("all")

    def _finish(self, out, hs, snaps, metas, snap, src=None):
        if src is not None and src[0] is not hs[0]:
            # the histogram the plotted one was derived from (they may share memory): plotting leaves it alone as well
            out["source_unchanged"] = implnd.snapn(src[0]) == src[1]
        refused = [str(x) for x in out.pop("derive_log", []) if str(x).startswith("derivation refused")]
        if refused:
            out["derive_log"] = refused
        after = [snap(h) for h in hs]
        out["unchanged"] = after == snaps and metas == [dict(h.meta_data) for h in hs]
        if not out["unchanged"]:
            out["changed_fields"] = [k for a, b in zip(snaps, after) for k in a if a[k] != b[k]]
            out["changed_fields"] += [k for m, h in zip(metas, hs) for k in set(m) | set(h.meta_data) if m.get(k) != h.meta_data.get(k)]
        out["snap"] = snaps[0]
        if len(snaps) > 1:
            out["snaps"] = snaps
        h = hs[0]
        out["sizes"] = [nrs(x) for x in np.asarray(h.bin_sizes).ravel()]
        out["title_meta"] = h.title; out["axis_names"] = [str(a) for a in h.axis_names]

    def _run_one(self, case):
        """1-D histogram x one backend (kinds mpl1, plotly1, ascii, refuse, and the 2-D refuse2 through _run_refuse)"""
        import matplotlib.pyplot as plt
        log = []
        opt = case["opt"]
        if "from2d" in case:
            h, src = self._hist_nd(case["from2d"], log); src_before = implnd.snapn(src)
        else:
            st = impl1.Store(); impl1.step(st, case["init"], log); h = st.get(0); src = src_before = h
        if opt["name"]:
            h.name = opt["name"]
        if opt["title"]:
            h.title = opt["title"]
        if opt["axis_name"]:
            h.axis_name = opt["axis_name"]
        before = impl1.snap1(h)
        meta = dict(h.meta_data)
        out = {"refused": {}}
        call = opt.get("call", "plot")
        try:
            if case["kind"] == "mpl1":
                p = opt["plot"]
                if call == "kind_none":
                    p = out["default_kind"] = self._default_kind("matplotlib", 1)
                pax = self._prep_axes(case, out)
                ax = self._call(h, call, p, "matplotlib", dict(self._kwargs1(p, opt), **({} if pax is None else {"ax": pax})))
                self._prep_done(case, out, pax, ax)
                self._read1(ax if pax is None else self._prep_view(pax), out, with_ticks=bool(opt.get("ticks") or opt.get("tick_handler")))
                if opt.get("tick_handler") and opt["tick_handler"]["form"] == "auto":
                    from physt.plotting.common import TimeTickHandler
                    d = TimeTickHandler.deduce_level(*[float(Fraction(x)) for x in out["xlim"]])
                    out["deduced"] = [str(d[0]), nrs(d[1])]
            elif case["kind"] == "plotly1":
                p = opt["plot"]
                if call == "kind_none":
                    p = out["default_kind"] = self._default_kind("plotly", 1)
                kw = {"density": opt["density"], "cumulative": opt["cumulative"]}
                if opt.get("ticks"):
                    kw["ticks"] = opt["ticks"]
                th = opt.get("tick_handler")
                if th:
                    from physt.plotting.common import TimeTickHandler
                    kw["tick_handler"] = TimeTickHandler(th["text"] if th["form"] == "str" else tuple(th["unit"]))
                fig = self._call(h, call, p, "plotly", kw)
                tr = fig.data[0]
                out["trace"] = {"type": tr.type, "x": [nrs(x) for x in tr.x], "y": [nrs(y) for y in tr.y],
                                "width": [nrs(w) for w in tr.width] if getattr(tr, "width", None) is not None else None,
                                "mode": getattr(tr, "mode", None), "name": tr.name}
                tv = fig.layout.xaxis.tickvals
                out["tickvals"] = None if tv is None else [nrs(x) for x in tv]
                tt = fig.layout.xaxis.ticktext
                out["ticktext"] = None if tt is None else [str(x) for x in tt]
            elif case["kind"] == "ascii":
                buf = _io.StringIO()
                with contextlib.redirect_stdout(buf):
                    self._call(h, call, "hbar", "ascii", {"width": opt["width"], "show_values": opt["show_values"]})
                out["stdout"] = buf.getvalue().splitlines()
        except Exception as e:
            out["plot_error"] = f"{type(e).__name__}: {e}"[:200]
        plt.close("all")
        out["refused"][opt["bad"]] = self._try_bad(h, opt["bad"])
        out["derive_log"] = log if "from2d" in case else []
        self._finish(out, [h], [before], [meta], impl1.snap1, src=(src, src_before))
        return {"outs": out, "log": log}

    def _run_reuse(self, case):
        """one TimeTickHandler object, called for several histograms in a row (directly and through tick_handler=)"""
        import matplotlib.pyplot as plt
        from physt.plotting.common import TimeTickHandler
        from physt.types import HistogramCollection
        log = []
        st = impl1.Store()
        for i in case["inits"]:
            impl1.step(st, i, log)
        hs = [st.get(k) for k in range(len(case["inits"]))]
        snaps, metas = [impl1.snap1(h) for h in hs], [dict(h.meta_data) for h in hs]
        out = {"refused": {}, "steps": []}
        lvl = self._level_obj(case["level"])
        try:
            handler = TimeTickHandler(lvl)
        except Exception as e:
            out["plot_error"] = f"TimeTickHandler({lvl!r}): {type(e).__name__}: {e}"[:200]
            handler = None
        for k, stp in enumerate(case["steps"] if handler is not None else []):
            h = hs[stp["h"]]
            via, _, p = stp["via"].partition(":")
            edges = [nrs(x) for x in [h.bins[0][0]] + [b[1] for b in h.bins]]
            r = {"edges": edges}
            try:
                if via == "direct":
                    lo, hi = stp["range"]
                    ticks, labels = handler(h, lo, hi)
                elif via in ("mpl", "mplc"):
                    # (mplc: a collection of two members over the same bins in one axis -- the handler is called once per member)
                    what = HistogramCollection(h, h * 2) if via == "mplc" else h
                    ax = what.plot(p, backend="matplotlib", tick_handler=handler)
                    ticks, labels = list(ax.get_xticks()), [t.get_text() for t in ax.get_xticklabels()]
                    lo, hi = float(h.bins[0][0]), float(h.bins[-1][1])
                    r["xlim"] = [nrs(x) for x in ax.get_xlim()]
                    plt.close("all")
                else:
                    fig = h.plot(p, backend="plotly", tick_handler=handler)
                    tv, tt = fig.layout.xaxis.tickvals, fig.layout.xaxis.ticktext
                    ticks, labels = list(tv if tv is not None else []), list(tt if tt is not None else [])
                    lo, hi = float(h.bins[0][0]), float(h.bins[-1][1])
                r.update({"range": [nrs(lo), nrs(hi)], "ticks": [nrs(t) for t in ticks], "labels": [str(x) for x in labels]})
                # the same call on a handler of the same level that has never been used
                ft, fl_ = TimeTickHandler(lvl)(h, lo, hi)
                r.update({"fresh_ticks": [nrs(t) for t in ft], "fresh_labels": [str(x) for x in fl_]})
                if case["level"]["mode"] == "auto":
                    d = TimeTickHandler.deduce_level(lo, hi)
                    r["deduced"] = [str(d[0]), nrs(d[1])]
            except Exception as e:
                out["plot_error"] = f"step {k} ({stp['via']}): {type(e).__name__}: {e}"[:200]
                plt.close("all")
                break
            out["steps"].append(r)
        plt.close("all")
        self._finish(out, hs, snaps, metas, impl1.snap1)
        return {"outs": out, "log": log}

    def _run_refuse(self, case):
        log = []
        st = implnd.Store(); implnd.step(st, case["init"], log); h = st.get(0)
        before, meta = implnd.snapn(h), dict(h.meta_data)
        out = {"refused": {case["opt"]["bad"]: self._try_bad(h, case["opt"]["bad"])}}
        self._finish(out, [h], [before], [meta], implnd.snapn)
        return {"outs": out, "log": log}

    def _run_ascii_map(self, case):
        import xtermcolor
        log = []
        opt = case["opt"]
        h, src = self._hist_nd(case, log); src_before = implnd.snapn(src)
        before, meta = implnd.snapn(h), dict(h.meta_data)
        out = {"refused": {}}
        kw = {k: opt[k] for k in ("cmap", "value_format") if opt[k]}
        buf = _io.StringIO()
        real = xtermcolor.colorize
        # the terminal library only colours when stdout is a terminal: record what it is asked to draw instead
        xtermcolor.colorize = lambda string, rgb=None, ansi=None, bg=None, ansi_bg=None, fd=1: f"[{int(rgb)}]"
        try:
            with contextlib.redirect_stdout(buf):
                h.plot("map", backend="ascii", **kw)
            out["stdout"] = buf.getvalue().splitlines()
        except Exception as e:
            out["plot_error"] = f"{type(e).__name__}: {e}"[:200]
        finally:
            xtermcolor.colorize = real
        out["refused"][opt["bad"]] = self._try_bad(h, opt["bad"])
        out["derive_log"] = log
        self._finish(out, [h], [before], [meta], implnd.snapn, src=(src, src_before))
        return {"outs": out, "log": log}

    def _run_mpl2(self, case):
        import matplotlib.pyplot as plt
        log = []
        opt = case["opt"]
        h, src = self._hist_nd(case, log); src_before = implnd.snapn(src)
        if opt.get("title"):
            h.title = opt["title"]
        before, meta = implnd.snapn(h), dict(h.meta_data)
        out = {"refused": {}}
        lab = {k: opt[a] for k, a in (("title", "title_arg"), ("xlabel", "xlabel_arg"), ("ylabel", "ylabel_arg")) if opt.get(a)}
        try:
            if opt["plot"] == "plotly_map":
                fig = h.plot("map", backend="plotly")
                tr = fig.data[0]
                out["heatmap"] = {"x": [nrs(v) for v in tr.x] if tr.x is not None else None, "y": [nrs(v) for v in tr.y] if tr.y is not None else None, "z": [[nrs(v) for v in row] for row in tr.z]}
            elif opt["plot"] == "map":
                kw = dict(density=opt["density"], show_zero=opt["show_zero"], show_values=opt["show_values"],
                          show_colorbar=bool(opt.get("show_colorbar")), **lab)
                if opt.get("value_format"):
                    kw["value_format"] = value_formatter(opt["value_format"])[0]
                for k in ("cmap", "cmap_normalize", "cmap_min", "cmap_max", "grid_color", "alpha"):
                    if opt.get(k) is not None:
                        kw[k] = opt[k]
                if opt.get("transform"):
                    fx, fy = TRANSFORMS[opt["transform"]]
                    if fx:
                        kw["x"] = fx
                    if fy:
                        kw["y"] = fy
                pax = self._prep_axes(case, out)
                ax = h.plot("map", backend="matplotlib", **dict(kw, **({} if pax is None else {"ax": pax})))
                self._prep_done(case, out, pax, ax)
                ax = ax if pax is None else self._prep_view(pax)
                self._read_cells(ax, out)
                out["title"] = ax.get_title(); out["xlabel"] = ax.get_xlabel(); out["ylabel"] = ax.get_ylabel()
            else:
                kw = dict(density=opt["density"], show_colorbar=False, **lab)
                if opt.get("interpolation"):
                    kw["interpolation"] = opt["interpolation"]
                pax = self._prep_axes(case, out)
                ax = h.plot("image", backend="matplotlib", **dict(kw, **({} if pax is None else {"ax": pax})))
                self._prep_done(case, out, pax, ax)
                ax = ax if pax is None else self._prep_view(pax)
                im = ax.images[0]
                out["image"] = {"extent": [nrs(x) for x in im.get_extent()], "array": [[nrs(v) for v in row] for row in np.asarray(im.get_array())]}
                out["title"] = ax.get_title(); out["xlabel"] = ax.get_xlabel(); out["ylabel"] = ax.get_ylabel()
        except Exception as e:
            out["plot_error"] = f"{type(e).__name__}: {e}"[:200]
        plt.close("all")
        out["refused"][opt["bad"]] = self._try_bad(h, opt["bad"])
        out["derive_log"] = log
        self._finish(out, [h], [before], [meta], implnd.snapn, src=(src, src_before))
        return {"outs": out, "log": log}

    @staticmethod
    def _read_cells(ax, out):
        rects, paths = [], []
        for p in ax.patches:
            col = [float(c) for c in p.get_facecolor()]
            if type(p).__name__ == "Rectangle":
                rects.append([nrs(p.get_x()), nrs(p.get_y()), nrs(p.get_width()), nrs(p.get_height()), col])
            else:
                paths.append({"verts": [[nrs(a), nrs(b)] for a, b in p.get_path().vertices], "color": col})
        out["rects"] = rects
        out["paths"] = paths
        out["texts"] = C20._texts(ax)

    def _run_polar(self, case):
        import matplotlib.pyplot as plt
        opt = case["opt"]
        h = self._mk_special(case)
        before, meta = implnd.snapn(h), dict(h.meta_data)
        out = {"refused": {}}
        kw = {"density": opt["density"], "show_zero": opt["show_zero"], "show_colorbar": False}
        for k in ("cmap", "grid_color"):
            if opt.get(k):
                kw[k] = opt[k]
        try:
            if opt["plot"] == "polar_map":
                ax = self._call(h, opt["call"], "polar_map", "matplotlib", kw)
                out["axes_class"] = type(ax).__name__
            else:
                fx, fy = TRANSFORMS["polar_xy"]
                ax = self._call(h, opt["call"], "map", "matplotlib", dict(kw, x=fx, y=fy))
            self._read_cells(ax, out)
        except Exception as e:
            out["plot_error"] = f"{type(e).__name__}: {e}"[:200]
        plt.close("all")
        out["refused"][opt["bad"]] = self._try_bad(h, opt["bad"])
        self._finish(out, [h], [before], [meta], implnd.snapn)
        return {"outs": out, "log": []}

    def _run_mpl3d(self, case):
        import matplotlib.pyplot as plt
        log = []
        opt = case["opt"]
        if "hist" in case:
            h = self._mk_special(case); src = src_before = h
        else:
            h, src = self._hist_nd(case, log); src_before = implnd.snapn(src)
        if opt.get("title"):
            h.title = opt["title"]
        before, meta = implnd.snapn(h), dict(h.meta_data)
        out = {"refused": {}}
        p = opt["plot"]
        try:
            if p == "bar3d":
                lab = {k: opt[a] for k, a in (("title", "title_arg"), ("xlabel", "xlabel_arg"), ("ylabel", "ylabel_arg")) if opt.get(a)}
                pax = self._prep_axes(case, out)
                ax = h.plot("bar3d", backend="matplotlib", density=opt["density"], **dict(lab, **({} if pax is None else {"ax": pax})))
                self._prep_done(case, out, pax, ax)
                ax = ax if pax is None else self._prep_view(pax)
                out["boxes"] = self._boxes(ax.collections[0]) if len(ax.collections) == 1 else None
                out["n_collections"] = len(ax.collections)
                out["title"] = ax.get_title(); out["xlabel"] = ax.get_xlabel(); out["ylabel"] = ax.get_ylabel()
            else:
                kw = {"density": opt["density"], "show_zero": opt["show_zero"]}
                if p == "surface_map":
                    if SURFACE_Z[opt["z"]]:
                        kw["z"] = SURFACE_Z[opt["z"]]
                    if opt.get("transform"):
                        kw["x"], kw["y"] = TRANSFORMS[opt["transform"]]
                ax = h.plot(p, backend="matplotlib", **kw)
                out["quads"] = self._quads(ax)
        except Exception as e:
            out["plot_error"] = f"{type(e).__name__}: {e}"[:200]
        plt.close("all")
        out["refused"][opt["bad"]] = self._try_bad(h, opt["bad"])
        out["derive_log"] = log
        self._finish(out, [h], [before], [meta], implnd.snapn, src=(src, src_before))
        return {"outs": out, "log": log}

    def _run_pair(self, case):
        import matplotlib.pyplot as plt
        from physt.plotting import matplotlib as pm
        log = []
        opt = case["opt"]
        st = impl1.Store()
        for i in case["inits"]:
            impl1.step(st, i, log)
        hs = [st.get(0), st.get(1)]
        for h, n in zip(hs, opt["names"]):
            if n:
                h.name = n
        snaps, metas = [impl1.snap1(h) for h in hs], [dict(h.meta_data) for h in hs]
        out = {"refused": {}}
        kw = {"density": True} if opt["density"] else {}
        if opt["title_arg"]:
            kw["title"] = opt["title_arg"]
        try:
            ax = pm.pair_bars(hs[0], hs[1], **kw)
            self._read1(ax, out)
        except Exception as e:
            out["plot_error"] = f"{type(e).__name__}: {e}"[:200]
        plt.close("all")
        self._finish(out, hs, snaps, metas, impl1.snap1)
        return {"outs": out, "log": log}

    def _run_collection(self, case):
        import matplotlib.pyplot as plt
        from physt.types import HistogramCollection
        log = []
        opt = case["opt"]
        st = impl1.Store()
        for i in case["inits"]:
            impl1.step(st, i, log)
        hs = [st.get(k) for k in range(len(case["inits"]))]
        for k, h in enumerate(hs):
            h.name = f"member{k}"
        if opt["hist_title"]:
            hs[0].title = opt["hist_title"]
        snaps, metas = [impl1.snap1(h) for h in hs], [dict(h.meta_data) for h in hs]
        out = {"refused": {}}
        try:
            coll = HistogramCollection(*hs, title=opt["title"])
            kw = {"density": opt["density"], "cumulative": opt["cumulative"]}
            if opt["plot"].startswith("plotly_"):
                fig = coll.plot(opt["plot"][7:], backend="plotly", **kw)
                out["traces"] = [{"x": [nrs(x) for x in tr.x], "y": [nrs(y) for y in tr.y], "name": tr.name} for tr in fig.data]
            else:
                if opt["title_arg"]:
                    kw["title"] = opt["title_arg"]
                ax = coll.plot(opt["plot"], backend="matplotlib", **kw)
                self._read1(ax, out)
            out["coll_title"] = coll.title
        except Exception as e:
            out["plot_error"] = f"{type(e).__name__}: {e}"[:200]
        plt.close("all")
        self._finish(out, hs, snaps, metas, impl1.snap1)
        return {"outs": out, "log": log}

    @staticmethod
    def _mk_grown(case, log):
        """the collection of a 'grown' case: made over an adaptive fixed-width binning, then members filled / added to / merged"""
        from physt.binnings import FixedWidthBinning
        from physt.histogram1d import Histogram1D
        from physt.types import HistogramCollection
        fl = impl1.fl
        w, lo, n0 = fl(case["w"]), fl(case["lo"]), case["count"]
        kw = {"dtype": case["dtype"]} if case.get("dtype") else {}

        def binning(mn=lo, cnt=n0):
            return FixedWidthBinning(bin_width=w, bin_count=cnt, min=mn, adaptive=True)

        def ws(x):
            return None if x is None else np.array([fl(v) for v in x])

        mem = case["members"]
        if case["build"] == "multi_h1":
            coll = HistogramCollection.multi_h1({m["name"]: [fl(v) for v in m["values"]] for m in mem}, "fixed_width", bin_width=w, adaptive=True)
        elif case["build"] == "create":
            coll = HistogramCollection(binning=binning())
            for m in mem:
                coll.create(m["name"], [fl(v) for v in m["values"]], weights=ws(m.get("weights")), **kw)
        else:
            hs = []
            for m in mem:
                h = Histogram1D(binning=binning(), name=m["name"], **kw)
                h.fill_n([fl(v) for v in m["values"]], weights=ws(m.get("weights")))
                hs.append(h)
            coll = HistogramCollection(*hs)
        late = 0
        for op in case["ops"]:
            try:
                if op["op"] == "add_fresh":
                    h = Histogram1D(binning=coll.binning.copy(), name=f"late{late}", **kw)
                    late += 1
                    h.fill_n([fl(v) for v in op["values"]])
                    coll.add(h)
                    continue
                h = coll[op["m"]]
                if op["op"] == "fill":
                    if op.get("weight") is None:
                        h.fill(fl(op["value"]))
                    else:
                        wt = fl(op["weight"])
                        h.fill(fl(op["value"]), weight=int(wt) if wt.is_integer() and not kw else wt)
                elif op["op"] == "fill_n":
                    h.fill_n([fl(v) for v in op["values"]], weights=ws(op.get("weights")))
                elif op["op"] == "iadd":
                    other = Histogram1D(binning=binning(fl(op["min"]), op["count"]), **kw)
                    other.fill_n([fl(v) for v in op["values"]])
                    h += other
                elif op["op"] == "merge":
                    h.merge_bins(op["amount"], inplace=True)
            except Exception as e:
                log.append(f"op refused: {op['op']}: {type(e).__name__}: {e}"[:160])
        return coll

    def _run_grown(self, case):
        import matplotlib.pyplot as plt
        log = []
        opt = case["opt"]
        out = {"refused": {}, "plots": []}
        try:
            coll = self._mk_grown(case, log)
            hs = list(coll)
            if opt["title"]:
                coll.title = opt["title"]
            snaps, metas = [impl1.snap1(h) for h in hs], [dict(h.meta_data) for h in hs]
            cb = [[rs(l), rs(r)] for l, r in np.asarray(coll.binning.bins).reshape(-1, 2)]
        except Exception as e:
            # (making the collection is not this property's business: the case is counted and left out)
            return {"outs": {"refused": {}, "plots": [], "setup_error": f"{type(e).__name__}: {e}"[:200], "unchanged": True,
                             "snap": {"freq": [], "bins": []}, "op_log": log}, "log": log}
        out["names"] = [str(h.name) for h in hs]
        for pl in case["plots"]:
            r = {"backend": pl["backend"], "plot": pl["plot"]}
            p = pl["plot"]
            try:
                kw = {"density": opt["density"], "cumulative": opt["cumulative"]}
                if pl["backend"] == "plotly":
                    fig = self._call(coll, pl["call"], p, "plotly", kw)
                    r["traces"] = [{"type": tr.type, "x": [nrs(x) for x in tr.x], "y": [nrs(y) for y in tr.y],
                                    "width": [nrs(x) for x in tr.width] if getattr(tr, "width", None) is not None else None,
                                    "mode": getattr(tr, "mode", None), "name": tr.name} for tr in fig.data]
                else:
                    if opt["errors"] and not opt["cumulative"] and p in ("bar", "line", "scatter"):
                        kw["errors"] = True
                    if opt["show_values"] and p != "fill":
                        kw["show_values"] = True
                    if opt["title_arg"]:
                        kw["title"] = opt["title_arg"]
                    ax = self._call(coll, pl["call"], p, "matplotlib", kw)
                    r["title"] = ax.get_title()
                    r["patches"] = [[nrs(q.get_x()), nrs(q.get_width()), nrs(q.get_height())] for q in ax.patches]
                    r["lines"] = [[[nrs(x) for x in l.get_xdata()], [nrs(y) for y in l.get_ydata()]] for l in ax.lines]
                    r["points"], r["errsegs"], r["polys"] = [], [], []
                    for c in ax.collections:
                        tn = type(c).__name__
                        if tn == "PathCollection":
                            r["points"].append([[nrs(a), nrs(b)] for a, b in c.get_offsets()])
                        elif tn == "LineCollection":
                            r["errsegs"].append([[[nrs(a), nrs(b)] for a, b in sg] for sg in c.get_segments()])
                        elif tn in ("PolyCollection", "FillBetweenPolyCollection"):
                            r["polys"].append([[[nrs(a), nrs(b)] for a, b in q.vertices] for q in c.get_paths()])
                    r["texts"] = self._texts(ax)
            except Exception as e:
                r["plot_error"] = f"{type(e).__name__}: {e}"[:200]
            plt.close("all")
            out["plots"].append(r)
        # the ASCII backend has one 1-D kind: does it take a collection?  (counted only)
        buf = _io.StringIO()
        try:
            with contextlib.redirect_stdout(buf):
                coll.plot("hbar", backend="ascii")
            out["ascii"] = "accepted"
        except Exception:
            out["ascii"] = "REFUSED"
        out["ascii_lines"] = len(buf.getvalue().splitlines())
        out["op_log"] = list(log)
        out["members_now"] = len(coll) == len(hs) and all(a is b for a, b in zip(coll, hs))
        out["coll_binning_unchanged"] = cb == [[rs(l), rs(r)] for l, r in np.asarray(coll.binning.bins).reshape(-1, 2)]
        self._finish(out, hs, snaps, metas, impl1.snap1)
        return {"outs": out, "log": log}

    def _run_backend(self, case):
        import matplotlib.pyplot as plt
        import physt.plotting as pp
        from physt.histogram_nd import HistogramND
        log = []
        st = impl1.Store(); impl1.step(st, case["init"], log); h = st.get(0)
        before, meta = impl1.snap1(h), dict(h.meta_data)
        out = {"refused": {}, "prev": pp.get_default_backend(), "bad_set": {}}
        prev = out["prev"]
        name = case["name"]
        try:
            pp.set_default_backend(name)
            out["after_set"] = pp.get_default_backend()
            buf = _io.StringIO()
            with contextlib.redirect_stdout(buf):
                kind = self._default_kind(name, 1)
                r = h.plot() if case["call"] == "kind_none" else getattr(h.plot, kind)() if case["call"] == "proxy" else h.plot(kind)
            out["ret_module"] = type(r).__module__ if r is not None else None
            out["stdout_lines"] = len(buf.getvalue().splitlines())
            plt.close("all")
            out["dir"] = [str(x) for x in dir(h.plot)]
            if out["dir"]:
                pick = out["dir"][case["dir_pick"] % len(out["dir"])]
                try:
                    with contextlib.redirect_stdout(_io.StringIO()):
                        getattr(h.plot, pick)()
                    out["dir_pick"] = [pick, "accepted"]
                except Exception as e:
                    out["dir_pick"] = [pick, f"{type(e).__name__}: {e}"[:120]]
                plt.close("all")
            for bad in case["bad_names"]:
                try:
                    pp.set_default_backend(bad)
                    res = "accepted"
                except Exception:
                    res = "REFUSED"
                out["bad_set"][bad] = [res, pp.get_default_backend()]
                if res == "accepted":
                    pp.set_default_backend(name)
            # a histogram of a dimension no kind of the backend draws, kind left open
            shape = case["shape3"]
            h3 = HistogramND([np.arange(n + 1, dtype=float) for n in shape], np.ones(shape))
            try:
                with contextlib.redirect_stdout(_io.StringIO()):
                    h3.plot()
                out["refused"]["no_kind_for_dim"] = "accepted"
            except Exception:
                out["refused"]["no_kind_for_dim"] = "REFUSED"
        except Exception as e:
            out["plot_error"] = f"{type(e).__name__}: {e}"[:200]
        finally:
            plt.close("all")
            try:
                pp.set_default_backend(prev)
            except Exception:
                pp._default_backend = prev      # keep the cases independent whatever happened
            if pp.get_default_backend() != prev:
                out["restore_failed"] = True
                pp._default_backend = prev
        out["restored"] = "restore_failed" not in out
        self._finish(out, [h], [before], [meta], impl1.snap1)
        return {"outs": out, "log": log}

    def _run_data(self, case):
        from physt.plotting.common import get_data, get_err_data, get_value_format
        log = []
        if case["dim"] == 1:
            st = impl1.Store(); impl1.step(st, case["init"], log); h = st.get(0)
            snap = impl1.snap1
        else:
            st = implnd.Store(); implnd.step(st, case["init"], log); h = st.get(0)
            snap = implnd.snapn
        before, meta = snap(h), dict(h.meta_data)
        out = {"refused": {}}
        for nm, f in (("data", get_data), ("err", get_err_data)):
            try:
                a = np.asarray(f(h, **case["flags"]))
                out[nm] = {"shape": list(a.shape), "values": [nrs(x) for x in a.ravel()]}
            except Exception as e:
                out[nm] = {"refused": type(e).__name__}
        vf = case["vf"]
        obj = value_formatter(vf)[0] if vf and ":" in vf else vf
        if vf and vf.startswith("x:"):
            obj = value_formatter("x:" + vf[2:])[0]
        try:
            g = get_value_format(obj)
            out["vf"] = [str(g(v)) for v in (0, 3, 1.5, 0.125, 1234.5678)]
        except Exception as e:
            out["vf"] = {"refused": type(e).__name__}
        self._finish(out, [h], [before], [meta], snap)
        return {"outs": out, "log": log}

    # ------------------------------------------------------------------ model
    def model_case(self, case, io):
        o = io["outs"]
        if case["kind"] == "ticks":
            if case["level"] != "unit" or "refused" in o:
                return None
            w = case["unit"][1] * SECONDS[case["unit"][0]]
            return {"kind": "plot", "what": "ticks", "lo": rs(case["lo"]), "hi": rs(case["hi"]), "w": rs(w)}
        if case["kind"] == "grown":
            # one member (with the bins it has now) goes through the model's plot data; diff() compares its artists / trace
            opt = case["opt"]
            if "setup_error" in o or (opt["density"] and opt["cumulative"]):
                return None
            snaps = o.get("snaps") or [o["snap"]]
            s = snaps[case["model_member"] % len(snaps)]
            if any(x in (None, "inf", "-inf") for x in s["freq"] + s["err2"]):
                return None
            return {"kind": "plot", "what": "marks1d", "bins": s["bins"], "freq": s["freq"], "err2": s["err2"],
                    "density": opt["density"], "cumulative": opt["cumulative"]}
        if "plot_error" in o or case["kind"] not in ("mpl1", "plotly1", "ascii", "mpl2"):
            return None
        opt = case["opt"]
        if case["kind"] in ("mpl1", "plotly1"):
            s = o["snap"]
            if any(x in (None, "inf", "-inf") for x in s["freq"] + s["err2"]):
                return None
            if opt["density"] and opt["cumulative"]:
                return None     # the model's get_data takes one flag at a time
            return {"kind": "plot", "what": "marks1d", "bins": s["bins"], "freq": s["freq"], "err2": s["err2"],
                    "density": opt["density"], "cumulative": opt["cumulative"]}
        if case["kind"] == "ascii":
            return {"kind": "plot", "what": "ascii", "freq": o["snap"]["freq"], "width": opt["width"]}
        if case["kind"] == "mpl2" and opt["plot"] == "map" and not opt["density"] and not opt.get("transform"):
            s = o["snap"]
            return {"kind": "plot", "what": "map2d", "xbins": s["bins"][0], "ybins": s["bins"][1], "data": s["freq"]}
        return None

    def diff(self, case, m, io):
        o = io["outs"]
        d = []
        if case["kind"] == "ticks":
            if [Fraction(x) for x in m] != [Fraction(x) for x in o["ticks"]]:
                d.append(f"ticks: model={[float(Fraction(x)) for x in m]} impl={[float(Fraction(x)) for x in o['ticks']]}")
            return d
        opt = case["opt"]
        tol = lambda a, b: abs(Fraction(a) - Fraction(b)) <= Fraction(1, 10**9) * max(abs(Fraction(a)), abs(Fraction(b)), Fraction(1, 10**9))
        if case["kind"] == "grown":
            snaps = o.get("snaps") or [o["snap"]]
            k = case["model_member"] % len(snaps)
            a0 = sum(len(s["freq"]) for s in snaps[:k])
            n = len(snaps[k]["freq"])
            pts_same = lambda want, got: len(want) == len(got) and all(tol(a[0], b[0]) and tol(a[1], b[1]) for a, b in zip(want, got))
            for r in o["plots"]:
                if "plot_error" in r:
                    continue
                p, what = r["plot"], f"{r['backend']} {r['plot']} of the collection, member {k}: "
                if r["backend"] == "plotly":
                    tr = r["traces"][k] if k < len(r["traces"]) else {"x": [], "y": [], "width": None}
                    if None in tr["x"] or None in tr["y"] or not pts_same(m["centres"], list(zip(tr["x"], tr["y"]))):
                        d.append(what + f"trace differs: model={m['centres'][:3]} impl x={tr['x'][:3]} y={tr['y'][:3]}")
                    elif p == "bar" and (tr["width"] is None or len(tr["width"]) != n or any(not tol(a[1], b) for a, b in zip(m["bars"], tr["width"]))):
                        d.append(what + "bar widths differ")
                elif p == "bar":
                    got = r["patches"][a0:a0 + n]
                    if len(got) != n or any(not all(tol(a[i], b[i]) for i in range(3)) for a, b in zip(m["bars"], got)):
                        d.append(what + f"bars: model={m['bars'][:3]} impl={got[:3]}")
                elif p in ("line", "step"):
                    got = r["lines"][k] if k < len(r["lines"]) else [[], []]
                    if not pts_same(m["centres"] if p == "line" else m["step"], list(zip(got[0], got[1]))):
                        d.append(what + f"{p} differs")
                elif p == "scatter":
                    got = r["points"][k] if k < len(r["points"]) else []
                    if not pts_same(m["centres"], got):
                        d.append(what + "scatter points differ")
            return d
        if case["kind"] == "mpl1":
            p = o.get("default_kind", opt["plot"])
            if p == "bar":
                if len(m["bars"]) != len(o["patches"]) or any(not (tol(a[0], b[0]) and tol(a[1], b[1]) and tol(a[2], b[2])) for a, b in zip(m["bars"], o["patches"])):
                    d.append(f"bars: model={m['bars'][:3]} impl={o['patches'][:3]}")
            elif p == "step":
                got = o["lines"][0] if o["lines"] else [[], []]
                if [q[0] for q in m["step"]] != got[0] or any(not tol(a[1], b) for a, b in zip(m["step"], got[1])):
                    d.append("step line differs")
            elif p == "line" and not opt["errors"]:
                got = o["lines"][0] if o["lines"] else [[], []]
                if any(not tol(a[0], b) for a, b in zip(m["centres"], got[0])) or any(not tol(a[1], b) for a, b in zip(m["centres"], got[1])) or len(got[0]) != len(m["centres"]):
                    d.append("line differs")
            elif p == "scatter":
                got = o["offsets"][-1] if o["offsets"] else []
                if len(got) != len(m["centres"]) or any(not (tol(a[0], b[0]) and tol(a[1], b[1])) for a, b in zip(m["centres"], got)):
                    d.append("scatter points differ")
        elif case["kind"] == "plotly1":
            tr = o["trace"]
            if any(not tol(a[0], b) for a, b in zip(m["centres"], tr["x"])) or any(not tol(a[1], b) for a, b in zip(m["centres"], tr["y"])) or len(tr["x"]) != len(m["centres"]):
                d.append("plotly trace differs")
        elif case["kind"] == "ascii":
            got = [len(l.split(" ")[0]) if l.startswith("#") else 0 for l in o["stdout"]]
            if got != m:
                d.append(f"ascii bars: model={m} impl={got}")
        elif case["kind"] == "mpl2":
            cells = [c for c in m if opt["show_zero"] or Fraction(c[4]) != 0]
            got = o["rects"]
            if len(cells) != len(got) or any(not all(tol(a[i], b[i]) for i in range(4)) for a, b in zip(cells, got)):
                d.append(f"map cells differ: model {len(cells)} impl {len(got)}")
        return d

    # ------------------------------------------------------------------ oracle
    @staticmethod
    def _data1(s, density, cumulative):
        bins = [(ff(l), ff(r)) for l, r in s["bins"]]
        f = [ff(x) for x in s["freq"]]
        e2 = [ff(x) for x in s["err2"]]
        sizes = [r - l for l, r in bins]
        if cumulative and density:
            tot = sum(f)
            data = [x / tot for x in np.cumsum(f)]      # the running sum of frequencies / total
        elif cumulative:
            data = list(np.cumsum(f))
        elif density:
            data = [a / b for a, b in zip(f, sizes)]
        else:
            data = f
        return bins, f, e2, sizes, [(l + r) / 2 for l, r in bins], [float(x) for x in data]

    @staticmethod
    def _grid(s):
        xb = [(ff(l), ff(r)) for l, r in s["bins"][0]]
        yb = [(ff(l), ff(r)) for l, r in s["bins"][1]]
        f = np.array([ff(x) for x in s["freq"]]).reshape(len(xb), len(yb))
        return xb, yb, f

    @staticmethod
    def _auto_ticks_fail(ticks, lo, hi, deduced):
        name, n = deduced
        w = ff(n) * SECONDS.get(name, 0)
        if not w > 0:
            return f"ticks_auto: the chosen level {deduced} is not a positive unit"
        eps = 1e-6 * w
        ks = []
        for t in ticks:
            k = round(t / w)
            if abs(t - k * w) > eps:
                return f"ticks_auto: tick {t} is not a multiple of the chosen unit {w} s"
            if not (lo - eps <= t <= hi + eps):
                return f"ticks_auto: tick {t} outside [{lo}, {hi}]"
            ks.append(k)
        want = [k for k in range(math.ceil(lo / w) - 1, math.floor(hi / w) + 2) if lo + eps < k * w < hi - eps]
        miss = [k * w for k in want if k not in ks]
        if miss:
            return f"ticks_auto: the multiples {miss[:4]} of the chosen unit {w} s lie inside [{lo}, {hi}] but have no tick"
        return None

    def _or_ticks(self, case, o):
        fails = []
        sp = case.get("spell") or {"form": "tuple"}
        if "refused" in o:
            if case["level"] in ("unit", "edge", "center", "auto") and sp["form"] not in ("number", "timedelta"):
                fails.append(f"ticks_refused: level {sp.get('text') or case['unit']!r} refused with {o['refused']}")
            return fails
        ticks = [ff(t) for t in o["ticks"]]
        if len(o["labels"]) != len(ticks):
            fails.append(f"tick_labels: {len(ticks)} ticks but {len(o['labels'])} labels")
        lo, hi = case["lo"], case["hi"]
        if case["level"] == "unit":
            w = case["unit"][1] * SECONDS[case["unit"][0]]
            exp = multiples_inside(lo, hi, w)
            if any(abs(a - b) > 1e-9 for a, b in zip(ticks, exp)) or len(ticks) != len(exp):
                fails.append(f"ticks: {len(ticks)} ticks {ticks[:8]} for [{lo}, {hi}] and unit {w} (given as {sp.get('text') or sp['form']!r}); the {len(exp)} multiples inside the range are {exp[:8]}")
        elif case["level"] == "edge":
            if o["ticks"] != o["edges"]:
                fails.append("ticks_edges: edge-level ticks are not the bin edges")
        elif case["level"] == "center":
            e = [ff(x) for x in o["edges"]]
            c = [(e[i] + e[i + 1]) / 2 for i in range(len(e) - 1)]
            if len(ticks) != len(c) or any(abs(a - b) > 1e-9 * max(1, abs(b)) for a, b in zip(ticks, c)):
                fails.append("ticks_centres: centre-level ticks are not the bin centres")
        elif case["level"] == "auto":
            f = self._auto_ticks_fail(ticks, lo, hi, o["deduced"])
            if f:
                fails.append(f)
        return fails

    def _or_reuse(self, case, o, fails):
        """every call of a reused handler answers for the histogram and the range of THAT call"""
        lv = case["level"]
        mode = lv["mode"]
        for k, (stp, r) in enumerate(zip(case["steps"], o["steps"])):
            what = f"call {k + 1} of one TimeTickHandler ({lv['spell'].get('text') or lv['unit'] or 'automatic level'}, {stp['via']}, {stp['how']}): "
            ticks = [ff(t) for t in r["ticks"]]
            lo, hi = (ff(x) for x in r["range"])
            e = [ff(x) for x in r["edges"]]
            if len(r["labels"]) != len(ticks):
                fails.append(f"tick_labels: {what}{len(ticks)} ticks but {len(r['labels'])} labels")
            same = lambda got, want: len(got) == len(want) and all(abs(a - b) <= 1e-9 * max(1.0, abs(b)) for a, b in zip(got, want))
            if mode == "unit":
                w = lv["unit"][1] * SECONDS[lv["unit"][0]]
                exp = multiples_inside(lo, hi, w)
                if not same(ticks, exp):
                    fails.append(f"ticks: {what}{len(ticks)} ticks {ticks[:8]} for the range [{lo}, {hi}] and unit {w} s; the {len(exp)} multiples inside the range are {exp[:8]}")
            elif mode == "edge":
                if not same(ticks, e):
                    fails.append(f"ticks_edges: {what}ticks {ticks[:8]}, the edges of the histogram of this call are {e[:8]}")
            elif mode == "center":
                c = [(e[i] + e[i + 1]) / 2 for i in range(len(e) - 1)]
                if not same(ticks, c):
                    fails.append(f"ticks_centres: {what}ticks {ticks[:8]}, the bin centres of the histogram of this call are {c[:8]}")
            else:
                f_ = self._auto_ticks_fail(ticks, lo, hi, r["deduced"])
                if f_:
                    fails.append(what + f_)
            if r["ticks"] != r["fresh_ticks"] or r["labels"] != r["fresh_labels"]:
                fails.append(f"handler_reuse: {what}ticks / labels {ticks[:6]} {r['labels'][:6]} differ from those of a handler of the same level "
                             f"used for the first time: {[ff(t) for t in r['fresh_ticks']][:6]} {r['fresh_labels'][:6]}")
            if fails:
                break

    def _or_marks1(self, p, opt, o, s, fails, patches=None, line=None, pts=None, sign=1.0, what=""):
        """the marks of one 1-D histogram drawn as kind p"""
        bins, f, e2, sizes, centres, data = self._data1(s, opt["density"], opt.get("cumulative", False))
        data = [sign * d for d in data]
        if p == "bar":
            got = [[ff(x) for x in r] for r in (o["patches"] if patches is None else patches)]
            exp = [[l, r - l, d] for (l, r), d in zip(bins, data)]
            if len(got) != len(exp) or any(not all(close(a, b) for a, b in zip(x, y)) for x, y in zip(got, exp)):
                fails.append(f"bar_marks: {what}bars (left, width, height) {got[:3]} ... expected {exp[:3]}")
        elif p == "step":
            got = line if line is not None else (o["lines"][0] if o["lines"] else [[], []])
            ex = [bins[0][0]] + [r for _, r in bins]
            ey = [data[0]] + list(data)
            if [ff(x) for x in got[0]] != ex or len(got[1]) != len(ey) or any(not close(ff(a), b) for a, b in zip(got[1], ey)):
                fails.append(f"step_marks: {what}the step line does not follow the edges / values")
        elif p in ("line", "scatter"):
            if p == "line":
                got = line if line is not None else (o["lines"][0] if o["lines"] else [[], []])
                gx, gy = [ff(x) for x in got[0]], [ff(x) for x in got[1]]
            else:
                q = pts if pts is not None else (o["offsets"][-1] if o["offsets"] else [])
                gx, gy = [ff(a) for a, _ in q], [ff(b) for _, b in q]
            if len(gx) != len(centres) or any(not close(a, b) for a, b in zip(gx, centres)) or any(not close(a, b) for a, b in zip(gy, data)):
                fails.append(f"{p}_marks: {what}points are not (bin centre, value): y {gy[:4]} expected {data[:4]}")
        elif p == "fill":
            if not o["polys"]:
                fails.append("fill_marks: no filled polygon")
            else:
                verts = {(round(ff(a), 9), round(ff(b), 9)) for a, b in o["polys"][0]}
                if any((round(c, 9), round(d, 9)) not in verts for c, d in zip(centres, data)):
                    fails.append("fill_marks: the filled area does not pass through (bin centre, value)")
        return bins, e2, sizes, centres, data

    def _or_mpl1(self, case, o, fails):
        opt = case["opt"]
        s = o["snap"]
        p = o.get("default_kind", opt["plot"])
        if p not in ("bar", "step", "line", "scatter", "fill"):
            return
        bins, e2, sizes, centres, data = self._or_marks1(p, opt, o, s, fails)
        if opt["errors"] and p in ("bar", "line", "scatter") and not opt["cumulative"]:
            err = [math.sqrt(x) / (sz if opt["density"] else 1) for x, sz in zip(e2, sizes)]
            segs = [[(ff(a), ff(b)) for a, b in sg] for sg in o["segments"] if len(sg) == 2]
            vert = [sg for sg in segs if close(sg[0][0], sg[1][0])]
            for c, dval, er in zip(centres, data, err):
                hit = [sg for sg in vert if close(sg[0][0], c, 1e-7)]
                if not hit:
                    if er > 0:
                        fails.append(f"error_bars: no error bar at bin centre {c}")
                        break
                    continue
                lo_, hi_ = sorted([hit[0][0][1], hit[0][1][1]])
                etol = 1e-6 * max(abs(dval), er, 1e-12)  # float16/float32 histograms carry errors in their own precision
                if not (abs(lo_ - (dval - er)) <= etol and abs(hi_ - (dval + er)) <= etol):
                    fails.append(f"error_bars: error bar at {c} spans [{lo_}, {hi_}], expected value ± sqrt(errors2){'/size' if opt['density'] else ''} = [{dval - er}, {dval + er}]")
                    break
        prep = self._prep_note(case, o)
        want_title = opt["title_arg"] or o["title_meta"] or ""
        # (an axes the caller prepared keeps its texts where the histogram has none: pinned only with metadata / an override)
        if o["title"] != want_title and (want_title or not prep):
            fails.append(f"title: plot title {o['title']!r}, expected {want_title!r}{prep}")
        want_x = opt["xlabel_arg"] or o["axis_names"][0]
        if o["xlabel"] != want_x and (want_x or not prep):
            fails.append(f"xlabel: {o['xlabel']!r}, expected {want_x!r}{prep}")
        if opt.get("ylabel_arg") and o["ylabel"] != opt["ylabel_arg"]:
            fails.append(f"ylabel: {o['ylabel']!r}, expected the given {opt['ylabel_arg']!r}{prep}")
        if opt["show_values"] and p != "fill":
            fmt = value_formatter(opt.get("value_format"))[1]
            tx = [(ff(t[0]), ff(t[1]), t[2]) for t in o["texts"] if len(t) < 4 or t[3]]
            if len(tx) != len(centres) or any(not (close(a[0], c) and close(a[1], dv)) for a, c, dv in zip(tx, centres, data)):
                fails.append("value_labels: value labels are not at (bin centre, value)")
            else:
                bad = [(a[2], dv) for a, dv in zip(tx, data) if not label_ok(a[2], fmt, dv)]
                if bad:
                    fails.append(f"value_format: label {bad[0][0]!r} for the value {bad[0][1]!r} with value_format={opt.get('value_format')!r}")
        if opt.get("ticks") and "xticks" in o:
            xt = [ff(x) for x in o["xticks"]]
            if opt["ticks"] == "center":
                if len(xt) != len(centres) or any(not close(a, b) for a, b in zip(xt, centres)):
                    fails.append(f"ticks_centres: ticks='center' gives {xt[:5]}, the bin centres are {centres[:5]}")
            else:
                edges = [l for l, _ in bins] + [r for _, r in bins]
                if any(not any(close(l, x) for x in xt) for l, _ in bins) or any(not any(close(x, e) for e in edges) for x in xt):
                    fails.append(f"ticks_edges: ticks='edge' gives {xt[:5]}, the bin edges are {sorted(set(edges))[:6]}")
        th = opt.get("tick_handler")
        if th and "xticks" in o:
            xt = [ff(x) for x in o["xticks"]]
            lo, hi = bins[0][0], bins[-1][1]
            if len(o["xticklabels"]) != len(xt):
                fails.append(f"tick_labels: {len(xt)} ticks but {len(o['xticklabels'])} labels on the axis")
            if th["form"] == "auto":
                f_ = self._auto_ticks_fail(xt, lo, hi, o["deduced"]) if "deduced" in o else None
                if f_:
                    fails.append(f_)
            else:
                w = th["unit"][1] * SECONDS[th["unit"][0]]
                exp = multiples_inside(lo, hi, w)
                if len(xt) != len(exp) or any(abs(a - b) > 1e-9 for a, b in zip(xt, exp)):
                    fails.append(f"ticks: the {len(xt)} axis ticks {xt[:8]} for bins over [{lo}, {hi}] and a tick handler of unit {w} s; the {len(exp)} multiples inside are {exp[:8]}")

    def _or_cells(self, o, exp, cmap, fails, what, log=False, geometry="rects"):
        """exp: [(geometry, value)] of the cells to draw, in drawing order; colours through the colour map's ordering"""
        got = o[geometry]
        if len(got) != len(exp):
            fails.append(f"{what}_cells: {len(got)} cells drawn for {len(exp)} bins to draw")
            return False
        for g, (geo, v) in zip(got, exp):
            if geometry == "rects":
                ok = all(close(ff(g[i]), geo[i], 1e-6) for i in range(4))
                shown = [ff(x) for x in g[:4]]
            else:
                vs = [(ff(a), ff(b)) for a, b in g["verts"]]
                ok = len(vs) == len(geo) and all(close(a[0], b[0], 1e-6) and close(a[1], b[1], 1e-6) for a, b in zip(vs, geo))
                shown = vs
            if not ok:
                fails.append(f"{what}_cells: cell drawn at {shown} for the bin at {list(geo)}")
                return False
        cols = [g[4] if geometry == "rects" else g["color"] for g in got]
        keep = [i for i, (_, v) in enumerate(exp) if not log or v > 0]
        if not monotone([exp[i][1] for i in keep], [cmap_pos(cols[i], cmap) for i in keep]):
            fails.append(f"{what}_colour: cell colour is not monotone in the value (colour map {cmap})")
        return True

    def _or_mpl2(self, case, o, fails):
        opt = case["opt"]
        xb, yb, f = self._grid(o["snap"])
        area = np.outer([r - l for l, r in xb], [r - l for l, r in yb])
        data = f / area if opt["density"] else f
        if opt["plot"] == "map":
            tr = opt.get("transform")
            fx, fy = TRANSFORMS[tr] if tr else (None, None)
            fx = fx or (lambda x, y: x)
            fy = fy or (lambda x, y: y)
            exp, centres = [], []
            for i, (xl, xr) in enumerate(xb):
                for j, (yl, yr) in enumerate(yb):
                    if data[i, j] != 0 or opt["show_zero"]:
                        if tr:
                            pts = [(xl, yl), (xr, yl), (xr, yr), (xl, yr), (xl, yl)]
                            exp.append(([(fx(*q), fy(*q)) for q in pts], float(data[i, j])))
                        else:
                            exp.append(((xl, yl, xr - xl, yr - yl), float(data[i, j])))
                        c = ((xl + xr) / 2, (yl + yr) / 2)
                        centres.append((fx(*c), fy(*c)))
            ok = self._or_cells(o, exp, opt.get("cmap") or "Greys", fails, "map", log=opt.get("cmap_normalize") == "log",
                                geometry="paths" if tr else "rects")
            if opt["show_values"]:
                if len(o["texts"]) != len(exp):
                    fails.append("map_values: one value label per drawn cell expected")
                elif ok:
                    fmt = value_formatter(opt.get("value_format"))[1]
                    for t, c, (_, v) in zip(o["texts"], centres, exp):
                        if not (close(ff(t[0]), c[0], 1e-6) and close(ff(t[1]), c[1], 1e-6)):
                            fails.append(f"map_values: value label at ({ff(t[0])}, {ff(t[1])}), the bin centre is {c}")
                            break
                        if not label_ok(t[2], fmt, v):
                            fails.append(f"value_format: map label {t[2]!r} for the value {v!r} with value_format={opt.get('value_format')!r}")
                            break
            self._or_labels2(opt, o, fails, "map")
        elif opt["plot"] == "image":
            im = o["image"]
            ext = [ff(x) for x in im["extent"]]
            if ext != [xb[0][0], xb[-1][1], yb[0][0], yb[-1][1]]:
                fails.append(f"image_extent: {ext}")
            arr = np.array([[ff(v) for v in row] for row in im["array"]])
            if arr.shape != data.T.shape or not np.allclose(arr, data.T[::-1, :]):
                fails.append("image_pixels: the image is not the (transposed, y-flipped) table of values")
            else:
                # one cell per bin AT THE BIN'S POSITION: pixel column i covers [x0 + i*dx, x0 + (i+1)*dx] of the extent
                for name, bins_, lo, hi in (("x", xb, ext[0], ext[1]), ("y", yb, ext[2], ext[3])):
                    n_ = len(bins_)
                    for i, (l, r) in enumerate(bins_):
                        pl, pr = lo + (hi - lo) * i / n_, lo + (hi - lo) * (i + 1) / n_
                        if abs(pl - l) > 1e-9 * max(1, abs(l)) or abs(pr - r) > 1e-9 * max(1, abs(r)):
                            fails.append(f"image_cells: pixel {name}-column {i} covers [{pl}, {pr}], the bin is [{l}, {r}]")
                            break
            self._or_labels2(opt, o, fails, "image")
        else:
            hm = o["heatmap"]
            z = np.array([[ff(v) for v in row] for row in hm["z"]])
            # plotly draws z[j][i] at (x[i], y[j]); x/y with one more item than z are the cell edges
            if z.shape != f.T.shape or not np.allclose(z, f.T):
                fails.append("plotly_map: z[j][i] is not the frequency of bin (i, j)")
            for nm, bb in (("x", xb), ("y", yb)):
                got = [ff(v) for v in (hm[nm] or [])]
                edges = [bb[0][0]] + [r for _, r in bb]
                centres_ = [(l + r) / 2 for l, r in bb]
                consecutive = all(bb[i][1] == bb[i + 1][0] for i in range(len(bb) - 1))
                nearly = all(abs(bb[i][1] - bb[i + 1][0]) <= 1e-8 + 1e-5 * abs(bb[i + 1][0]) for i in range(len(bb) - 1))
                want = edges if consecutive else centres_
                if nearly and not consecutive and got in (edges, centres_):
                    continue  # gaps below allclose tolerance: physt may treat the bins as consecutive
                if got != want:
                    fails.append(f"plotly_map: {nm} coordinates {got} are not the bin {'edges' if consecutive else 'centres'} {want}")

    @staticmethod
    def _prep_note(case, o):
        """'' for a fresh axes, else a note on what the prepared axes carried before the call"""
        if not case.get("prep") or "prep_texts" not in o:
            return ""
        t = o["prep_texts"]
        return (f" [drawn into a prepared axes ({case['prep']['mode']}) that carried title {t['title']!r}, xlabel {t['xlabel']!r}, "
                f"ylabel {t['ylabel']!r} before the call]")

    @staticmethod
    def _or_labels2(opt, o, fails, what):
        prep = ""
        if "prep_texts" in o:
            t = o["prep_texts"]
            prep = f" [drawn into a prepared axes that carried title {t['title']!r}, xlabel {t['xlabel']!r}, ylabel {t['ylabel']!r} before the call]"
        wx = opt.get("xlabel_arg") or o["axis_names"][0]
        wy = opt.get("ylabel_arg") or o["axis_names"][1]
        if (o["xlabel"] != wx and (wx or not prep)) or (o["ylabel"] != wy and (wy or not prep)):
            fails.append(f"{what}_labels: axis labels {o['xlabel']!r}, {o['ylabel']!r}, expected {wx!r}, {wy!r} (arguments, else the axis names {o['axis_names']}){prep}")
        if "title" in o:
            wt = opt.get("title_arg") or o["title_meta"] or ""
            if o["title"] != wt and (wt or not prep):
                fails.append(f"title: {what} title {o['title']!r}, expected {wt!r}{prep}")

    def _or_polar(self, case, o, fails):
        opt = case["opt"]
        rb, pb, f = self._grid(o["snap"])
        area = np.array([[0.5 * (r2 * r2 - r1 * r1) * (p2 - p1) for p1, p2 in pb] for r1, r2 in rb])
        data = f / area if opt["density"] else f
        cmap = opt.get("cmap") or "Greys"
        exp = []
        for i, (r1, r2) in enumerate(rb):
            for j, (p1, p2) in enumerate(pb):
                if opt["plot"] == "polar_map":
                    # one wedge per bin: from phi1 over the bin's angle, from r1 over the bin's radial width
                    if data[i, j] > 0 or opt["show_zero"]:
                        exp.append(((p1, r1, p2 - p1, r2 - r1), float(data[i, j])))
                elif data[i, j] != 0 or opt["show_zero"]:
                    fx, fy = TRANSFORMS["polar_xy"]
                    pts = [(r1, p1), (r2, p1), (r2, p2), (r1, p2), (r1, p1)]
                    exp.append(([(float(fx(*q)), float(fy(*q))) for q in pts], float(data[i, j])))
        if opt["plot"] == "polar_map":
            if o.get("axes_class") and "Polar" not in o["axes_class"]:
                fails.append(f"polar_axes: polar_map drew into {o['axes_class']}")
            self._or_cells(o, exp, cmap, fails, "polar")
        else:
            self._or_cells(o, exp, cmap, fails, "polar_xy", geometry="paths")

    def _or_mpl3d(self, case, o, fails):
        opt = case["opt"]
        p = opt["plot"]
        xb, yb, f = self._grid(o["snap"])
        hist = case.get("hist")
        if hist == "spherical":
            area = np.array([[(math.cos(a1) - math.cos(a2)) * (p2 - p1) for p1, p2 in yb] for a1, a2 in xb])
        elif hist == "cylinder":
            area = case["radius"] * np.outer([r - l for l, r in xb], [r - l for l, r in yb])
        else:
            area = np.outer([r - l for l, r in xb], [r - l for l, r in yb])
        data = f / area if opt["density"] else f
        if p == "bar3d":
            self._or_labels2(opt, o, fails, "bar3d")
            got = o.get("boxes")
            if got is None:
                return      # this matplotlib does not expose the faces
            cells = [(xl, yl, xr, yr, float(data[i, j])) for i, (xl, xr) in enumerate(xb) for j, (yl, yr) in enumerate(yb)]
            if len(got) != len(cells):
                fails.append(f"bar3d_marks: {len(got)} boxes for {len(cells)} bins")
                return
            pos = None
            for g, (xl, yl, xr, yr, v) in zip(got, cells):
                g = [ff(x) for x in g]
                if not (close(g[3] - g[0], xr - xl, 1e-6) and close(g[4] - g[1], yr - yl, 1e-6) and close(g[2], 0) and close(g[5], v, 1e-6)):
                    fails.append(f"bar3d_marks: box {g} (min corner, max corner) for the bin [{xl}, {xr}] x [{yl}, {yr}] with value {v}: "
                                 "footprint = bin widths and height = value expected")
                    return
                if pos is None and not (close(g[0], xl, 1e-6) and close(g[1], yl, 1e-6)):
                    pos = f"bar3d_position: the box of the bin [{xl}, {xr}] x [{yl}, {yr}] covers [{g[0]}, {g[3]}] x [{g[1]}, {g[4]}]"
            if pos:
                fails.append(pos)
            return
        quads = o.get("quads")
        if quads is None:
            return
        if p == "globe_map":
            m = lambda a, b: (math.sin(a) * math.cos(b), math.sin(a) * math.sin(b), math.cos(a))
        elif p == "cylinder_map":
            r = case["radius"]
            m = lambda a, z: (r * math.cos(a), r * math.sin(a), z)
        else:
            fx, fy = TRANSFORMS[opt["transform"]] if opt.get("transform") else (lambda x, y: x, lambda x, y: y)
            fz = SURFACE_Z[opt["z"]] or (lambda x, y: 0.0)
            m = lambda x, y: (fx(x, y), fy(x, y), fz(x, y))
        exp = []
        for i, (xl, xr) in enumerate(xb):
            for j, (yl, yr) in enumerate(yb):
                if opt["show_zero"] or data[i, j] != 0:
                    exp.append(([m(*q) for q in [(xl, yl), (xl, yr), (xr, yr), (xr, yl)]], float(data[i, j])))
        if len(quads) != len(exp):
            fails.append(f"{p}_cells: {len(quads)} cells drawn for {len(exp)} bins to draw")
            return
        for q, (vs, v) in zip(quads, exp):
            gv = [tuple(ff(x) for x in vert) for vert in q["verts"]]
            if not same_points(gv, vs):
                fails.append(f"{p}_cells: cell with corners {gv} for the bin with corners {vs}")
                return
        if not monotone([v for _, v in exp], [cmap_pos(q["color"], "Greys") for q in quads]):
            fails.append(f"{p}_colour: cell colour is not monotone in the value")

    def _or_ascii_map(self, case, o, fails):
        import re
        opt = case["opt"]
        xb, yb, f = self._grid(o["snap"])
        nx, ny = len(xb), len(yb)
        rows = [[int(x) // 65793 for x in re.findall(r"\[(-?\d+)\]", l)] for l in o["stdout"] if l.startswith("|")]
        if sum(len(r) for r in rows) != nx * ny:
            fails.append(f"ascii_map_cells: {sum(len(r) for r in rows)} cells printed for {nx * ny} bins")
            return
        # the printed frame labels the first axis as horizontal (left / right arrows) and the second as vertical (up / down arrows)
        good = len(rows) == ny and all(len(r) == nx for r in rows)
        if good:
            vals = [f[c, ny - 1 - r] for r in range(ny) for c in range(nx)]
            lev = [rows[r][c] for r in range(ny) for c in range(nx)]
            good = monotone(vals, lev)
        if good:
            return
        swapped = len(rows) == nx and all(len(r) == ny for r in rows)
        if swapped:
            vals = [f[nx - 1 - r, c] for r in range(nx) for c in range(ny)]
            lev = [rows[r][c] for r in range(nx) for c in range(ny)]
            if monotone(vals, lev):
                fails.append(f"ascii_map_position: the map prints {len(rows)} rows x {len(rows[0])} columns with bin (i, j) in row i, column j, but "
                             f"labels the horizontal direction with the first axis ({nx} bins) and the vertical with the second ({ny} bins)")
                return
        fails.append("ascii_map_colour: the printed cells are not one per bin with a grey level monotone in the value")

    def _or_pair(self, case, o, fails):
        opt = case["opt"]
        n1 = len(o["snaps"][0]["freq"])
        o1 = {"density": opt["density"], "cumulative": False}
        self._or_marks1("bar", o1, o, o["snaps"][0], fails, patches=o["patches"][:n1], sign=-1.0, what="first histogram (mirrored): ")
        self._or_marks1("bar", o1, o, o["snaps"][1], fails, patches=o["patches"][n1:], what="second histogram: ")
        if opt["title_arg"] and o["title"] != opt["title_arg"]:
            fails.append(f"title: pair_bars title {o['title']!r}, expected the given {opt['title_arg']!r}")

    def _or_collection(self, case, o, fails):
        opt = case["opt"]
        p = opt["plot"]
        snaps = o.get("snaps") or [o["snap"]]
        n = len(snaps[0]["freq"])
        for k, s in enumerate(snaps):
            what = f"member {k}: "
            if p.startswith("plotly_"):
                tr = o["traces"][k] if k < len(o["traces"]) else {"x": [], "y": []}
                self._or_marks1("scatter", opt, o, s, fails, pts=list(zip(tr["x"], tr["y"])), what=what)
            elif p == "bar":
                self._or_marks1("bar", opt, o, s, fails, patches=o["patches"][k * n:(k + 1) * n], what=what)
            elif p in ("line", "step"):
                self._or_marks1(p, opt, o, s, fails, line=o["lines"][k] if k < len(o["lines"]) else [[], []], what=what)
            else:
                self._or_marks1("scatter", opt, o, s, fails, pts=o["offsets"][k] if k < len(o["offsets"]) else [], what=what)
        if not p.startswith("plotly_"):
            want = opt["title_arg"] or opt["title"]
            if want and o["title"] != want:
                fails.append(f"title: collection plot title {o['title']!r}, expected {want!r}")

    def _or_grown(self, case, o, fails):
        """a collection whose members have bins of their own: every member is drawn with ITS bins"""
        if "setup_error" in o:
            return
        opt = case["opt"]
        snaps = o.get("snaps") or [o["snap"]]
        if any(not s["_shape_ok"] for s in snaps):
            return      # (a member left inconsistent by a refused operation: not a histogram any more)
        names = o["names"]
        counts = [len(s["freq"]) for s in snaps]
        starts = [sum(counts[:k]) for k in range(len(counts))]
        unequal = any(s["bins"] != snaps[0]["bins"] for s in snaps)
        if not o["coll_binning_unchanged"] or not o["members_now"]:
            fails.append("histogram_modified: plotting changed the collection (its own binning / its list of members)")
        pts_ok = lambda gx, gy, ex, ey: (len(gx) == len(gy) == len(ex) and None not in gx and None not in gy
                                         and all(close(ff(a), b) for a, b in zip(gx, ex)) and all(close(ff(a), b) for a, b in zip(gy, ey)))
        fv = lambda xs: [None if x is None else ff(x) for x in xs]
        for r in o["plots"]:
            p = r["plot"]
            head = (f"{r['backend']} {p} of a collection of {len(snaps)} histograms with {counts} bins"
                    f"{' (density)' if opt['density'] else ''}{' (cumulative)' if opt['cumulative'] else ''}: ")
            if "plot_error" in r:
                if not unequal:
                    fails.append("plot_raises: " + head + r["plot_error"])
                continue        # (refusing members with unequal bins is fine: counted in the tags)
            n_marks = len(r["traces"]) if r["backend"] == "plotly" else (
                len(r["patches"]) if p == "bar" else len(r["lines"]) if p in ("line", "step") else len(r["points"]) if p == "scatter" else len(r["polys"]))
            n_want = sum(counts) if (r["backend"], p) == ("matplotlib", "bar") else len(snaps)
            if n_marks != n_want:
                fails.append(f"collection_marks: {head}{n_marks} {'bars' if n_want != len(snaps) else 'traces / artists'} drawn, expected {n_want} "
                             f"(one per {'bin of every member' if n_want != len(snaps) else 'member'})")
                continue
            for k, s in enumerate(snaps):
                bins, f, e2, sizes, centres, data = self._data1(s, opt["density"], opt["cumulative"])
                what = f"{head}member {k} ({names[k]!r}, {counts[k]} bins over [{bins[0][0]}, {bins[-1][1]}]): "
                a0, n = starts[k], counts[k]
                if r["backend"] == "plotly":
                    tr = r["traces"][k]
                    if not pts_ok(tr["x"], tr["y"], centres, data):
                        fails.append(f"plotly_marks: {what}{len(tr['y'])} values {fv(tr['y'])[:6]} are drawn at the {len(tr['x'])} positions "
                                     f"x={fv(tr['x'])[:6]}; its {n} bin centres are {centres[:6]} and its values {data[:6]}")
                    elif p == "bar" and (tr["width"] is None or len(tr["width"]) != n or any(not close(ff(a), b) for a, b in zip(tr["width"], sizes))):
                        fails.append(f"plotly_widths: {what}bar widths {fv(tr['width'] or [])[:6]}, its bin widths are {sizes[:6]}")
                elif p == "bar":
                    self._or_marks1("bar", opt, r, s, fails, patches=r["patches"][a0:a0 + n], what=what)
                elif p in ("line", "step"):
                    self._or_marks1(p, opt, r, s, fails, line=r["lines"][k], what=what)
                elif p == "scatter":
                    self._or_marks1("scatter", opt, r, s, fails, pts=r["points"][k], what=what)
                else:
                    verts = {(round(ff(a), 9), round(ff(b), 9)) for q in r["polys"][k] for a, b in q}
                    if any((round(c, 9), round(d, 9)) not in verts for c, d in zip(centres, data)):
                        fails.append(f"fill_marks: {what}the filled area does not pass through (bin centre, value)")
                if fails:
                    break
                if r["backend"] == "matplotlib" and opt["errors"] and not opt["cumulative"] and p in ("bar", "line", "scatter"):
                    err = [math.sqrt(x) / (sz if opt["density"] else 1) for x, sz in zip(e2, sizes)]
                    segs = r["errsegs"][k] if k < len(r["errsegs"]) else []
                    ok = len(segs) == n and len(r["errsegs"]) == len(snaps)
                    for sg, c, dv, er in zip(segs, centres, data, err):
                        (x0, y0), (x1, y1) = [(ff(a), ff(b)) for a, b in sg]
                        etol = 1e-6 * max(abs(dv), er, 1e-12)
                        ok = ok and close(x0, c, 1e-7) and close(x1, c, 1e-7) and abs(min(y0, y1) - (dv - er)) <= etol and abs(max(y0, y1) - (dv + er)) <= etol
                    if not ok:
                        fails.append(f"error_bars: {what}{len(segs)} error bars; expected one per bin at its centres {centres[:5]} spanning value "
                                     f"± sqrt(errors2){'/size' if opt['density'] else ''} = ± {err[:5]}")
                        break
                if r["backend"] == "matplotlib" and opt["show_values"] and p != "fill":
                    tx = [(ff(t[0]), ff(t[1]), t[2]) for t in r["texts"] if len(t) < 4 or t[3]]
                    mine = tx[a0:a0 + n]
                    if len(tx) != sum(counts) or any(not (close(a[0], c) and close(a[1], dv)) for a, c, dv in zip(mine, centres, data)):
                        fails.append(f"value_labels: {what}{len(tx)} value labels for {sum(counts)} bins, or not at (its bin centre, value)")
                        break
                    bad = [(a[2], dv) for a, dv in zip(mine, data) if not label_ok(a[2], None, dv)]
                    if bad:
                        fails.append(f"value_format: {what}label {bad[0][0]!r} for the value {bad[0][1]!r}")
                        break
            if fails:
                break
            if r["backend"] == "matplotlib":
                want = opt["title_arg"] or opt["title"]
                if want and r["title"] != want:
                    fails.append(f"title: {head}plot title {r['title']!r}, expected {want!r}")

    def _or_backend(self, case, o, fails):
        name = case["name"]
        if o.get("after_set") != name:
            fails.append(f"default_backend: get_default_backend() gives {o.get('after_set')!r} after set_default_backend({name!r})")
        mod = o.get("ret_module")
        used = "ascii" if mod is None and o.get("stdout_lines") else (mod or "").split(".")[0]
        if used != name:
            fails.append(f"default_backend: a plot without a backend argument was drawn by {used!r} while the default is {name!r}")
        for bad, (res, cur) in o["bad_set"].items():
            if res != "REFUSED":
                fails.append(f"accepted_invalid: set_default_backend({bad!r}) accepted")
            elif cur != name:
                fails.append(f"default_backend: the refused set_default_backend({bad!r}) changed the default to {cur!r}")
        if not o["restored"]:
            fails.append(f"default_backend: set_default_backend({o['prev']!r}) did not bring the previous default back")
        gapped = any(a[1] != b[0] for a, b in zip(o["snap"]["bins"], o["snap"]["bins"][1:]))
        if "dir_pick" in o and o["dir_pick"][1] != "accepted" and not (o["dir_pick"][0] == "step" and gapped):
            fails.append(f"plot_proxy: dir(h.plot) lists {o['dir_pick'][0]!r} for a 1-D histogram, calling it gives {o['dir_pick'][1]}")

    def _or_data(self, case, o, fails):
        fl_ = case["flags"]
        s = o["snap"]
        if case["dim"] == 1:
            bins, f, e2, sizes, centres, data = self._data1(s, fl_["density"], fl_["cumulative"])
            shape = [len(f)]
            err = [math.sqrt(x) / (sz if fl_["density"] else 1) for x, sz in zip(e2, sizes)]
        else:
            xb, yb, f2 = self._grid(s)
            area = np.outer([r - l for l, r in xb], [r - l for l, r in yb])
            e2 = np.array([ff(x) for x in s["err2"]]).reshape(f2.shape)
            data = None if fl_["cumulative"] else list((f2 / area if fl_["density"] else f2).ravel())
            err = list((np.sqrt(e2) / (area if fl_["density"] else 1)).ravel())
            shape = [f2.size] if fl_["flatten"] else list(f2.shape)
        d = o["data"]
        if "refused" in d:
            if data is not None:
                fails.append(f"get_data: refused with {d['refused']} for {fl_}")
        elif data is not None:
            got = [ff(x) for x in d["values"]]
            if d["shape"] != shape or len(got) != len(data) or any(not close(a, b) for a, b in zip(got, data)):
                fails.append(f"get_data: {got[:6]} (shape {d['shape']}) for {fl_}, expected {[float(x) for x in data[:6]]} (shape {shape})")
        e = o["err"]
        if fl_["cumulative"]:
            if "refused" not in e:
                fails.append("errors_cumulative: get_err_data(cumulative=True) is not refused")
        elif "refused" in e:
            fails.append(f"get_err_data: refused with {e['refused']} for {fl_}")
        else:
            got = [ff(x) for x in e["values"]]
            if e["shape"] != shape or len(got) != len(err) or any(not close(a, b, 1e-6) for a, b in zip(got, err)):
                fails.append(f"get_err_data: {got[:6]} for {fl_}, expected sqrt(errors2){'/size' if fl_['density'] else ''} = {[float(x) for x in err[:6]]}")
        vf = case["vf"]
        samples = (0, 3, 1.5, 0.125, 1234.5678)
        if vf and vf[0] in "sc":
            if isinstance(o["vf"], dict):
                fails.append(f"value_format: get_value_format refused {vf!r} with {o['vf']['refused']}")
            else:
                fmt = value_formatter(vf)[1]
                if o["vf"] != [fmt(v) for v in samples]:
                    fails.append(f"value_format: {vf!r} formats {samples} as {o['vf']}, expected {[fmt(v) for v in samples]}")
        elif not vf and (isinstance(o["vf"], dict) or any(not label_ok(t, None, v) for t, v in zip(o["vf"], samples))):
            fails.append(f"value_format: the default format shows {samples} as {o['vf']}")

    def oracle(self, case, io):
        o = io["outs"]
        kind = case["kind"]
        if kind == "ticks":
            return self._or_ticks(case, o)
        fails = []
        if not o["unchanged"]:
            fails.append(f"histogram_modified: plotting changed the histogram: {o.get('changed_fields')}")
        dim = 2 if kind in ("mpl2", "refuse2", "ascii_map", "polar", "mpl3d") or case.get("dim") == 2 else 1
        for name, r in o["refused"].items():
            if r != "REFUSED":
                if name.startswith("errors_cumulative"):
                    fails.append(f"errors_cumulative: plot('{name[18:]}', errors=True, cumulative=True) is not refused")
                elif name == "no_kind_for_dim":
                    fails.append("accepted_invalid: plot() of a 3-D histogram accepted although the backend has no kind for 3 dimensions")
                else:
                    fails.append(f"accepted_invalid: plot kind / backend '{name}' accepted for a {dim}-D histogram")
        if o.get("source_unchanged") is False:
            fails.append("histogram_modified: plotting a derived histogram changed the histogram it was derived from")
        if o.get("first_unchanged") is False:
            fails.append("histogram_modified: a second plot into the same axes changed the histogram plotted there first")
        if o.get("same_axes") is False:
            fails.append("prepared_axes: the plot did not go into (return) the axes given with ax=")
        if "plot_error" in o:
            if not (kind == "mpl2" and case["opt"]["plot"] == "image"):
                fails.append("plot_raises: " + o["plot_error"])
            return fails
        opt = case.get("opt")
        if kind == "mpl1":
            self._or_mpl1(case, o, fails)
        elif kind == "plotly1":
            p = o.get("default_kind", opt["plot"])
            bins, f, e2, sizes, centres, data = self._data1(o["snap"], opt["density"], opt["cumulative"])
            tr = o["trace"]
            gx, gy = [ff(x) for x in tr["x"]], [ff(y) for y in tr["y"]]
            if len(gx) != len(centres) or any(not close(a, b) for a, b in zip(gx, centres)) or any(not close(a, b) for a, b in zip(gy, data)):
                fails.append(f"plotly_marks: trace is not (bin centre, value): y {gy[:4]} expected {data[:4]}")
            if p == "bar" and (tr["width"] is None or any(not close(ff(a), b) for a, b in zip(tr["width"], sizes))):
                fails.append("plotly_widths: bar widths are not the bin widths")
            if opt.get("ticks"):
                tv = [ff(x) for x in (o.get("tickvals") or [])]
                want = centres if opt["ticks"] == "center" else [l for l, _ in bins]
                edges = [l for l, _ in bins] + [r for _, r in bins]
                if opt["ticks"] == "center" and (len(tv) != len(want) or any(not close(a, b) for a, b in zip(tv, want))):
                    fails.append(f"ticks_centres: plotly tick values {tv[:5]}, the bin centres are {want[:5]}")
                if opt["ticks"] == "edge" and (any(not any(close(l, x) for x in tv) for l in want) or any(not any(close(x, e) for e in edges) for x in tv)):
                    fails.append(f"ticks_edges: plotly tick values {tv[:5]}, the bin edges are {sorted(set(edges))[:6]}")
            th = opt.get("tick_handler")
            if th:
                tv = [ff(x) for x in (o.get("tickvals") or [])]
                w = th["unit"][1] * SECONDS[th["unit"][0]]
                exp = multiples_inside(bins[0][0], bins[-1][1], w)
                if len(tv) != len(exp) or any(abs(a - b) > 1e-9 for a, b in zip(tv, exp)):
                    fails.append(f"ticks: plotly tick values {tv[:8]} for bins over [{bins[0][0]}, {bins[-1][1]}] and a tick handler of unit {w} s; the multiples inside are {exp[:8]}")
                if len(o.get("ticktext") or []) != len(tv):
                    fails.append(f"tick_labels: {len(tv)} plotly ticks but {len(o.get('ticktext') or [])} labels")
        elif kind == "ascii":
            f = [ff(x) for x in o["snap"]["freq"]]
            tot = sum(f)
            exp = [int(np.round(x / tot * opt["width"])) for x in f]
            lines = o["stdout"]
            got = [len(l.split(" ")[0]) if l.startswith("#") else 0 for l in lines]
            if len(lines) != len(f) or got != exp:
                fails.append(f"ascii_bars: bar lengths {got}, expected round(f/total*width) = {exp}")
            if opt["show_values"]:
                vals = [l.split(" ")[-1] for l in lines]
                if any(not close(float(v), x) for v, x in zip(vals, f)):
                    fails.append(f"ascii_values: printed values {vals} differ from the frequencies {f}")
        elif kind == "mpl2":
            self._or_mpl2(case, o, fails)
        elif kind == "ascii_map":
            self._or_ascii_map(case, o, fails)
        elif kind == "polar":
            self._or_polar(case, o, fails)
        elif kind == "mpl3d":
            self._or_mpl3d(case, o, fails)
        elif kind == "pair":
            self._or_pair(case, o, fails)
        elif kind == "collection":
            self._or_collection(case, o, fails)
        elif kind == "backend":
            self._or_backend(case, o, fails)
        elif kind == "data":
            self._or_data(case, o, fails)
        elif kind == "reuse":
            self._or_reuse(case, o, fails)
        elif kind == "grown":
            self._or_grown(case, o, fails)
        # failures with the signature of a recorded open finding go last: the first failure names the case
        known = [x for x in fails if x.split(":")[0] in self.OPEN_SIGNATURES]
        return ([x for x in fails if x not in known] + known)[:6]

    OPEN_SIGNATURES = {"ascii_map_position": "ascii_map", "bar3d_position": "bar3d"}

    def nontrivial(self, case, io):
        if case["kind"] == "ticks":
            return len(io["outs"]["ticks"]) > 0 or "refused" in io["outs"]
        return any(x not in ("0", None) for x in io["outs"]["snap"]["freq"])

    def tags(self, case, io):
        t = list(case["tags"])
        o = io["outs"]
        if case["kind"] == "ticks" and "refused" in o:
            t.append("level_refused:" + o["refused"])
        if "default_kind" in o:
            t.append("default_kind:" + str(o["default_kind"]))
        if case["kind"] == "grown":
            if "setup_error" in o:
                return t + ["stream:grown_collection:setup_refused"]
            snaps = o.get("snaps") or [o["snap"]]
            unequal = any(s["bins"] != snaps[0]["bins"] for s in snaps)
            t.append("stream:grown_collection:" + ("unequal_bins" if unequal else "one_member" if len(snaps) == 1 else "equal_bins"))
            if len({len(s["freq"]) for s in snaps}) > 1:
                t.append("stream:grown_collection:different_bin_counts")
            if any(pl["backend"] == "plotly" for pl in case["plots"]) and unequal:
                t.append("stream:grown_collection:unequal_bins_plotly")
            t += ["grown:members_%d" % len(snaps), "grown:ascii_" + o["ascii"].lower()]
            if o["op_log"]:
                t.append("stream:grown_collection:op_refused")
            if any("plot_error" in r for r in o["plots"]):
                t.append("stream:grown_collection:plot_refused")
        if o.get("derive_log"):
            t.append("derive:refused")
        if case.get("prep") and "prep_texts" in o:
            t += ["prep:had_" + k for k, v in o["prep_texts"].items() if v]
            if "plot_error" in o:
                t.append("stream:prepared_axes:plot_refused")
        return t

    def matches_known(self, finding, case):
        plot = self.OPEN_SIGNATURES.get(finding.get("signature"))
        return plot is not None and (case.get("opt") or {}).get("plot") == plot

    def neighbours(self, case):
        return []

    def shrink_candidates(self, case):
        """switch the options off one at a time (the histogram is kept)"""
        out = []
        if case["kind"] == "reuse":
            # drop one call of the handler at a time (the histograms are kept)
            for i in range(len(case["steps"])):
                if len(case["steps"]) > 1:
                    c = copy.deepcopy(case)
                    del c["steps"][i]
                    out.append(c)
            return out
        if case["kind"] == "grown":
            # one plot, one operation, one member, one value less; the options are switched off below
            for i in range(len(case["plots"])):
                if len(case["plots"]) > 1:
                    c = copy.deepcopy(case); del c["plots"][i]; out.append(c)
            for i in range(len(case["ops"])):
                c = copy.deepcopy(case); del c["ops"][i]; out.append(c)
            for i in range(len(case["members"])):
                if len(case["members"]) > 1:
                    c = copy.deepcopy(case)
                    del c["members"][i]
                    c["ops"] = [dict(op, m=op["m"] - (op["m"] > i)) if "m" in op else op for op in c["ops"] if op.get("m") != i]
                    out.append(c)
            for i, mb in enumerate(case["members"]):
                if len(mb["values"]) > 1:
                    c = copy.deepcopy(case)
                    del c["members"][i]["values"][-1]
                    if c["members"][i].get("weights"):
                        del c["members"][i]["weights"][-1]
                    out.append(c)
            for i, op in enumerate(case["ops"]):
                if len(op.get("values") or []) > 1:
                    c = copy.deepcopy(case)
                    del c["ops"][i]["values"][-1]
                    if c["ops"][i].get("weights"):
                        del c["ops"][i]["weights"][-1]
                    out.append(c)
        spec = case.get("from2d") or case
        if spec.get("derive") or spec.get("layout") not in (None, "C"):
            # drop one derivation at a time (a final projection / selection stays), then the memory layout
            key = ["from2d"] if "from2d" in case else []
            n = len(spec.get("derive") or []) - (1 if "from2d" in case else 0)
            for i in range(n):
                if spec["derive"][i]["op"] in ("T", "merge", "getitem"):
                    continue        # (these change the shape the later derivations were drawn for)
                c = copy.deepcopy(case)
                del (c["from2d"] if key else c)["derive"][i]
                out.append(c)
            if spec.get("layout") not in (None, "C"):
                c = copy.deepcopy(case)
                (c["from2d"] if key else c)["layout"] = "C"
                out.append(c)
        if case.get("prep"):
            # a prepared axes: one placeholder less (one stays), the earlier plot's own texts / overrides off one at a time
            pr = case["prep"]
            for k, v in pr["texts"].items():
                if v and sum(1 for x in pr["texts"].values() if x) > 1:
                    c = copy.deepcopy(case); c["prep"]["texts"][k] = None; out.append(c)
            for k in ("title", "axis_name", "title_arg", "xlabel_arg", "ylabel_arg"):
                if pr.get("first") and pr["first"].get(k):
                    c = copy.deepcopy(case); c["prep"]["first"][k] = None; out.append(c)
            if pr.get("suptitle"):
                c = copy.deepcopy(case); c["prep"]["suptitle"] = False; out.append(c)
        opt = case.get("opt") or {}
        for k, v in opt.items():
            if k in ("plot", "bad", "call", "names", "width", "z") or not v:
                continue
            c = copy.deepcopy(case)
            c["opt"][k] = False if v is True else None
            c["tags"] = [t for t in c["tags"] if not t.startswith("opt:" + k)]
            out.append(c)
        return out


PROP = C20()

"""C07 — every binning schema is well-formed, covers its data and obeys its rule."""
from __future__ import annotations

import math
import warnings
from fractions import Fraction

import numpy as np

from .. import gen1
from ..core import nrs, rs

warnings.simplefilter("ignore")


def data_for(rng):
    n = rng.choice([2, 3, 5, 10, 30, 100, 400])
    scale = 10.0 ** rng.choice([-6, -3, -1, 0, 0, 1, 3, 6, 8])
    off = rng.choice([0.0, 0.0, 1.0, -5.0, 1e3, -1e5]) * rng.choice([1.0, scale])
    kind = rng.choice(["uniform", "normal", "ints", "decimals", "twovalues"])
    if kind == "uniform":
        d = [off + scale * rng.random() for _ in range(n)]
    elif kind == "normal":
        d = [off + scale * rng.gauss(0, 1) for _ in range(n)]
    elif kind == "ints":
        d = [float(rng.randint(-20, 20)) for _ in range(n)]
    elif kind == "decimals":
        d = [round(rng.uniform(-5, 5), rng.choice([1, 2])) for _ in range(n)]
    else:
        a = off + scale * rng.random()
        d = [a, a + scale * rng.choice([1.0, 1e-3, 2.5])] * (n // 2)
    if len(set(d)) < 2:
        d = d + [d[0] + scale]
    return d, kind


def allowed_pretty(width):
    """is the width one of {1, 2, 2.5, 5} * 10^k ?"""
    if width <= 0:
        return False
    p = math.floor(math.log10(width))
    for dp in (-1, 0, 1):
        for s in (1.0, 2.0, 2.5, 5.0):
            c = s * 10.0 ** (p + dp)
            if abs(c - width) <= 4 * np.spacing(c):
                return True
    return False


class C07:
    ID = "C07"
    N_QUICK = 400
    N_THOROUGH = 10000
    N_SEARCH = 400
    RULE = ("binnings produced by calculate_1d_bins / the factories from data over 14 orders of magnitude and offsets (uniform, "
            "normal, integer, decimal-literal, two-valued incl. tiny ranges) x specification: bin count 1-200, explicit edges / "
            "pairs (valid, unsorted, overlapping, zero-width, wrong shape), numpy(range), fixed_width (widths, align, bin_shift, "
            "range), pretty (bin_count, min / max width), integer, quantile (bin_count / q list / qrange), exponential, static, the "
            "count rules sqrt / sturges / rice / doane / default; every result is examined through bins, numpy_bins, "
            "numpy_bins_with_mask, bin_count, first / last edge, is_consecutive, is_regular, copy, ==, slicing (also after the "
            "cached representations were read). non-trivial = more than one bin; distinct = case hash")
    EXTRA_TRUST = ["numpy.histogram_bin_edges and numpy.percentile are the external references named by the property",
                   "doane's rule and the astropy-based factories are checked for well-formedness and coverage only"]
    ASSUMPTIONS = ["computed edges are compared with the exact-arithmetic model within 4 ulps; structure (rising, count, end "
                   "points, coverage of every datum) is checked exactly on the implementation's own doubles"]

    def gen_case(self, rng, k, tier):
        d, dk = data_for(rng)
        method = rng.choice(["int", "int", "numpy_range", "fixed_width", "fixed_width", "pretty", "pretty", "integer", "quantile",
                             "exponential", "static_edges", "static_pairs", "rule", "malformed", "pretty_width"])
        spec = {"method": method}
        if method == "int":
            spec["n"] = rng.choice([1, 2, 3, 5, 10, 17, 50, 200])
        elif method == "numpy_range":
            lo = min(d) - rng.choice([0, 1, 0.5]); hi = max(d) + rng.choice([0, 1, 0.25])
            spec["n"] = rng.randint(1, 20); spec["range"] = [lo, hi]
        elif method == "fixed_width":
            span = max(d) - min(d)
            lit = [w for w in (0.1, 0.3, 1.0, 0.25, 2.5, 0.7) if span / w < 300]
            spec["bin_width"] = rng.choice([span / rng.randint(1, 200), span / 3] + lit) or 1.0
            if rng.random() < 0.3:
                spec["align"] = False
            if rng.random() < 0.3:
                spec["bin_shift"] = spec["bin_width"] * rng.choice([0.5, 0.25])
        elif method == "pretty":
            if rng.random() < 0.6:
                spec["bin_count"] = rng.randint(1, 40)
        elif method == "integer":
            if max(d) - min(d) > 500:
                d = [float(rng.randint(-30, 30)) + rng.choice([0.0, 0.25, -0.5]) for _ in range(len(d))]
                if len(set(d)) < 2:
                    d.append(d[0] + 3)
        elif method == "quantile":
            if rng.random() < 0.5:
                spec["bin_count"] = rng.randint(1, 6)
                if rng.random() < 0.3:
                    spec["qrange"] = [0.1, 0.9]
            else:
                spec["q"] = sorted({rng.choice([0, 0.1, 0.25, 0.5, 0.75, 0.9, 1]) for _ in range(rng.randint(2, 5))})
                if len(spec["q"]) < 2:
                    spec["q"] = [0.0, 1.0]
        elif method == "exponential":
            d = [abs(x) + 1e-3 * (abs(x) + 1) for x in d]
            spec["bin_count"] = rng.randint(1, 12)
        elif method in ("static_edges", "static_pairs"):
            pairs, t = gen1.rising_bins(rng, allow_gaps=method == "static_pairs")
            spec["pairs"] = pairs
        elif method == "rule":
            spec["rule"] = rng.choice(["sqrt", "sturges", "rice", "doane", "default"])
        elif method == "pretty_width":
            spec["raw"] = rng.choice([2.6, 445.0, 0.03, 7.4e-6, 1.0, 3.9e4, rng.uniform(0.001, 1000), 10.0 ** rng.randint(-5, 5) * rng.choice([1.0, 2.2, 3.6, 7.1])])
        else:
            pairs, _ = gen1.rising_bins(rng, allow_gaps=False)
            what = rng.choice(["unsorted", "overlap", "zero_width", "wrong_shape", "unsorted_edges", "dup_edges"])
            spec["bad"] = what
            if what == "unsorted" and len(pairs) >= 2:
                pairs[0], pairs[-1] = pairs[-1], pairs[0]
            elif what == "overlap" and len(pairs) >= 2:
                pairs[1] = [pairs[0][0], pairs[1][1]]
            elif what == "zero_width":
                pairs[-1] = [pairs[-1][0], pairs[-1][0]]
            elif what == "wrong_shape":
                pairs = [p + [p[1] + 1] for p in pairs]
            elif what == "unsorted_edges":
                e = [pairs[0][0]] + [p[1] for p in pairs]
                if len(e) < 3:
                    e.append(e[-1] + 1)
                e[0], e[-1] = e[-1], e[0]
                spec["edges"] = e
            elif what == "dup_edges":
                e = [pairs[0][0]] + [p[1] for p in pairs]
                spec["edges"] = e + [e[-1]]
            if what in ("unsorted", "overlap") and len(pairs) < 2:
                spec["bad"] = "zero_width"; pairs[-1] = [pairs[-1][0], pairs[-1][0]]
            spec["pairs"] = pairs
        return {"kind": "binning", "data": d, "spec": spec, "tags": ["method:" + method, "data:" + dk]}

    # ------------------------------------------------------------------ implementation
    def run_impl(self, case):
        from physt._construction import calculate_1d_bins
        from physt import binnings as B
        from physt._bin_utils import find_pretty_width
        d = np.array(case["data"], dtype=float)
        sp = case["spec"]
        m = sp["method"]
        log = []
        out = {}
        if m == "pretty_width":
            return {"outs": {"pretty_width": nrs(find_pretty_width(sp["raw"]))}, "log": log}
        try:
            if m == "int":
                b = calculate_1d_bins(d, sp["n"])
            elif m == "numpy_range":
                b = calculate_1d_bins(d, sp["n"], range=tuple(sp["range"]))
            elif m == "fixed_width":
                kw = {k: sp[k] for k in ("align", "bin_shift") if k in sp}
                b = calculate_1d_bins(d, "fixed_width", bin_width=sp["bin_width"], **kw)
            elif m == "pretty":
                kw = {k: sp[k] for k in ("bin_count",) if k in sp}
                b = calculate_1d_bins(d, "pretty", **kw)
            elif m == "integer":
                b = calculate_1d_bins(d, "integer")
            elif m == "quantile":
                kw = {k: (tuple(sp[k]) if k == "qrange" else sp[k]) for k in ("bin_count", "q", "qrange") if k in sp}
                b = calculate_1d_bins(d, "quantile", **kw)
            elif m == "exponential":
                b = calculate_1d_bins(d, "exponential", bin_count=sp["bin_count"])
            elif m == "static_edges":
                e = [sp["pairs"][0][0]] + [p[1] for p in sp["pairs"]] if gen1.is_consecutive_exact(sp["pairs"]) else None
                b = calculate_1d_bins(d, np.array(e)) if e else calculate_1d_bins(d, np.array(sp["pairs"]))
            elif m == "static_pairs":
                b = calculate_1d_bins(d, np.array(sp["pairs"]))
            elif m == "rule":
                b = calculate_1d_bins(d, sp["rule"])
                out["rule_count"] = int(B.ideal_bin_count(d, sp["rule"]))
            elif m == "malformed":
                if "edges" in sp:
                    b = calculate_1d_bins(d, np.array(sp["edges"]))
                else:
                    b = calculate_1d_bins(d, np.array(sp["pairs"]))
            else:
                raise KeyError(m)
        except KeyError:
            raise
        except Exception as e:
            log.append(f"{type(e).__name__}: {e}"[:200])
            return {"outs": {"refused": True}, "log": log}
        out.update(self.examine(b))
        out["class"] = type(b).__name__
        if hasattr(b, "bin_width"):
            out["bin_width"] = nrs(b.bin_width)
            out["grid"] = [nrs(b._shift), int(b._times_min) if b._times_min is not None else None]
        return {"outs": out, "log": log}

    @staticmethod
    def examine(b):
        """all representations, read twice and across copy / slicing"""
        o = {}
        bins = np.asarray(b.bins).reshape(-1, 2)
        o["bins"] = [[nrs(l), nrs(r)] for l, r in bins]
        o["bin_count"] = int(b.bin_count)
        try:
            nb = np.asarray(b.numpy_bins)
            o["numpy_bins"] = [nrs(x) for x in nb]
        except Exception:
            o["numpy_bins"] = None
        try:
            e, mask = b.numpy_bins_with_mask
            o["masked_edges"] = [nrs(x) for x in e]
            o["mask"] = [int(x) for x in mask]
        except Exception as ex:
            o["masked_edges"] = ["ERROR " + type(ex).__name__]
            o["mask"] = []
        o["ire"] = bool(b.includes_right_edge)
        o["first"], o["last"] = nrs(b.first_edge), nrs(b.last_edge)
        o["consecutive"] = bool(b.is_consecutive())
        try:
            o["regular"] = bool(b.is_regular())
        except Exception as ex:
            o["regular"] = "ERROR " + type(ex).__name__
        c = b.copy()
        o["copy_eq"] = bool(c == b) and bool(b == c)
        o["copy_bins"] = [[nrs(l), nrs(r)] for l, r in np.asarray(c.bins).reshape(-1, 2)]
        o["copy_is_new"] = c is not b
        if len(bins) >= 2:
            try:
                s = b[1:]
            except Exception as ex:      # e.g. the binning itself is not rising: reported by the oracle, not a crash
                o["slice_error"] = f"{type(ex).__name__}: {ex}"[:160]
                return o
            sb = np.asarray(s.bins).reshape(-1, 2)
            o["slice_bins"] = [[nrs(l), nrs(r)] for l, r in sb]
            o["slice_count"] = int(s.bin_count)
            o["slice_first"], o["slice_last"] = nrs(s.first_edge), nrs(s.last_edge)
            o["slice_consecutive"] = bool(s.is_consecutive())
            try:
                o["slice_numpy_bins"] = [nrs(x) for x in np.asarray(s.numpy_bins)]
            except Exception:
                o["slice_numpy_bins"] = None
            o["ne_slice"] = not bool(s == b)
        return o

    # ------------------------------------------------------------------ model
    def model_case(self, case, io):
        o = io["outs"]
        sp = case["spec"]
        if sp["method"] == "pretty_width":
            raw = sp["raw"]
            p = math.floor(math.log10(raw))
            cands = [s * 10.0 ** p for s in (0.5, 1, 2, 2.5, 5, 10)]
            return {"kind": "binning", "what": "pretty", "raw": rs(raw), "candidates": [rs(c) for c in cands]}
        if o.get("refused"):
            if sp["method"] == "malformed" and "pairs" in sp and all(len(p) == 2 for p in sp["pairs"]) and "edges" not in sp:
                return {"kind": "binning", "what": "repr", "bins": [[rs(l), rs(r)] for l, r in sp["pairs"]]}
            return None
        if any(x in (None, "inf", "-inf") for p in o["bins"] for x in p):
            return None
        return {"kind": "binning", "what": "repr", "bins": o["bins"]}

    def diff(self, case, model_ok, io):
        o = io["outs"]
        sp = case["spec"]
        d = []
        if sp["method"] == "pretty_width":
            if model_ok is None or abs(Fraction(model_ok) - Fraction(o["pretty_width"])) > Fraction(1, 10**12) * abs(Fraction(model_ok)):
                d.append(f"pretty width for raw {sp['raw']}: model={model_ok} impl={o['pretty_width']}")
            return d
        if o.get("refused"):
            if model_ok["rising"]:
                d.append("a rising specification was refused")
            return d
        if not model_ok["rising"]:
            d.append("model says the produced bins are not rising")
        if model_ok["count"] != o["bin_count"]:
            d.append(f"bin_count: model={model_ok['count']} impl={o['bin_count']}")
        if model_ok["first"] != o["first"] or model_ok["last"] != o["last"]:
            d.append(f"first/last edge: model={model_ok['first']},{model_ok['last']} impl={o['first']},{o['last']}")
        gaps = [Fraction(o["bins"][i + 1][0]) - Fraction(o["bins"][i][1]) for i in range(len(o["bins"]) - 1)]
        tiny = any(0 < g <= Fraction(1, 10**8) + Fraction(1, 10**5) * abs(Fraction(o["bins"][i][1])) for i, g in enumerate(gaps))
        if not tiny and model_ok["consecutive"] != o["consecutive"]:
            d.append(f"is_consecutive: model={model_ok['consecutive']} impl={o['consecutive']}")
        if model_ok["consecutive"] and o["numpy_bins"] is not None and model_ok["edges"] != o["numpy_bins"]:
            d.append("numpy_bins differ from the edges of the pairs")
        me = list(model_ok["masked_edges"])
        ie = list(o["masked_edges"])
        if not o["ire"]:
            if ie[-1:] != ["inf"]:
                d.append("right-open binning without +inf")
            ie = ie[:-1]
        if me != ie or model_ok["mask"] != o["mask"]:
            d.append(f"masked edges / mask: model={me},{model_ok['mask']} impl={ie},{o['mask']}")
        return d[:6]

    # ------------------------------------------------------------------ oracle
    def oracle(self, case, io):
        o = io["outs"]
        sp = case["spec"]
        m = sp["method"]
        fails = []
        d = case["data"]
        if m == "pretty_width":
            w = float(Fraction(o["pretty_width"]))
            if not allowed_pretty(w):
                fails.append(f"pretty_set: find_pretty_width({sp['raw']}) = {w} is not in {{1, 2, 2.5, 5}}*10^k")
            else:
                raw = sp["raw"]
                p = math.floor(math.log10(raw))
                best = min((s * 10.0 ** (p + dp) for dp in (-1, 0, 1) for s in (1.0, 2.0, 2.5, 5.0)), key=lambda c: abs(math.log(c / raw)))
                if abs(math.log(w / raw)) > abs(math.log(best / raw)) * (1 + 1e-9) + 1e-12:
                    fails.append(f"pretty_nearest: find_pretty_width({raw}) = {w}, but {best} is nearer")
            return fails
        if m == "malformed":
            if not o.get("refused"):
                fails.append(f"accepted_invalid: a {sp['bad']} specification was accepted")
            return fails
        if o.get("refused"):
            ok_refusal = (m == "exponential") or (m in ("int", "rule") and (max(d) - min(d) == 0 or not np.isfinite(max(d) - min(d))))
            if m == "quantile":
                q = sp.get("q")
                if q is None:
                    a, b = sp.get("qrange", [0.0, 1.0])
                    q = np.linspace(a * 100, b * 100, sp["bin_count"] + 1) / 100
                ref = np.percentile(np.array(d, dtype=float), np.asarray(q) * 100.0)
                ok_refusal = len(set(ref)) < len(ref)     # equal quantiles cannot make bins
            if not ok_refusal:
                fails.append(f"refused_valid: {m} binning refused: " + "; ".join(io["log"][:1]))
            return fails
        bins = [(Fraction(l), Fraction(r)) for l, r in o["bins"]]
        n = len(bins)
        if n == 0:
            return ["no_bins: the binning has no bins"]
        if any(l >= r for l, r in bins):
            fails.append("not_rising: a bin has left >= right")
        if any(bins[i][1] > bins[i + 1][0] for i in range(n - 1)):
            fails.append("overlap: a bin starts before its predecessor ends")
        lo, hi = Fraction(min(d)), Fraction(max(d))
        covers = m in ("int", "fixed_width", "pretty", "integer", "rule") or (m == "quantile" and sp.get("qrange") is None and
                                                                        (sp.get("q") is None or (sp["q"][0] == 0 and sp["q"][-1] == 1)))
        if covers:
            if bins[0][0] > lo:
                fails.append(f"cover_min: first edge {float(bins[0][0])!r} is above the data minimum {float(lo)!r}")
            right_open = o["class"] == "FixedWidthBinning"
            if bins[-1][1] < hi or (right_open and bins[-1][1] == hi):
                fails.append(f"cover_max: last edge {float(bins[-1][1])!r} does not cover the data maximum {float(hi)!r}")
        if m == "numpy_range":
            if bins[0][0] != Fraction(sp["range"][0]) or bins[-1][1] != Fraction(sp["range"][1]):
                fails.append("cover_range: the requested range is not covered exactly")
        # rules
        da = np.array(d, dtype=float)
        if m in ("int", "numpy_range", "rule"):
            cnt = sp.get("n") if m != "rule" else o.get("rule_count")
            rng_ = tuple(sp["range"]) if m == "numpy_range" else None
            ref = np.histogram_bin_edges(da, cnt, range=rng_)
            got = o["numpy_bins"]
            if got is None or [Fraction(float(x)) for x in ref] != [Fraction(x) for x in got]:
                if len(set(ref)) == len(ref):
                    fails.append(f"numpy_edges: edges differ from numpy.histogram_bin_edges(data, {cnt})")
            if m == "rule" and sp["rule"] in ("sqrt", "sturges", "rice"):
                N = len(d)
                exp = {"sqrt": math.isqrt(N - 1) + 1, "sturges": (N - 1).bit_length() + 1,
                       "rice": next(k for k in range(1, 4 * N) if k ** 3 >= 8 * N)}[sp["rule"]]
                if o["rule_count"] != exp:
                    fails.append(f"count_rule: {sp['rule']} for {N} values gives {o['rule_count']}, expected {exp}")
        if o["class"] == "FixedWidthBinning":
            w = Fraction(o["bin_width"])
            shift, tmin = o["grid"]
            for i, (l, r) in enumerate(bins):
                el = (tmin + i) * float(w) + float(Fraction(shift))
                er = (tmin + i + 1) * float(w) + float(Fraction(shift))
                if Fraction(el) != l or Fraction(er) != r:
                    fails.append("off_grid: an edge is not (times_min + i) * width + shift")
                    break
            if n >= 2:
                if bins[1][0] <= lo or (n >= 2 and bins[-2][1] > hi) and m != "pretty":
                    if m in ("fixed_width", "integer"):
                        fails.append("extra_bins: more bins than the data need")
            if m == "integer":
                if w != 1 or any((l + Fraction(1, 2)).denominator != 1 for l, _ in bins):
                    fails.append("integer_rule: integer bins are not centred on integers with width 1")
            if m == "pretty":
                if not allowed_pretty(float(w)):
                    fails.append(f"pretty_set: bin width {float(w)} is not in {{1, 2, 2.5, 5}}*10^k")
            if m == "fixed_width" and w != Fraction(float(sp["bin_width"])):
                fails.append("width: bin width differs from the one requested")
        if m == "quantile":
            q = sp.get("q")
            if q is None:
                a, b = sp.get("qrange", [0.0, 1.0])
                q = np.linspace(a * 100, b * 100, sp["bin_count"] + 1) / 100
            ref = np.percentile(da, np.asarray(q) * 100.0)
            if len(set(ref)) == len(ref) and [Fraction(float(x)) for x in ref] != [Fraction(x) for x in o["numpy_bins"]]:
                fails.append("quantile_rule: edges are not the data quantiles")
        if m == "exponential" and n >= 2:
            ratios = [float(r / l) for l, r in bins]
            if max(ratios) / min(ratios) > 1 + 1e-9:
                fails.append("geometric: exponential edges do not form a geometric sequence")
            if float(bins[0][0]) > min(d) * (1 + 1e-9) or float(bins[-1][1]) < max(d) * (1 - 1e-9):
                fails.append("exp_cover: exponential bins do not cover the data (up to rounding)")
        if m in ("static_edges", "static_pairs"):
            if bins != [(Fraction(l), Fraction(r)) for l, r in sp["pairs"]]:
                fails.append("static: bins differ from the specification")
        # representations agree
        if o["bin_count"] != n:
            fails.append(f"repr_count: bin_count {o['bin_count']} != len(bins) {n}")
        if Fraction(o["first"]) != bins[0][0] or Fraction(o["last"]) != bins[-1][1]:
            fails.append(f"repr_first_last: first/last edge {o['first']}/{o['last']} disagree with bins")
        consecutive = all(bins[i][1] == bins[i + 1][0] for i in range(n - 1))
        if consecutive:
            if not o["consecutive"]:
                fails.append("repr_consecutive: is_consecutive() is False for consecutive bins")
            edges = [bins[0][0]] + [r for _, r in bins]
            if o["numpy_bins"] is None or [Fraction(x) for x in o["numpy_bins"]] != edges:
                fails.append("repr_numpy_bins: numpy_bins disagree with bins")
        widths = [r - l for l, r in bins]
        reg = all(w == widths[0] for w in widths)     # exactly equal widths must be reported regular
        if o["regular"] is not True and reg and o["class"] != "ExponentialBinning":
            fails.append(f"repr_regular: is_regular() = {o['regular']} for equal widths")
        # is_regular() is tolerant (allclose with atol 1e-8): only differences far above that tolerance count
        if o["regular"] is True and not reg and o["class"] != "FixedWidthBinning" and \
           max(abs(float(w - widths[0])) for w in widths) > max(1e-6, 1e-3 * float(max(widths))):
            fails.append("repr_regular: is_regular() is True for unequal widths")
        if not o["copy_eq"] or o["copy_bins"] != o["bins"] or not o["copy_is_new"]:
            fails.append("repr_copy: copy() is not an equal, independent binning")
        if "slice_error" in o:
            fails.append("representations: slicing the binning raised " + o["slice_error"])
        if "slice_bins" in o:
            if o["slice_bins"] != o["bins"][1:] or o["slice_count"] != n - 1:
                fails.append("repr_slice: binning[1:] is not bins[1:]")
            if Fraction(o["slice_first"]) != bins[1][0] or Fraction(o["slice_last"]) != bins[-1][1]:
                fails.append(f"repr_slice_edges: first/last edge of binning[1:] are {o['slice_first']}/{o['slice_last']}")
            sl = bins[1:]
            if all(sl[i][1] == sl[i + 1][0] for i in range(len(sl) - 1)):
                if o["slice_numpy_bins"] is None or [Fraction(x) for x in o["slice_numpy_bins"]] != [sl[0][0]] + [r for _, r in sl]:
                    fails.append("repr_slice_numpy_bins: numpy_bins of binning[1:] disagree with its bins")
                if not o["slice_consecutive"]:
                    fails.append("repr_slice_consecutive: is_consecutive() of a consecutive slice is False")
        return fails[:6]

    def nontrivial(self, case, io):
        return len(io["outs"].get("bins", [])) > 1

    def tags(self, case, io):
        return list(case["tags"]) + (["refused"] if io["outs"].get("refused") else [])

    def matches_known(self, finding, case):
        return False

    def neighbours(self, case):
        return []

    def shrink_candidates(self, case):
        import copy
        d = case["data"]
        if len(d) > 4:
            for k in (len(d) // 2, len(d) - 1):
                c = copy.deepcopy(case)
                c["data"] = d[:k]
                if len(set(c["data"])) >= 2:
                    yield c


PROP = C07()

"""HistogramCollection companion of C05 (and of the copy clause of C12): a collection over explicit bins whose members are
random parts of one data set.

A case is described by `src` (binning, members, permutation, the histogram to `add`, two mutations) and carries the
equivalent op list in the 1-D op language (`ops`) for the Lean driver.  The collection API has no op of its own in that
language; `run_impl` drives the real `HistogramCollection` in *stages* and puts the members / sums / copies into the same
registers the op list uses, so after stage `name` the registers are compared with the model's registers after op number
`ck` (`case["stages"] = [[name, ck], ...]`).

Register layout for m members:
    0..m-1  members (create / multi_h1)        model: empty + fill_n
    m       collection.sum()                   model: sum
    m+1     h1(all data, bins, weights)        model: construct
    m+2     HistogramCollection(*permuted).sum()
    m+3     sum() of an empty collection       model: empty
    m+4     the histogram given to add()       model: construct
    m+5     collection.sum() after add()
    m+6..   members of collection.copy()       model: copy
"""
from __future__ import annotations

import copy
from fractions import Fraction

import numpy as np

from .. import gen1, impl1
from ..core import rs
from ..runner import diff_outputs

WEIGHT_KINDS = ["none", "none", "int", "dyadic", "zeros", "f32"]
SNAP_INDEP = ("bins", "freq", "err2", "under", "over", "inner", "dtype", "keep", "adaptive", "stats")
T9 = Fraction(1, 10**9)


# ---------------------------------------------------------------------------------------------- generation
def gen(rng):
    tags = ["collection"]
    if rng.random() < 0.3:
        w = rng.choice([1.0, 0.5, 0.25, 0.1, 2.5])
        tmin, count = rng.randint(-6, 6), rng.randint(1, 6)
        shift = rng.choice([0.0, 0.0, 0.5 * w])
        b = gen1.fixed_json(w, tmin, count, shift=shift, adaptive=False)
        pairs = [[(tmin + i) * w + shift, (tmin + i + 1) * w + shift] for i in range(count)]
        tags.append("binning:fixed")
    else:
        pairs, t = gen1.rising_bins(rng)
        tags += [x for x in ("gapped", "tiny_gap") if t[x]]
        b = gen1.binning_json(pairs, rng=rng)
        tags.append("binning:static")
    via = "multi_h1" if rng.random() < 0.3 else "create"
    m = rng.choice([1, 2, 2, 3, 3, 4])
    nan_share = 0.06
    if via == "multi_h1" and rng.random() < 0.85:
        nan_share = 0        # multi_h1 decides the bins from the data first and refuses NaN there
    n = rng.choice([0, 1, 3, 6, 10, 16, 24])
    vals = gen1.values_for(rng, pairs, n, nan_share=nan_share)
    parts = [[] for _ in range(m)]
    skip = rng.randrange(m) if (m > 1 and rng.random() < 0.25) else None      # a member that stays empty
    for i, v in enumerate(vals):
        j = i if i < m else rng.randrange(m)      # the first values go round, the rest anywhere
        if j == skip:
            j = (j + 1) % m
        parts[j].append(v)
    members = []
    for j, p in enumerate(parts):
        ws, wk = (None, None) if via == "multi_h1" else gen1.weights_for(rng, len(p), kinds=WEIGHT_KINDS)
        members.append({"name": f"part{j}", "vals": gen1.enc_vals(p), "ws": None if ws is None else [rs(x) for x in ws], "wkind": wk})
    perm = list(range(m))
    rng.shuffle(perm)
    if m > 1 and perm == list(range(m)):
        perm.reverse()
    avals = gen1.values_for(rng, pairs, rng.choice([0, 1, 3]), nan_share=0.05)
    aws, awk = gen1.weights_for(rng, len(avals), kinds=["none", "none", "int", "dyadic"])
    npairs = len(pairs)
    base = rng.randint(-4, 4)
    other_pairs = [[float(base + i), float(base + i + 1)] for i in range(npairs + 1)]
    inside = [v for v in gen1.values_for(rng, pairs, 4, nan_share=0)]

    def mutation():
        kind = rng.choice(["fill", "fill", "fill_n", "imul", "idiv", "set_dtype", "iadd"])
        return {"kind": kind, "t": rng.randrange(16), "v": rs(rng.choice(inside)), "vs": gen1.enc_vals(rng.sample(inside, 2)),
                "o": rng.randrange(16)}

    src = {"binning": b, "via": via, "container": rng.choice(["list", "array"]), "members": members, "perm": perm,
           "add": {"vals": gen1.enc_vals(avals), "ws": None if aws is None else [rs(x) for x in aws], "wkind": awk},
           "other": gen1.binning_json(other_pairs, form="pairs"), "mut_copy": mutation(), "mut_orig": mutation(),
           "grow": gen1.enc_vals(rng.sample(inside, 2))}
    return build(src, tags)


def concat(parts):
    """values, weights (or None), weight dtype of the concatenation of parts [{vals, ws, wkind}] (absent weights are 1)"""
    vals, ws = [], []
    anyw = any(p["ws"] is not None for p in parts)
    kinds = {p["wkind"] for p in parts if p["ws"] is not None}
    for p in parts:
        vals += p["vals"]
        ws += p["ws"] if p["ws"] is not None else ["1"] * len(p["vals"])
    wk = None
    if anyw:
        wk = "float64" if ("float64" in kinds or ("float32" in kinds and len(kinds) > 1)) else (kinds.pop() if len(kinds) == 1 else "int64")
    return vals, (ws if anyw else None), wk


class Regs:
    def __init__(self, m):
        self.m = m
        self.S, self.ALL, self.PERM, self.EMPTY, self.ADD, self.S2, self.C0 = m, m + 1, m + 2, m + 3, m + 4, m + 5, m + 6
        self.orig = list(range(m)) + [self.ADD]                 # the collection's members after add()
        self.copies = [self.C0 + j for j in range(m + 1)]


def mut_op(mu, targets, partners):
    r = targets[mu["t"] % len(targets)]
    k = mu["kind"]
    if k == "fill":
        return {"op": "fill", "h": r, "v": mu["v"], "w": "2", "wk": "pyint"}
    if k == "fill_n":
        return {"op": "fill_n", "h": r, "vs": mu["vs"], "ws": None}
    if k == "imul":
        return {"op": "imul", "h": r, "c": "3", "k": "pyint"}
    if k == "idiv":
        return {"op": "idiv", "h": r, "c": "2", "k": "pyint"}
    if k == "set_dtype":
        return {"op": "set_dtype", "h": r, "dtype": "float64"}
    return {"op": "iadd", "h": r, "o": partners[mu["o"] % len(partners)]}


def build(src, tags):
    mem = src["members"]
    m = len(mem)
    R = Regs(m)
    b = src["binning"]
    ops, stages = [], []

    def stage(name):
        stages.append([name, len(ops) - 1])

    for j, p in enumerate(mem):
        ops.append({"op": "empty", "out": j, "binning": b})
        ops.append({"op": "fill_n", "h": j, "vs": p["vals"], "ws": p["ws"], "wkind": p["wkind"]})
    stage("create")
    ops.append({"op": "sum", "hs": list(range(m)), "out": R.S})
    stage("sum")
    vals, ws, wk = concat(mem)
    ops.append({"op": "construct", "out": R.ALL, "binning": b, "data": vals, "weights": ws, "wkind": wk})
    stage("all")
    ops.append({"op": "sum", "hs": list(src["perm"]), "out": R.PERM})
    stage("perm")
    stage("nondestructive")
    ops.append({"op": "empty", "out": R.EMPTY, "binning": b})
    stage("empty")
    a = src["add"]
    ops.append({"op": "construct", "out": R.ADD, "binning": b, "data": a["vals"], "weights": a["ws"], "wkind": a["wkind"]})
    stage("add")
    ops.append({"op": "sum", "hs": R.orig, "out": R.S2})
    stage("sum2")
    stage("bad")
    for r, c in zip(R.orig, R.copies):
        ops.append({"op": "copy", "h": r, "out": c})
    stage("copy")
    ops.append(mut_op(src["mut_copy"], R.copies, R.orig))
    stage("mut_copy")
    ops.append(mut_op(src["mut_orig"], R.orig, R.copies))
    stage("mut_orig")
    stage("grow")
    has_nan = any(v is None for p in mem for v in p["vals"])
    t = [x for x in tags if x in ("collection", "gapped", "tiny_gap", "binning:fixed", "binning:static")]
    t += [f"members:{m}", "via:" + src["via"], "bad:other_bins", "container:" + src["container"],
          "mut:" + src["mut_copy"]["kind"], "mut:" + src["mut_orig"]["kind"]]
    t += ["nan"] if has_nan else []
    t += ["empty_member"] if any(not p["vals"] for p in mem) else []
    t += sorted({"weights:" + (p["wkind"] or "none") for p in mem})
    return {"kind": "hist1", "sub": "coll", "ops": ops, "stages": stages, "tags": t, "src": src}


def shrink_candidates(case):
    src, tags = case["src"], case.get("tags", [])
    m = len(src["members"])
    if m > 1:
        for j in range(m):
            s2 = copy.deepcopy(src)
            del s2["members"][j]
            s2["perm"] = [q if q < j else q - 1 for q in s2["perm"] if q != j]
            yield build(s2, tags)
    for j in range(m):
        for i in range(len(src["members"][j]["vals"])):
            s2 = copy.deepcopy(src)
            del s2["members"][j]["vals"][i]
            if s2["members"][j]["ws"] is not None:
                del s2["members"][j]["ws"][i]
            yield build(s2, tags)
    for i in range(len(src["add"]["vals"])):
        s2 = copy.deepcopy(src)
        del s2["add"]["vals"][i]
        if s2["add"]["ws"] is not None:
            del s2["add"]["ws"][i]
        yield build(s2, tags)


# ---------------------------------------------------------------------------------------------- implementation
def _values(p, container):
    a = impl1.arr(p["vals"])
    return a.tolist() if container == "list" else a


def _weights(p):
    if p["ws"] is None:
        return None
    return impl1.arr(p["ws"], np.dtype(p["wkind"] or "float64"))


def _ref(b, vals, ws, wk):
    """h1(vals, bins, weights=ws) through the same entry the `construct` op uses; a snapshot, or None when refused"""
    s, log = impl1.Store(), []
    ret = impl1.step(s, {"op": "construct", "out": 0, "binning": b, "data": vals, "weights": ws, "wkind": wk}, log)
    return impl1.snap1(s.get(0)) if ret == "ok" else None


def run_impl(case):
    from physt.histogram_collection import HistogramCollection

    src = case["src"]
    mem = src["members"]
    m = len(mem)
    R = Regs(m)
    b = src["binning"]
    ops = case["ops"]
    ck = dict((name, k) for name, k in case["stages"])
    s = impl1.Store()
    log: list = []
    outs: list = []
    io = {"outs": outs, "log": log}

    def snap(name, ret="ok"):
        outs.append({"stage": name, "ret": ret, "regs": [None if h is None else impl1.snap1(h) for h in s.regs]})

    def attempt(what, f):
        try:
            return True, f()
        except Exception as e:
            log.append(f"{what}: {type(e).__name__}: {e}"[:200])
            return False, None

    # ---- create
    def make():
        if src["via"] == "multi_h1":
            col = HistogramCollection.multi_h1({p["name"]: _values(p, src["container"]) for p in mem}, impl1.mk_binning(b))
            return col, list(col)
        col = HistogramCollection(binning=impl1.mk_binning(b))
        made = [col.create(p["name"], _values(p, src["container"]), weights=_weights(p)) for p in mem]
        return col, made

    ok, res = attempt("create", make)
    if not ok:
        snap("create", "REFUSED")
        return io
    col, made = res
    for j, h in enumerate(made[:m]):
        s.set(j, h)
    io["len"] = len(col)
    io["names"] = [h.name for h in col]
    io["made_are_members"] = len(made) == len(col) and all(x is y for x, y in zip(made, col))
    snap("create")
    if len(made) != m:
        return io

    # ---- sum, the histogram of all data, the sum in another order
    ok, h = attempt("sum", col.sum)
    if ok:
        s.set(R.S, h)
    snap("sum", "ok" if ok else "REFUSED")
    if not ok:
        return io
    snap("all", impl1.step(s, ops[ck["all"]], log))
    ok, h = attempt("sum of permuted", lambda: HistogramCollection(*[made[q] for q in src["perm"]]).sum())
    if ok:
        s.set(R.PERM, h)
    snap("perm", "ok" if ok else "REFUSED")
    if not ok:
        return io
    io["refs"] = [_ref(b, p["vals"], p["ws"], p["wkind"]) for p in mem]
    io["ref_empty"] = _ref(b, [], None, None)

    # ---- calls that must leave the members alone; look-ups
    nd = {}
    ok, na = attempt("normalize_all", lambda: col.normalize_all(inplace=False))
    nd["normalize_all"] = {"ret": "ok", "returned_self": na is col, "members": [impl1.snap1(h) for h in na]} if ok else {"ret": "REFUSED"}
    with np.errstate(all="ignore"):
        ok, nb = attempt("normalize_bins", lambda: col.normalize_bins(inplace=False))
    nd["normalize_bins"] = {"ret": "ok" if ok else "REFUSED"}
    ok, cp0 = attempt("copy", col.copy)
    nd["copy"] = {"ret": "ok" if ok else "REFUSED"}
    ok, _ = attempt("sum", col.sum)
    nd["sum"] = {"ret": "ok" if ok else "REFUSED"}
    look = []
    for j, p in enumerate(mem):
        ok1, got = attempt("getitem", lambda: col[p["name"]])
        ok2, cont = attempt("contains", lambda: p["name"] in col)
        ok3, byix = attempt("getitem", lambda: col[j])
        look.append({"name": p["name"], "by_name": ok1 and got is made[j], "contains": bool(ok2 and cont), "by_index": ok3 and byix is made[j]})
    ok, cont = attempt("contains", lambda: "no such member" in col)
    nd["lookup"] = look
    nd["absent_contained"] = bool(cont) if ok else "REFUSED"
    nd["axis_names"] = [col.axis_name, list(col.axis_names)]
    io["nondestructive"] = nd
    snap("nondestructive")

    # ---- an empty collection
    ok, h = attempt("sum of empty", lambda: HistogramCollection(binning=impl1.mk_binning(b)).sum())
    if ok:
        s.set(R.EMPTY, h)
    snap("empty", "ok" if ok else "REFUSED")

    # ---- add
    ret = impl1.step(s, ops[ck["add"]], log)
    if ret != "ok":
        snap("add", "REFUSED")
        return io
    hadd = s.get(R.ADD)
    ok, _ = attempt("add", lambda: col.add(hadd))
    io["add"] = {"len": len(col), "last_is_added": len(col) > 0 and list(col)[-1] is hadd}
    snap("add", "ok" if ok else "REFUSED")
    if not ok:
        return io
    ok, h = attempt("sum after add", col.sum)
    if ok:
        s.set(R.S2, h)
    snap("sum2", "ok" if ok else "REFUSED")
    if not ok:
        return io
    a = src["add"]
    io["ref_all2"] = _ref(b, *concat(mem + [a]))

    # ---- a histogram over other bins
    from physt import h1
    other = h1([], impl1.mk_binning(src["other"]))
    bad = {}
    ok, _ = attempt("add other", lambda: col.add(other))
    bad["add"] = "accepted" if ok else "REFUSED"
    bad["len"] = len(col)
    ok, _ = attempt("collection of different binnings", lambda: HistogramCollection(hadd, other))
    bad["ctor"] = "accepted" if ok else "REFUSED"
    ok, _ = attempt("collection of different binnings", lambda: HistogramCollection(other, hadd.copy(), hadd))
    bad["ctor2"] = "accepted" if ok else "REFUSED"
    if bad["add"] == "REFUSED":
        ok, h = attempt("sum after refused add", col.sum)
        bad["sum"] = impl1.snap1(h) if ok else "REFUSED"
    io["bad"] = bad
    snap("bad")
    if bad["add"] != "REFUSED":
        return io

    # ---- copy, and changes on either side
    ok, cp = attempt("copy", col.copy)
    if ok:
        io["copy"] = {"len": len(cp), "names": [h.name for h in cp], "is_new": cp is not col}
        for c, h in zip(R.copies, cp):
            s.set(c, h)
    snap("copy", "ok" if ok else "REFUSED")
    if not ok or len(cp) != m + 1:
        return io
    snap("mut_copy", impl1.step(s, ops[ck["mut_copy"]], log))
    snap("mut_orig", impl1.step(s, ops[ck["mut_orig"]], log))
    grow = {"vals": src["grow"], "ws": None, "wkind": None}
    ok1, _ = attempt("create in copy", lambda: cp.create("grown", _values(grow, src["container"])))
    l1 = len(col)
    ok2, _ = attempt("create in original", lambda: col.create("grown too", _values(grow, src["container"])))
    io["grow"] = {"ret": "ok" if ok1 and ok2 else "REFUSED", "len_original_after_copy_grew": l1, "len_copy_after_original_grew": len(cp)}
    snap("grow")
    return io


# ---------------------------------------------------------------------------------------------- model
def model_case(case, io):
    if io["outs"][0]["ret"] != "ok":
        return None            # nothing was built (multi_h1 refuses NaN): nothing to compare
    return {"kind": "hist1", "ops": case["ops"]}


ALL_FIELDS = {"bins", "freq", "err2", "under", "over", "inner", "keep", "dtype", "total", "adaptive", "binning", "stats"}


def diff(case, model_ok, io, keep, rtol=None):
    outs = io["outs"]
    if "tiny_gap" in case.get("tags", []):
        # a gap below numpy's allclose tolerance: physt calls the bins consecutive, the exact model does not; whether the
        # under/overflow is then known is not pinned by any property (DESIGN 9.4)
        keep = set(keep or ALL_FIELDS) - {"under", "over"}
    msel, isel = [], []
    for (name, k), o in zip(case["stages"], outs):
        if o["ret"] != "ok" and name not in ("mut_copy", "mut_orig"):
            break              # a refused collection call: the oracle speaks about it
        msel.append({"stage": name, "regs": model_ok[k]["regs"]})
        isel.append({"stage": name, "regs": o["regs"]})
    return diff_outputs(msel, isel, keep, rtol)


# ---------------------------------------------------------------------------------------------- oracle
def view(r):
    return None if r is None else {f: r.get(f) for f in SNAP_INDEP}


def oracle(case, io, only=None):
    """`only`: keep the failures whose signature is listed (the C12 check asks for its own clauses)"""
    fails = _oracle(case, io)
    if only is not None:
        fails = [f for f in fails if f.split(":")[0] in only]
    return fails


def _oracle(case, io):
    from .c05 import CMP, same, stats_same

    src = case["src"]
    mem = src["members"]
    m = len(mem)
    R = Regs(m)
    outs = io["outs"]
    st = {o["stage"]: o for o in outs}
    fails = []
    gapped = "gapped" in case.get("tags", [])
    fields = tuple(f for f in CMP if not (gapped and f in ("under", "over")))
    has_nan = any(v is None for p in mem for v in p["vals"])
    why = "; ".join(io["log"][:2])

    def cmp(sig, name, x, y, stats=True, total=True):
        if any(v is None for h in (x, y) for v in h["freq"] + h["err2"] + [h["total"]]):
            # NaN contents (e.g. after a division by a zero total): equal only if NaN at the same places
            d = [f for f in ("freq", "err2", "total") if x[f] != y[f]] or same({**x, "freq": [], "err2": []}, {**y, "freq": [], "err2": []}, fields)
            if d:
                fails.append(f"{sig}: {name}: {d} differ: {[x[f] for f in d]} vs {[y[f] for f in d]}")
            return
        d = same(x, y, fields)
        if total and Fraction(x["total"]) != Fraction(y["total"]):
            d.append("total")
        if d:
            fails.append(f"{sig}: {name}: {d} differ: {[x[f] for f in d]} vs {[y[f] for f in d]}")
        if stats:
            sd = stats_same(x["stats"], y["stats"])
            if sd:
                fails.append(f"stats_differ: {name}: statistics {sd} differ: {[x['stats'].get(f) for f in sd]} vs {[y['stats'].get(f) for f in sd]}")

    def unchanged(a, b, regs, what):
        for i in regs:
            x, y = st[a]["regs"][i], st[b]["regs"][i]
            if x != y:
                fails.append(f"operand_modified: member in register {i} changed by {what}: fields {[f for f in x if x[f] != y[f]]}")

    # ---- (2) the members
    if st["create"]["ret"] != "ok":
        if src["via"] == "multi_h1" and has_nan:
            return []          # multi_h1 computes the bins from the data and refuses NaN there; no property demands otherwise
        return [f"refused_valid: building the collection ({src['via']}) was refused: {why}"]
    if io["len"] != m or io["names"] != [p["name"] for p in mem] or not io["made_are_members"]:
        return [f"member_count: {m} members {[p['name'] for p in mem]} asked for, the collection holds {io['len']}: {io['names']}"]
    for name in ("sum", "all", "perm"):
        if name not in st or st[name]["ret"] != "ok":
            return [f"refused_valid: stage {name} was refused: {why}"]
    regs = st["perm"]["regs"]
    for j, p in enumerate(mem):
        ref = io["refs"][j]
        if ref is None:
            return [f"refused_valid: h1 of the values of member {j} was refused: {why}"]
        cmp("member_differs", f"member {p['name']} vs h1(its values, bins, weights)", regs[j], ref)
    # ---- (1) the sum
    cmp("sum_differs", "collection.sum() vs h1(all data)", regs[R.S], regs[R.ALL])
    cmp("sum_differs", f"sum() of the members in order {src['perm']} vs sum()", regs[R.PERM], regs[R.S])
    if regs[R.PERM]["dtype"] != regs[R.S]["dtype"]:
        fails.append(f"dtype_differs: sum() in order {src['perm']}: {regs[R.PERM]['dtype']} vs {regs[R.S]['dtype']}")
    unchanged("create", "perm", range(m), "sum()")
    if fails:
        return fails[:6]
    # ---- calls with inplace=False, copy, look-ups
    nd = io.get("nondestructive")
    if nd is None:
        return fails
    unchanged("perm", "nondestructive", range(m), "normalize_all(inplace=False) / normalize_bins(inplace=False) / copy() / sum()")
    for what in ("copy", "sum"):
        if nd[what]["ret"] != "ok":
            fails.append(f"refused_valid: {what}() was refused: {why}")
    for j, lk in enumerate(nd["lookup"]):
        if not lk["by_name"]:
            fails.append(f"lookup: collection[{lk['name']!r}] is not the member created under that name")
        if not lk["contains"]:
            fails.append(f"lookup: {lk['name']!r} in collection is False")
        if not lk["by_index"]:
            fails.append(f"lookup: collection[{j}] is not member number {j}")
    if nd["absent_contained"] is not False:
        fails.append(f"lookup: 'no such member' in collection gave {nd['absent_contained']}")
    if fails:
        return fails[:6]
    # ---- (4) normalize_all
    na = nd["normalize_all"]
    totals = [Fraction(regs[j]["total"]) for j in range(m)]
    if na["ret"] != "ok":
        if all(t != 0 for t in totals):
            fails.append(f"refused_valid: normalize_all() of members with totals {[float(t) for t in totals]} was refused: {why}")
    else:
        if na["returned_self"]:
            fails.append("operand_modified: normalize_all(inplace=False) returned the collection itself")
        if len(na["members"]) != m:
            fails.append(f"member_count: normalize_all() returned {len(na['members'])} members of {m}")
        for j, (h0, h1_) in enumerate(zip(regs[:m], na["members"])):
            t0 = totals[j]
            if t0 == 0:
                continue
            if h1_["total"] is None or abs(Fraction(h1_["total"]) - 1) > T9:
                fails.append(f"normalize_total: member {j} has total {h1_['total']} after normalize_all()")
                continue
            if h1_["bins"] != h0["bins"]:
                fails.append("bins_changed: normalize_all() changed the bins")
            for x, y in zip(h0["freq"], h1_["freq"]):
                if y is None or abs(Fraction(x) / t0 - Fraction(y)) > T9:
                    fails.append(f"normalize_proportions: member {j}: content {x} of total {t0} became {y}")
                    break
    # ---- (6) the empty collection
    if "empty" not in st:
        return fails[:6]
    if st["empty"]["ret"] != "ok":
        fails.append(f"refused_valid: sum() of an empty collection was refused: {why}")
    else:
        e, ref = st["empty"]["regs"][R.EMPTY], io["ref_empty"]
        if ref is not None and e["bins"] != ref["bins"]:
            fails.append("empty_sum: sum() of an empty collection is not over the collection's bins")
        if any(x is None or Fraction(x) != 0 for x in e["freq"] + e["err2"] + [e["total"]]):
            fails.append(f"empty_sum: sum() of an empty collection has contents {e['freq']} / squared errors {e['err2']}")
        if e["_shape_ok"] is not True:
            fails.append("empty_sum: sum() of an empty collection has arrays of the wrong shape")
    # ---- (3) add
    if "add" not in st or st["add"]["ret"] != "ok":
        fails.append(f"refused_valid: add() of a histogram over the same binning was refused: {why}")
        return fails[:6]
    ad = io["add"]
    if ad["len"] != m + 1 or not ad["last_is_added"]:
        fails.append(f"add_appends: after add() the collection has {ad['len']} members (was {m}); last member is the added one: {ad['last_is_added']}")
    if "sum2" not in st or st["sum2"]["ret"] != "ok":
        fails.append(f"refused_valid: sum() after add() was refused: {why}")
        return fails[:6]
    regs2 = st["sum2"]["regs"]
    if io["ref_all2"] is None:
        return fails[:6]
    cmp("sum_differs", "sum() after add(h) vs h1(all data and h's data)", regs2[R.S2], io["ref_all2"])
    unchanged("nondestructive", "sum2", range(m), "add() / sum()")
    bad = io.get("bad")
    if bad is None:
        return fails[:6]
    if bad["add"] != "REFUSED":
        fails.append("accepted_incompatible: add() accepted a histogram with a different binning")
    else:
        if bad["len"] != m + 1:
            fails.append(f"refused_changed: the refused add() changed the number of members to {bad['len']}")
        if bad["sum"] == "REFUSED":
            fails.append(f"refused_changed: sum() is refused after a refused add(): {why}")
        elif view(bad["sum"]) != view(regs2[R.S2]):
            fails.append("refused_changed: sum() differs after a refused add()")
        unchanged("sum2", "bad", R.orig, "a refused add()")
    if bad["ctor"] != "REFUSED" or bad["ctor2"] != "REFUSED":
        fails.append("accepted_incompatible: a collection was constructed from histograms with different binnings")
    if fails or "copy" not in st:
        return fails[:6]
    # ---- (5) copy() is independent (the C12 clause)
    if st["copy"]["ret"] != "ok":
        return [f"refused_valid: copy() was refused: {why}"]
    cpi = io["copy"]
    if cpi["len"] != m + 1 or not cpi["is_new"]:
        fails.append(f"copy_differs: copy() has {cpi['len']} members, the collection {m + 1}")
        return fails[:6]
    rc = st["copy"]["regs"]
    for r, c in zip(R.orig, R.copies):
        a, b_ = view(rc[r]), view(rc[c])
        if a != b_:
            fails.append(f"copy_differs: member {r} of copy() differs from the original in {[f for f in SNAP_INDEP if a[f] != b_[f]]}")
    unchanged("bad", "copy", R.orig, "copy()")
    for prev, cur in (("copy", "mut_copy"), ("mut_copy", "mut_orig"), ("mut_orig", "grow")):
        if cur not in st:
            break
        op = case["ops"][dict(map(tuple, case["stages"]))[cur]] if cur != "grow" else {"op": "create", "h": None}
        before, after = st[prev]["regs"], st[cur]["regs"]
        for i, (x, y) in enumerate(zip(before, after)):
            if i == op["h"] or x is None or y is None:
                continue
            vx, vy = view(x), view(y)
            if vx != vy:
                side = "the copy" if i in R.copies else "the original collection" if i in R.orig else "a result"
                fails.append(f"not_independent: {op['op']} on register {op['h']} ({'copy' if op['h'] in R.copies else 'original'} member) "
                             f"changed register {i} ({side}): fields {[f for f in SNAP_INDEP if vx[f] != vy[f]]}")
        if op["op"] in ("fill", "fill_n") and st[cur]["ret"] == "REFUSED":
            fails.append(f"unusable: {op['op']} on a member of {'the copy' if op['h'] in R.copies else 'the copied collection'} raised: " + "; ".join(io["log"][-1:]))
    g = io.get("grow")
    if g is not None:
        if g["ret"] != "ok":
            fails.append(f"refused_valid: create() after copy() was refused: " + "; ".join(io["log"][-1:]))
        elif g["len_original_after_copy_grew"] != m + 1 or g["len_copy_after_original_grew"] != m + 2:
            fails.append("not_independent: creating a member in the copy / the original changed the other collection's members")
    return fails[:6]


def nontrivial(case, io):
    outs = io["outs"]
    if len(outs) < len(case["stages"]):
        return False
    filled = [p for p in case["src"]["members"] if any(v is not None for v in p["vals"])]
    return len(filled) >= min(2, len(case["src"]["members"]))


def mutation_changed_target(case, io):
    """C12's notion of a non-trivial case: a change after copy() really changed its target"""
    st = {o["stage"]: o for o in io["outs"]}
    return "mut_orig" in st and (st["copy"]["regs"] != st["mut_copy"]["regs"] or st["mut_copy"]["regs"] != st["mut_orig"]["regs"])

"""C12, stream `nested_meta`: mutable values nested inside the meta data, for every derivation on every histogram class.

A source histogram (1-D, adaptive 1-D, 2-D, adaptive 2-D, 3-D, 4-D, the transformed classes -- polar, radial, azimuthal,
cylindrical, spherical, cylindrical / spherical surface -- or a HistogramCollection) gets custom meta-data entries whose
values are mutable containers (dict of lists, list of dicts, two levels; empty containers too) and, sometimes, edits of
title / name / axis_names BEFORE one derivation of the property's list (copy, copy without contents, arithmetic with a
scalar and with a second histogram carrying equal / different / no entries, normalize, merge_bins, projection onto every
axis subset, integer selection by index expression and by select(axis, int), slices / masks / index arrays, T,
partial_normalize, accumulate, JSON parsing, collection copy / normalize_all / normalize_bins / sum).  Afterwards the meta
data are edited IN PLACE -- append / insert / extend / item assignment / del / pop / clear inside a nested list,
item assignment / update / del / pop / setdefault inside a nested dict, top-level assignment / del / update, the title /
name / axis_names setters -- through the source and, separately, through the result (and the second operand).

What the property demands (oracle): the derivation is not in-place, so it leaves its operands exactly as they were; after
every edit every OTHER live object reports exactly what it reported before (the whole public snapshot, the meta data as a
deep copy); copy() keeps class, dtype and meta data.  Which entries a derivation carries over is NOT pinned (projections
and integer selections drop the custom entries on the unchanged library, `+` keeps the entries both operands agree on):
an edit addresses "the n-th mutable container this object carries now", resolved when the history runs, and falls back to
a top-level assignment when the object carries none.

Besides, the object graph is observed: after every step the mutable containers inside the meta-data values that two live
objects share BY IDENTITY are recorded (harness/sharing.py).  Sharing alone is not a violation; the history is then
continued by one edit of each shared container through one of the two objects (a `probe` step, recorded among the resolved
steps of the replay), which makes the sharing visible to the oracle whatever the generated edits happened to touch.

Stream `opaque_meta` (same machinery, `flavour: opaque`): mutable objects reachable only THROUGH IMMUTABLE containers, and
meta-data dictionaries holding ONLY such values -- tuples / namedtuples / frozensets (of identity-hashed objects) holding
lists or dicts, nested to two levels (`('pt', [10, 20])`, `(('a', {'k': [1]}),)`), with no plain list / dict / array beside
them in the same histogram (mode `immutable_only`: whatever short cut a copy takes for "immutable" values is taken) -- and
mixed dictionaries with instances of small user classes (dataclass with a list field, a frozen dataclass holding a list),
types.SimpleNamespace, collections.deque, bytearray, set, numpy arrays, and ONE mutable object stored under two keys.
The case file carries such values as JSON specs ({"__t": kind, "v": ...}, `decode`); edits go to the inner mutable object
in place through the immutable wrapper (md['cuts'][1].append(30), obj.items.append, deque.append, array[...] = ...).
Derivations through JSON only get values JSON can carry (tuples / namedtuples of lists, dicts and scalars).

The Lean model's histograms carry no meta-data values (Driver: set_meta / append_meta change nothing), so these cases are
oracle-only (`model_case` -> None)."""
from __future__ import annotations

import collections
import copy
import dataclasses
import itertools
import json
import types

import numpy as np

from ..sharing import (_is_mutable_container, attrs_of, follow_path, meta_containers, nested_meta_shared, path_text,
                       stable_elems)

REFUSED = "REFUSED"

PLAIN = ("h1", "h1ad", "h2", "h2ad", "h3", "h4")
TRANSFORMED = ("polar", "radial", "azimuthal", "cylindrical", "spherical", "cylsurf", "sphsurf")
CLASSES = PLAIN + TRANSFORMED + ("collection",)
NDIM = {"h1": 1, "h1ad": 1, "h2": 2, "h2ad": 2, "h3": 3, "h4": 4, "polar": 2, "radial": 1, "azimuthal": 1,
        "cylindrical": 3, "spherical": 3, "cylsurf": 2, "sphsurf": 2, "collection": 1}
KEYS = ["sel", "tags", "cfg", "runs", "notes"]
SNAP_FIELDS = ("class", "bins", "freq", "err2", "missed", "dtype", "keep", "adaptive", "name", "title", "axis_names", "meta")

# sub-classes of the stream that can be switched off (none is needed on the unchanged library)
ENABLE_COLLECTION_SUM = True          # collection.sum() / normalize_all() / normalize_bins() beside collection.copy()
ENABLE_PROBE_EDITS = True             # continue the history by an edit of every container found shared by identity


# =================================================================================================== generation
def gen_value(rng, depth=2):
    """a mutable container, nested up to two levels below itself; leaves are JSON scalars"""
    def leaf():
        return rng.choice([1, 2, 3, 20, "pt > 20", "raw", "a", 0.5, 2.25, True, None])
    if depth <= 0:
        return [leaf() for _ in range(rng.randint(0, 3))] if rng.random() < 0.6 else {rng.choice("abc"): leaf() for _ in range(rng.randint(0, 2))}
    if rng.random() < 0.5:
        n = rng.randint(0, 3) if depth < 2 else rng.randint(1, 3)
        return [gen_value(rng, depth - 1) if rng.random() < 0.6 else leaf() for _ in range(n)]
    ks = rng.sample(["cuts", "runs", "k", "opts", "x"], rng.randint(0, 3) if depth < 2 else rng.randint(1, 3))
    return {k: (gen_value(rng, depth - 1) if rng.random() < 0.7 else leaf()) for k in ks}


FIXED_VALUES = [{"cuts": ["pt > 20"], "runs": [1, 2, 3]}, [{"k": [1]}, "raw"], {"a": {"b": [1, 2]}, "c": []}, [[1, 2], [3]]]


# ------------------------------------------------------------------------------- values beyond JSON (stream opaque_meta)
NT1 = collections.namedtuple("NT1", ["f0"])
NT2 = collections.namedtuple("Cut", ["name", "values"])
NT3 = collections.namedtuple("Window", ["name", "lo", "hi"])
_NTS = {1: NT1, 2: NT2, 3: NT3}


@dataclasses.dataclass
class Cfg:
    """a small user class with mutable attributes"""
    name: str = "cfg"
    items: list = dataclasses.field(default_factory=list)
    opts: dict = dataclasses.field(default_factory=dict)


@dataclasses.dataclass(eq=False)
class Node:
    """hashable by identity (so it can sit in a frozenset), with a list attribute"""
    items: list = dataclasses.field(default_factory=list)


@dataclasses.dataclass(frozen=True)
class FrozenCfg:
    """immutable itself, holding a list"""
    name: str = "frozen"
    items: list = dataclasses.field(default_factory=list)


def decode(v):
    """the python value a JSON spec of the case file stands for (plain JSON values stand for themselves, fresh objects)"""
    if isinstance(v, list):
        return [decode(x) for x in v]
    if isinstance(v, dict):
        if "__t" not in v:
            return {k: decode(x) for k, x in v.items()}
        t, a = v["__t"], v.get("v")
        if t == "tuple":
            return tuple(decode(x) for x in a)
        if t == "nt":
            items = [decode(x) for x in a]
            return _NTS[len(items)](*items) if len(items) in _NTS else tuple(items)
        if t == "fset":
            return frozenset(decode(x) for x in a)
        if t == "set":
            return set(decode(x) for x in a)
        if t == "deque":
            return collections.deque(decode(x) for x in a)
        if t == "bytes":
            return bytearray(int(x) % 256 for x in a)
        if t == "array":
            return np.array(a, dtype=float)
        if t == "ns":
            return types.SimpleNamespace(**{k: decode(x) for k, x in a.items()})
        if t == "dc":
            return Cfg(**{k: decode(x) for k, x in a.items()})
        if t == "node":
            return Node(items=[decode(x) for x in a])
        if t == "fdc":
            return FrozenCfg(items=[decode(x) for x in a])
        raise KeyError(t)
    return v


def T(*a):
    return {"__t": "tuple", "v": list(a)}


def NT(*a):
    return {"__t": "nt", "v": list(a)}


def _scalar(rng):
    return rng.choice([1, 2, 10, 20, "pt", "eta", "raw", 0.5, 2.25, True, None])


def _inner_mutable(rng, jsonable=True):
    """a list / dict (leaves scalars, sometimes one more level) -- the object hidden inside the immutable wrapper"""
    r = rng.random()
    if r < 0.45:
        return [_scalar(rng) for _ in range(rng.randint(0, 3))]
    if r < 0.7:
        return {k: _scalar(rng) for k in rng.sample(["k", "lo", "hi"], rng.randint(0, 2))}
    if r < 0.85:
        return {"k": [_scalar(rng) for _ in range(rng.randint(1, 2))]}
    return [[_scalar(rng)], _scalar(rng)]


def gen_wrapped(rng, jsonable=False):
    """an IMMUTABLE top-level value (tuple / namedtuple / frozenset) holding mutable objects, nested up to two levels"""
    r = rng.random()
    if r < 0.22:
        return T(rng.choice(["pt", "eta"]), _inner_mutable(rng))                         # ('pt', [10, 20])
    if r < 0.40:
        return T(T(rng.choice("ab"), _inner_mutable(rng)))                                # (('a', {'k': [1]}),)
    if r < 0.52:
        return NT(rng.choice(["pt", "eta"]), _inner_mutable(rng))                         # Cut(name='pt', values=[...])
    if r < 0.62:
        return T(NT("w", _inner_mutable(rng), _inner_mutable(rng)), _scalar(rng))         # (Window('w', [...], {...}), 1)
    if r < 0.70:
        return T(_inner_mutable(rng), _inner_mutable(rng), T())                           # ([..], {..}, ())
    if jsonable:
        return T(_scalar(rng), T(_scalar(rng), T(_inner_mutable(rng))))
    if r < 0.82:
        # a frozenset: its elements must be hashable -- tuples of scalars and identity-hashed objects holding a list
        n = rng.randint(1, 2)
        return {"__t": "fset", "v": [{"__t": "node", "v": [_scalar(rng) for _ in range(1 + i)]} for i in range(n)]
                + ([T("a", 1)] if rng.random() < 0.5 else [])}
    if r < 0.90:
        return T("objs", {"__t": "fset", "v": [{"__t": "node", "v": [[1], 2]}]}, _inner_mutable(rng))
    # a tuple holding one of the other mutable kinds
    return T(rng.choice(["d", "x"]), gen_exotic(rng, depth=0))


def gen_exotic(rng, depth=1):
    """a mutable object that is neither list nor dict: user classes, SimpleNamespace, deque, bytearray, set, ndarray"""
    def inner():
        return _inner_mutable(rng) if depth > 0 and rng.random() < 0.7 else [_scalar(rng) for _ in range(rng.randint(0, 2))]
    k = rng.choice(["dc", "dc", "ns", "ns", "deque", "deque", "bytes", "set", "array", "array", "fdc", "node"])
    if k == "dc":
        return {"__t": "dc", "v": {"name": rng.choice(["c", "cfg"]), "items": inner(), "opts": {"k": inner()} if rng.random() < 0.5 else {}}}
    if k == "ns":
        return {"__t": "ns", "v": {"x": inner(), "y": _scalar(rng), **({"z": T("t", inner())} if rng.random() < 0.4 else {})}}
    if k == "deque":
        return {"__t": "deque", "v": [_scalar(rng), inner()] if rng.random() < 0.6 else [_scalar(rng) for _ in range(rng.randint(0, 3))]}
    if k == "bytes":
        return {"__t": "bytes", "v": [rng.randint(0, 255) for _ in range(rng.randint(0, 4))]}
    if k == "set":
        return {"__t": "set", "v": sorted(set(rng.choice([1, 2, 3, 20]) for _ in range(rng.randint(0, 3)))) + ([T("a", 1)] if rng.random() < 0.3 else [])}
    if k == "array":
        return {"__t": "array", "v": rng.choice([[1.0, 2.0, 3.0], [[1.0, 2.0], [3.0, 4.0]], [0.5]])}
    if k == "fdc":
        return {"__t": "fdc", "v": inner()}
    return {"__t": "node", "v": inner()}


def _has_kind(v, kinds):
    if isinstance(v, list):
        return any(_has_kind(x, kinds) for x in v)
    if isinstance(v, dict):
        if v.get("__t") in kinds:
            return True
        return any(_has_kind(x, kinds) for x in (v.values() if "__t" not in v else [v.get("v")]))
    return False


def _kinds(v, out=None):
    out = set() if out is None else out
    if isinstance(v, list):
        out.add("list")
        for x in v:
            _kinds(x, out)
    elif isinstance(v, dict):
        if "__t" in v:
            out.add(v["__t"])
            _kinds(v.get("v"), out) if v["__t"] not in ("bytes", "array") else None
        else:
            out.add("dict")
            for x in v.values():
                _kinds(x, out)
    return out


def gen_opaque_meta(rng, mode, jsonable, no_arrays):
    """the setup entries of an opaque_meta case"""
    meta = []
    keys = rng.sample(KEYS, rng.choice([1, 1, 2, 3]))
    for n, key in enumerate(keys):
        if jsonable:
            v = gen_wrapped(rng, jsonable=True) if (mode == "immutable_only" or rng.random() < 0.6) else [gen_wrapped(rng, jsonable=True)]
        elif mode == "immutable_only":
            v = gen_wrapped(rng) if (n == 0 or rng.random() < 0.8) else rng.choice(["plain", 3, 2.5, None, True])
            if _has_kind(v, ("array", "dc", "ns", "deque", "bytes", "set", "fdc")) and rng.random() < 0.5:
                v = gen_wrapped(rng, jsonable=True)          # (keep the plainest shapes -- tuples of lists -- frequent)
        else:
            r = rng.random()
            if r < 0.45:
                v = gen_exotic(rng)
            elif r < 0.6:
                v = gen_wrapped(rng)
            elif r < 0.75:
                v = [gen_exotic(rng, depth=0), _scalar(rng)] if rng.random() < 0.5 else {"o": gen_exotic(rng, depth=0)}
            elif r < 0.9:
                v = gen_value(rng)
            else:
                v = _scalar(rng)
        if no_arrays:
            while _has_kind(v, ("array",)):
                v = gen_wrapped(rng, jsonable=True)
        meta.append({"set": "entry", "key": key, "value": v})
    if not jsonable or rng.random() < 0.5:
        spare = [k for k in KEYS if k not in keys]
        if spare and rng.random() < (0.25 if mode == "immutable_only" else 0.45):
            # the same object under a second key
            meta.append({"set": "entry", "key": spare[0], "alias": keys[0]})
    return meta


def gen_points(rng):
    n = rng.choice([3, 6, 9])
    return [[rng.randint(1, 11) / 4 for _ in range(4)] for _ in range(n)]


def derivations(cls):
    """every derivation of the property's list that the class offers"""
    d = NDIM[cls]
    if cls == "collection":
        out = [{"d": "coll_copy"}, {"d": "json"}]
        if ENABLE_COLLECTION_SUM:
            out += [{"d": "coll_normalize_all"}, {"d": "coll_normalize_bins"}, {"d": "coll_sum"}]
        return out
    out = [{"d": "copy"}, {"d": "copy0"}, {"d": "mul"}, {"d": "rmul"}, {"d": "div"}, {"d": "add"}, {"d": "sub"},
           {"d": "normalize"}, {"d": "json"}]
    out += [{"d": "merge", "axis": a} for a in ([None] if d == 1 else range(d))]
    if d == 1:
        out += [{"d": "getitem", "index": [{"s": [0, 2]}]}, {"d": "getitem", "index": [{"s": [1, None]}]},
                {"d": "mask", "mask": [True, False, True]}, {"d": "index_array", "idx": [0, 2]},
                {"d": "select", "axis": 0, "index": {"s": [0, 2]}}]
        return out
    for r in range(1, d):
        for axes in itertools.combinations(range(d), r):
            out.append({"d": "projection", "axes": list(axes)})
    out.append({"d": "projection", "axes": list(range(d - 1, -1, -1))[:d - 1] if d > 2 else [1]})      # another order
    for a in range(d):
        out.append({"d": "select", "axis": a, "index": 1})
        out.append({"d": "select", "axis": a, "index": {"s": [0, 2]}})
        out.append({"d": "accumulate", "axis": a})
        # h[:, ..., i]: an integer at position a
        out.append({"d": "getitem", "index": [{"s": [None, None]}] * a + [1]})
        out.append({"d": "getitem", "index": [{"s": [None, None]}] * a + [{"s": [0, 2]}]})
    if d >= 3:
        out.append({"d": "getitem", "index": [1, 0]})
        out.append({"d": "getitem", "index": [{"s": [0, 2]}, 1]})
    if cls in ("h2", "h2ad"):
        out += [{"d": "T"}, {"d": "partial_normalize", "axis": 0}, {"d": "partial_normalize", "axis": 1}]
    return out


def deriv_label(dv):
    t = dv["d"]
    if t == "projection":
        return "projection" + "".join(str(a) for a in dv["axes"])
    if t == "select":
        return "select_int" if isinstance(dv["index"], int) else "select_slice"
    if t == "getitem":
        return "getitem_int" if any(isinstance(j, int) for j in dv["index"]) else "getitem_slice"
    return t


LIST_EDITS = ["append", "append", "setitem", "del", "insert", "extend", "pop", "clear", "inner"]
DICT_EDITS = ["setitem_new", "setitem_new", "setitem_old", "update", "update", "del", "pop", "setdefault", "clear", "inner"]


def gen_edit(rng, on, cls, member=None):
    r = rng.random()
    e = {"on": on}
    if member is not None:
        e["member"] = member
    if r < 0.68:
        e.update({"pick": rng.randrange(12), "list_edit": rng.choice(LIST_EDITS), "dict_edit": rng.choice(DICT_EDITS),
                  "arg": rng.choice(["edited", 7, [9], {"z": [0]}])})
    elif r < 0.84:
        which = rng.choice(["title", "name", "axis_names"])
        e.update({"attr": which, "value": rng.choice(["edited title", "n2", ""]) if which != "axis_names" else None})
    else:
        e.update({"top": rng.choice(["set", "set_nested", "del", "update"]), "key": rng.choice(KEYS + ["extra"]),
                  "value": rng.choice([[1, [2]], {"q": {"r": []}}, "plain", 3])})
    return e


COPY_BASED = ("copy", "copy0", "mul", "rmul", "div", "normalize", "merge", "T", "accumulate", "partial_normalize", "coll_copy")


def gen(rng, cls=None, deriv=None, flavour=None, mode=None):
    cls = cls or rng.choice(CLASSES + ("collection", "collection", "h2", "h3"))
    pts = gen_points(rng)
    dv = copy.deepcopy(deriv) if deriv is not None else rng.choice(derivations(cls))
    if flavour == "opaque" and deriv is None and dv["d"] not in COPY_BASED and rng.random() < 0.35:
        # (keep the derivations that duplicate the meta data of their source a little more frequent than the rest)
        pool = [d for d in derivations(cls) if d["d"] in COPY_BASED]
        dv = copy.deepcopy(rng.choice(pool)) if pool else dv
    meta = []
    if flavour == "opaque":
        mode = mode or rng.choice(["immutable_only", "mixed"])
        meta = gen_opaque_meta(rng, mode, jsonable=(dv["d"] == "json"), no_arrays=(dv["d"] in ("add", "sub", "coll_sum", "coll_normalize_bins")))
    else:
        for key in rng.sample(KEYS, rng.choice([1, 1, 2, 3])):
            meta.append({"set": "entry", "key": key, "value": rng.choice(FIXED_VALUES) if rng.random() < 0.35 else gen_value(rng)})
    if rng.random() < 0.5:
        meta.append({"set": "title", "value": rng.choice(["A title", "t"])})
    if rng.random() < 0.3:
        meta.append({"set": "name", "value": rng.choice(["src", "n"])})
    if cls in PLAIN and rng.random() < 0.3:
        meta.append({"set": "axis_names", "value": [f"ax{i}" for i in range(NDIM[cls])]})
    if flavour == "opaque":
        # (an alias entry stays behind the entry it points to)
        al = [m for m in meta if "alias" in m]
        meta = [m for m in meta if "alias" not in m]
        rng.shuffle(meta)
        meta += al
    else:
        rng.shuffle(meta)
    case = {"kind": "metanest", "sub": "metanest", "source": {"cls": cls, "points": pts}, "meta": meta, "deriv": dv}
    if dv["d"] in ("add", "sub"):
        case["source"]["other_meta"] = rng.choice(["same", "same", "differs", "none"])
    nmem = 2
    if cls == "collection":
        case["source"]["members"] = nmem = rng.choice([1, 2, 3])
    targets = ["src", "res"]
    rng.shuffle(targets)
    targets += [rng.choice(["src", "res", "res", "oth" if dv["d"] in ("add", "sub") else "src"]) for _ in range(rng.randint(0, 3))]
    case["edits"] = [gen_edit(rng, t, cls, member=(rng.choice([None, 0, 0, nmem - 1]) if cls == "collection" else None))
                     for t in targets]
    case["tags"] = ["stream:nested_meta", "meta_class:" + cls, "meta_deriv:" + deriv_label(dv)]
    if flavour == "opaque":
        case["flavour"] = "opaque"
        for e in case["edits"]:
            if "pick" not in e and rng.random() < 0.6:      # mostly edits INSIDE the values
                keep = {k: e[k] for k in ("on", "member") if k in e}
                e.clear()
                e.update(keep)
                e.update({"pick": rng.randrange(12), "list_edit": rng.choice(LIST_EDITS), "dict_edit": rng.choice(DICT_EDITS),
                          "arg": rng.choice(["edited", 7, [9], {"z": [0]}])})
        case["tags"] = opaque_tags(case, mode)
    return case


def opaque_tags(case, mode):
    dv, cls = case["deriv"], case["source"]["cls"]
    kinds = set()
    for m in case["meta"]:
        if "alias" in m:
            kinds.add("alias")
        elif m["set"] == "entry":
            _kinds(m["value"], kinds)
    return (["stream:opaque_meta", "meta_class:" + cls, "meta_deriv:" + deriv_label(dv), "meta_mode:" + mode]
            + ["meta_value:" + k for k in sorted(kinds)])


def exhaustive(tier):
    """every (class, derivation) pair once (quick) / three times with different entries and edits (thorough), each with an
    edit of every kind through the source and through the result"""
    from ..core import Rng
    reps = 3 if tier == "thorough" else 1
    out = []
    n = 0
    for cls in CLASSES:
        for dv in derivations(cls):
            for rep in range(reps):
                rng = Rng(f"c12-nested-meta:{cls}:{json.dumps(dv, sort_keys=True)}:{rep}")
                c = gen(rng, cls=cls, deriv=dv)
                # a fixed core in front: a dict of lists and a list of dicts, an edit inside each through source and result
                c["meta"] = [{"set": "entry", "key": "sel", "value": {"cuts": ["pt > 20"], "runs": [1, 2, 3]}},
                             {"set": "entry", "key": "tags", "value": [{"k": [1]}, "raw"]}] + \
                            [m for m in c["meta"] if m.get("key") not in ("sel", "tags")]
                member = 0 if cls == "collection" else None
                core = []
                for on in (("src", "res") if (n + rep) % 2 == 0 else ("res", "src")):
                    for pick, le, de in ((0, "append", "setitem_new"), (1, "setitem", "update"), (2, "del", "del"), (3, "append", "setitem_old")):
                        e = {"on": on, "pick": pick, "list_edit": le, "dict_edit": de, "arg": "edited"}
                        if member is not None:
                            e["member"] = member
                        core.append(e)
                c["edits"] = core + c["edits"][:2]
                c["tags"] = c["tags"] + ["nested_meta:enumerated"]
                out.append(c)
            # the same pair with values hidden inside immutable wrappers, and nothing else in the dictionary
            for rep in range(reps):
                rng = Rng(f"c12-opaque-meta:{cls}:{json.dumps(dv, sort_keys=True)}:{rep}")
                mode = "immutable_only" if rep % 2 == 0 else "mixed"
                c = gen(rng, cls=cls, deriv=dv, flavour="opaque", mode=mode)
                if mode == "immutable_only":
                    if dv["d"] == "json" or (n + rep) % 2 == 0:
                        core = [{"set": "entry", "key": "sel", "value": T("pt", [10, 20])},
                                {"set": "entry", "key": "tags", "value": T(T("a", {"k": [1]}))}]
                    else:
                        core = [{"set": "entry", "key": "sel", "value": NT("pt", [10, 20])},
                                {"set": "entry", "key": "tags", "value": {"__t": "fset", "v": [{"__t": "node", "v": [1, 2]}, T("a", 1)]}}]
                    c["meta"] = core + [m for m in c["meta"] if m.get("key") not in ("sel", "tags") and m.get("alias") not in ("sel", "tags")]
                member = 0 if cls == "collection" else None
                core = []
                for on in (("src", "res") if (n + rep) % 2 == 0 else ("res", "src")):
                    for pick, le, de in ((0, "append", "setitem_new"), (1, "setitem", "update"), (2, "del", "del"), (3, "append", "setitem_old")):
                        e = {"on": on, "pick": pick, "list_edit": le, "dict_edit": de, "arg": "edited"}
                        if member is not None:
                            e["member"] = member
                        core.append(e)
                c["edits"] = core + c["edits"][:2]
                c["tags"] = opaque_tags(c, mode) + ["opaque_meta:enumerated"]
                out.append(c)
            n += 1
    return out


# =================================================================================================== running
def _cols(pts):
    a = np.array(pts, dtype=float)
    return [a[:, i] for i in range(4)]


def build(cls, pts, members=2):
    import warnings
    warnings.simplefilter("ignore")
    from physt import h, h1, h2, h3, special_histograms as sp
    x, y, z, u = _cols(pts)
    e = [0.0, 1.0, 2.0, 3.0]
    if cls == "h1":
        return h1(x, e)
    if cls == "h1ad":
        return h1(x, "fixed_width", bin_width=1.0, adaptive=True)
    if cls == "h2":
        return h2(x, y, [e, e])
    if cls == "h2ad":
        return h2(x, y, "fixed_width", bin_width=1.0, adaptive=True)
    if cls == "h3":
        return h3(np.stack([x, y, z], axis=1), [e, e, e])
    if cls == "h4":
        return h(np.stack([x, y, z, u], axis=1), [e, e, e, e])
    if cls in ("polar", "radial", "azimuthal"):
        p = sp.polar(x, y, radial_bins=[0.0, 1.0, 2.0, 3.0, 4.0, 5.0], phi_bins=4)
        return p if cls == "polar" else p.projection("r" if cls == "radial" else "phi")
    if cls in ("cylindrical", "cylsurf"):
        c = sp.cylindrical(np.stack([x, y, z], axis=1), rho_bins=[0.0, 1.0, 2.0, 3.0, 4.0, 5.0], phi_bins=4, z_bins=e)
        return c if cls == "cylindrical" else c.projection("phi", "z")
    if cls in ("spherical", "sphsurf"):
        s = sp.spherical(np.stack([x, y, z], axis=1), radial_bins=[0.0, 1.0, 2.0, 3.0, 4.0, 5.0, 6.0], theta_bins=4, phi_bins=4)
        return s if cls == "spherical" else s.projection("theta", "phi")
    if cls == "collection":
        from physt.binnings import static_binning
        from physt.histogram_collection import HistogramCollection
        coll = HistogramCollection(binning=static_binning(bins=e), name="coll", title="a collection")
        cols = [x, y, z, u]
        for m in range(members):
            coll.create(f"m{m}", cols[m])
        return coll
    raise KeyError(cls)


def is_collection(o):
    return hasattr(o, "histograms") and not hasattr(o, "frequencies")


def is_histogram(o):
    return hasattr(o, "frequencies") and hasattr(o, "meta_data") and hasattr(o, "bins")


def _nums(a):
    return [repr(v) for v in np.asarray(a).ravel().tolist()]


def canon(v):
    """a deep, detached, comparable and JSON-able picture of a meta-data value"""
    return _canon(v, ())


def _canon(v, stack):
    if id(v) in stack:
        return "<cycle>"
    if isinstance(v, dict):
        st = stack + (id(v),)
        return {"dict": [[repr(k), _canon(v[k], st)] for k in sorted(v, key=repr)]}
    if isinstance(v, list):
        st = stack + (id(v),)
        return {"list": [_canon(x, st) for x in v]}
    if isinstance(v, tuple):
        st = stack + (id(v),)
        if hasattr(type(v), "_fields"):                     # a namedtuple: the class and the field names belong to the value
            return {"tuple": [_canon(x, st) for x in v], "namedtuple": type(v).__name__, "fields": list(type(v)._fields)}
        return {"tuple": [_canon(x, st) for x in v]}
    if isinstance(v, (set, frozenset)):
        st = stack + (id(v),)
        items = [_canon(x, st) for x in v]
        # order-stable: by the JSON text of the deep picture (no hashes, no addresses)
        return {("frozenset" if isinstance(v, frozenset) else "set"): sorted(items, key=lambda c: json.dumps(c, sort_keys=True, default=str))}
    if isinstance(v, collections.deque):
        st = stack + (id(v),)
        return {"deque": [_canon(x, st) for x in v], "maxlen": repr(v.maxlen)}
    if isinstance(v, (bytearray, bytes)):
        return {type(v).__name__: list(v)}
    if isinstance(v, np.ndarray):
        if v.dtype == object:
            return {"array": [_canon(x, stack + (id(v),)) for x in v.ravel().tolist()], "dtype": "object", "shape": list(v.shape)}
        return {"array": _nums(v), "dtype": str(v.dtype), "shape": list(v.shape)}
    attrs = attrs_of(v)
    if attrs is not None:
        st = stack + (id(v),)
        return {"object": type(v).__name__, "attrs": [[repr(k), _canon(attrs[k], st)] for k in sorted(attrs, key=repr)]}
    r = repr(v)
    return r if " at 0x" not in r else f"<{type(v).__name__}>"


def snap(o):
    if is_collection(o):
        return {"class": type(o).__name__, "name": repr(o.name), "title": repr(o.title), "size": len(o.histograms)}
    bins = [o.bins] if o.ndim == 1 else list(o.bins)
    return {
        "class": type(o).__name__,
        "bins": [_nums(b) for b in bins],
        "shape": [int(s) for s in o.frequencies.shape],
        "freq": _nums(o.frequencies), "err2": _nums(o.errors2), "missed": _nums(o.missed),
        "dtype": str(o.dtype), "keep": bool(o.keep_missed), "adaptive": bool(o.is_adaptive()),
        "name": repr(o.name), "title": repr(o.title), "axis_names": [repr(n) for n in o.axis_names],
        "meta": canon(o.meta_data),
        "_shape_ok": o.frequencies.shape == o.errors2.shape == tuple(np.asarray(b).reshape(-1, 2).shape[0] for b in bins),
    }


def live_objects(objs):
    """name -> object, a collection followed by its members (`src.0`, ...)"""
    out = {}
    for name, o in objs.items():
        if o is None:
            continue
        out[name] = o
        if is_collection(o):
            for i, m in enumerate(o.histograms):
                out[f"{name}.{i}"] = m
    return out


def observe(objs):
    live = live_objects(objs)
    snaps = {n: snap(o) for n, o in live.items()}
    hs = [(n, o) for n, o in live.items() if is_histogram(o)]
    shared = []
    for a, (n1, x) in enumerate(hs):
        for n2, y in hs[a + 1:]:
            if x is y:
                shared.append([n1, n2, "the same object", [], []])
                continue
            if x.meta_data is y.meta_data:
                shared.append([n1, n2, "meta_data", [], []])
                continue
            for p, q in nested_meta_shared(x, y)[:3]:
                shared.append([n1, n2, path_text(p) if p == q else f"{path_text(p)}/{path_text(q)}", p, q])
    return snaps, shared


def sub_index(j):
    return slice(j["s"][0], j["s"][1]) if isinstance(j, dict) else int(j)


def derive(dv, src, oth):
    t = dv["d"]
    if t == "copy":
        return src.copy()
    if t == "copy0":
        return src.copy(include_frequencies=False)
    if t == "mul":
        return src * 2
    if t == "rmul":
        return 2 * src
    if t == "div":
        return src / 2
    if t == "add":
        return src + oth
    if t == "sub":
        return src - oth
    if t == "normalize":
        return src.normalize()
    if t == "merge":
        return src.merge_bins(2) if dv.get("axis") is None else src.merge_bins(2, axis=dv["axis"])
    if t == "json":
        from physt.io import parse_json
        return parse_json(src.to_json())
    if t == "getitem":
        idx = tuple(sub_index(j) for j in dv["index"])
        return src[idx[0]] if len(idx) == 1 else src[idx]
    if t == "mask":
        m = np.zeros(src.shape[0], dtype=bool)
        for i, b in enumerate(dv["mask"][:src.shape[0]]):
            m[i] = b
        return src[m]
    if t == "index_array":
        return src[[i for i in dv["idx"] if i < src.shape[0]]]
    if t == "select":
        return src.select(dv["axis"], sub_index(dv["index"]))
    if t == "projection":
        return src.projection(*dv["axes"])
    if t == "accumulate":
        return src.accumulate(dv["axis"])
    if t == "T":
        return src.T
    if t == "partial_normalize":
        return src.partial_normalize(dv["axis"])
    if t == "coll_copy":
        return src.copy()
    if t == "coll_normalize_all":
        return src.normalize_all()
    if t == "coll_normalize_bins":
        return src.normalize_bins()
    if t == "coll_sum":
        return src.sum()
    raise KeyError(t)


def apply_setup(o, m):
    """meta data given to the source before the derivation (for a collection: to every member, and name / title to the
    collection as well)"""
    targets = list(o.histograms) + [o] if is_collection(o) else [o]
    for t in targets:
        if m["set"] == "entry":
            if not is_collection(t):
                if "alias" in m:                # the SAME object under a second key (a fresh list when the first is absent)
                    t.meta_data[m["key"]] = t.meta_data[m["alias"]] if m["alias"] in t.meta_data else ["alias"]
                else:
                    t.meta_data[m["key"]] = decode(copy.deepcopy(m["value"]))
        elif m["set"] == "title":
            t.title = m["value"]
        elif m["set"] == "name":
            if not is_collection(o) or is_collection(t):      # the members keep their names (the collection addresses them by name)
                t.name = m["value"]
        elif m["set"] == "axis_names":
            if not is_collection(t):
                t.axis_names = tuple(m["value"])


def resolve_target(e, objs):
    o = objs.get(e["on"])
    if o is None:
        return None, e["on"]
    if is_collection(o):
        if e.get("member") is not None and o.histograms:
            i = e["member"] % len(o.histograms)
            return o.histograms[i], f"{e['on']}.{i}"
        return o, e["on"]
    return o, e["on"]


def follow(md, path):
    return follow_path(md, path)


def edit_container(c, e, resolved):
    """one in-place edit of the container `c` (a list or a dict inside the meta data)"""
    arg = copy.deepcopy(e.get("arg", "edited"))
    if isinstance(c, list):
        kind = e.get("list_edit", "append")
        if kind == "inner":          # one level further down, when there is a container there
            inner = [x for x in c if _is_mutable_container(x)]
            if inner:
                resolved["descend"] = True
                return edit_container(inner[0], dict(e, list_edit="append", dict_edit="setitem_new"), resolved)
            kind = "append"
        if kind in ("setitem", "del", "pop") and not c:
            kind = "append"
        resolved["action"] = "list." + kind
        if kind == "append":
            c.append(arg)
        elif kind == "setitem":
            c[len(c) // 2] = arg
        elif kind == "del":
            del c[0]
        elif kind == "insert":
            c.insert(0, arg)
        elif kind == "extend":
            c.extend([arg, "more"])
        elif kind == "pop":
            c.pop()
        elif kind == "clear":
            if c:
                c.clear()
            else:
                c.append(arg)
        return
    if isinstance(c, dict):
        kind = e.get("dict_edit", "setitem_new")
        if kind == "inner":
            inner = [c[k] for k in sorted(c, key=repr) if _is_mutable_container(c[k])]
            if inner:
                resolved["descend"] = True
                return edit_container(inner[0], dict(e, list_edit="append", dict_edit="setitem_new"), resolved)
            kind = "setitem_new"
        if kind in ("setitem_old", "del", "pop") and not c:
            kind = "setitem_new"
        resolved["action"] = "dict." + kind
        first = sorted(c, key=repr)[0] if c else None
        if kind == "setitem_new":
            c["edited"] = arg
        elif kind == "setitem_old":
            c[first] = arg
        elif kind == "update":
            c.update({"edited": arg, "u": [1]})
        elif kind == "del":
            del c[first]
        elif kind == "pop":
            c.pop(first)
        elif kind == "setdefault":
            c.setdefault("sd", [])
            if isinstance(c["sd"], list):
                c["sd"].append(arg)
        elif kind == "clear":
            if c:
                c.clear()
            else:
                c["edited"] = arg
        return
    if isinstance(c, collections.deque):
        kind = e.get("list_edit", "append")
        if kind == "inner":
            inner = [x for x in c if _is_mutable_container(x)]
            if inner:
                resolved["descend"] = True
                return edit_container(inner[0], dict(e, list_edit="append", dict_edit="setitem_new"), resolved)
            kind = "append"
        if kind in ("setitem", "del", "pop", "clear") and not c:
            kind = "append"
        resolved["action"] = "deque." + {"insert": "appendleft"}.get(kind, kind)
        if kind == "append":
            c.append(arg)
        elif kind == "setitem":
            c[len(c) // 2] = arg
        elif kind == "del":
            del c[0]
        elif kind == "insert":
            c.appendleft(arg)
        elif kind == "extend":
            c.extend([arg, "more"])
        elif kind == "pop":
            c.pop()
        else:
            c.clear()
        return
    if isinstance(c, bytearray):
        kind = e.get("list_edit", "append")
        if kind in ("setitem", "del", "pop", "clear", "inner") and not c:
            kind = "append"
        resolved["action"] = "bytearray." + kind
        if kind == "setitem" or kind == "inner":
            c[0] = (c[0] + 1) % 256
        elif kind == "del":
            del c[0]
        elif kind == "insert":
            c.insert(0, 7)
        elif kind == "extend":
            c.extend(b"ab")
        elif kind == "pop":
            c.pop()
        elif kind == "clear":
            c.clear()
        else:
            c.append(7)
        return
    if isinstance(c, set):
        kind = e.get("list_edit", "append")
        if kind in ("del", "pop", "clear") and not c:
            kind = "append"
        if kind in ("del", "pop"):
            resolved["action"] = "set.remove"
            c.remove(stable_elems(c)[0])
        elif kind == "clear":
            resolved["action"] = "set.clear"
            c.clear()
        elif kind == "extend":
            resolved["action"] = "set.update"
            c.update({"edited", ("more", len(c))})
        else:
            resolved["action"] = "set.add"
            c.add(("edited", len(c)))
        return
    if isinstance(c, np.ndarray):
        if not c.size or not c.flags.writeable:
            resolved["action"] = "none"
            return
        kind = e.get("list_edit", "append")
        if kind in ("setitem", "clear", "del"):
            resolved["action"] = "array[...] = array + 1"
            c[...] = c + 1
        else:
            resolved["action"] = "array.flat[0] += 1"
            c.flat[0] = c.flat[0] + 1
        return
    attrs = attrs_of(c)
    if attrs is not None:
        # an instance of a small user class / a SimpleNamespace: attribute assignment is its in-place edit
        kind = e.get("dict_edit", "setitem_new")
        if kind == "inner":
            inner = [attrs[k] for k in sorted(attrs, key=repr) if _is_mutable_container(attrs[k])]
            if inner:
                resolved["descend"] = True
                return edit_container(inner[0], dict(e, list_edit="append", dict_edit="setitem_new"), resolved)
            kind = "setitem_new"
        first = sorted(attrs, key=repr)[0] if attrs else None
        if kind in ("del", "pop", "clear") and not isinstance(c, types.SimpleNamespace):
            kind = "setitem_old"          # (a dataclass instance without one of its fields cannot even print itself)
        if first is None and kind != "setitem_new":
            kind = "setitem_new"
        if kind in ("setitem_new", "setdefault", "update"):
            resolved["action"] = "object.setattr_new"
            setattr(c, "edited", arg)
        elif kind == "setitem_old":
            resolved["action"] = "object.setattr_old"
            setattr(c, first, [arg])
        elif kind in ("del", "pop"):
            resolved["action"] = "object.delattr"
            delattr(c, first)
        else:
            resolved["action"] = "object.__dict__.clear"
            attrs.clear()
        return
    resolved["action"] = "none"


def apply_edit(e, objs):
    """returns (the object name written, the step as resolved)"""
    o, name = resolve_target(e, objs)
    resolved = {"edit_on": name}
    if o is None:
        resolved["action"] = "absent"
        return None, resolved
    if "attr" in e:
        which = e["attr"]
        if is_collection(o) and which == "axis_names":
            which = "title"
        if which == "axis_names":
            value = tuple(f"edited{i}" for i in range(o.ndim))
        else:
            value = e.get("value")
        resolved["action"] = f"{which} = {value!r}"
        setattr(o, which, value)
        return name, resolved
    if is_collection(o):
        resolved["action"] = "title = 'edited'"
        o.title = "edited"
        return name, resolved
    md = o.meta_data
    if "path" in e:                         # a probe: the container found shared, addressed by its path
        try:
            c = follow(md, e["path"])
        except Exception:
            resolved["action"] = "absent"
            return name, resolved
        resolved["path"] = path_text(e["path"])
        edit_container(c, e, resolved)
        return name, resolved
    if "top" in e:
        kind, key = e["top"], e["key"]
        if kind == "del" and key not in md:
            kind = "set"
        resolved["action"] = f"meta_data top-level {kind} {key!r}"
        if kind == "set":
            md[key] = copy.deepcopy(e["value"])
        elif kind == "set_nested":
            md[key] = {"outer": [copy.deepcopy(e["value"])]}
        elif kind == "del":
            del md[key]
        else:
            md.update({key: copy.deepcopy(e["value"]), "extra2": []})
        return name, resolved
    cs = meta_containers(o)
    if not cs:
        # this object carries no mutable entry (the derivation dropped them): a new nested entry is a meta-data edit too
        resolved["action"] = "no container carried: meta_data['added'] = [[1]]"
        md["added"] = [[1]]
        return name, resolved
    path, c = cs[e["pick"] % len(cs)]
    resolved["path"] = path_text(path)
    edit_container(c, e, resolved)
    return name, resolved


def run_impl(case):
    src_spec = case["source"]
    cls = src_spec["cls"]
    outs, log = [], []
    objs = {"src": None, "oth": None, "res": None}

    def record(step, ret, writes):
        snaps, shared = observe(objs)
        outs.append({"step": step, "ret": ret, "writes": writes, "objs": snaps, "_sharing": [s[:3] for s in shared]})
        return shared

    objs["src"] = build(cls, src_spec["points"], src_spec.get("members", 2))
    dv = case["deriv"]
    if dv["d"] in ("add", "sub"):
        objs["oth"] = build(cls, src_spec["points"][::-1], src_spec.get("members", 2))
    record({"build": cls}, "ok", ["src", "oth"])
    for m in case["meta"]:
        apply_setup(objs["src"], m)
        how = src_spec.get("other_meta", "none")
        if objs["oth"] is not None and how != "none":
            m2 = copy.deepcopy(m)
            if how == "differs" and m["set"] == "entry" and m["key"] in KEYS[::2] and "value" in m:
                m2["value"] = [m2["value"], "other"] if case.get("flavour") != "opaque" else {"__t": "tuple", "v": [m2["value"], "other"]}
            apply_setup(objs["oth"], m2)
    record({"setup": len(case["meta"])}, "ok", ["src", "oth"] + [f"src.{i}" for i in range(8)])
    try:
        r = derive(dv, objs["src"], objs["oth"])
        if is_histogram(r) or is_collection(r):
            objs["res"] = r
            ret = "ok"
        else:
            ret = "not_a_histogram"
    except Exception as ex:
        log.append(f"{dv['d']}: {type(ex).__name__}: {ex}"[:200])
        ret = REFUSED
    shared = record({"derive": dv}, ret, ["res"] + [f"res.{i}" for i in range(8)])
    for e in case["edits"]:
        try:
            name, resolved = apply_edit(e, objs)
            ret = "ok"
        except Exception as ex:
            log.append(f"edit {e}: {type(ex).__name__}: {ex}"[:200])
            name, resolved, ret = resolve_target(e, objs)[1], {"edit": e}, REFUSED
        shared = record({"edit": e, "resolved": resolved}, ret, [name] if name else [])
    if ENABLE_PROBE_EDITS and not case.get("no_probe"):
        # the containers found shared by identity: edit each through the first of the two objects
        live = None
        for n1, n2, what, p, q in shared[:3]:
            if not p:
                continue
            live = live_objects(objs)
            e = {"probe": True, "path": p, "list_edit": "append", "dict_edit": "setitem_new", "arg": "probe"}
            resolved = {"edit_on": n1, "probe_of": [n1, n2, what]}
            try:
                c = follow(live[n1].meta_data, p)
                resolved["path"] = path_text(p)
                edit_container(c, e, resolved)
                ret = "ok"
            except Exception as ex:
                log.append(f"probe {what}: {type(ex).__name__}: {ex}"[:200])
                ret = REFUSED
            record({"edit": e, "resolved": resolved}, ret, [n1])
    return {"outs": outs, "log": log}


# =================================================================================================== oracle
def _changed(x, y):
    return [f for f in sorted(set(x) | set(y)) if not f.startswith("_") and x.get(f) != y.get(f)]


def oracle(case, io):
    outs = io["outs"]
    fails = []
    for k in range(1, len(outs)):
        before, after = outs[k - 1]["objs"], outs[k]["objs"]
        step, writes = outs[k]["step"], set(outs[k]["writes"] or [])
        if "setup" in step:
            continue
        what = ("derivation " + json.dumps(step["derive"], sort_keys=True)) if "derive" in step else \
            ("meta-data edit " + json.dumps(step.get("resolved"), sort_keys=True, default=str))
        for name in sorted(before):
            if name in writes or name not in after:
                continue
            ch = _changed(before[name], after[name])
            if not ch:
                continue
            if "derive" in step:
                fails.append(f"operand_modified: the {what} (not in-place) changed its operand {name}: fields {ch}: "
                             + _show(before[name], after[name], ch))
            else:
                fails.append(f"not_independent: step {k}, the {what}, changed {name}: fields {ch}: "
                             + _show(before[name], after[name], ch))
        for name, s in after.items():
            if s.get("_shape_ok") is False:
                fails.append(f"illformed: {name} has inconsistent shapes after step {k}")
        if "derive" in step and outs[k]["ret"] == "ok" and step["derive"]["d"] in ("copy", "coll_copy"):
            pairs = [("src", "res")] + [(f"src.{i}", f"res.{i}") for i in range(8)]
            for a, b in pairs:
                if a in after and b in after:
                    ch = [f for f in ("class", "dtype", "meta", "name", "title", "axis_names", "bins", "freq", "err2", "missed", "size")
                          if after[a].get(f) != after[b].get(f)]
                    if ch:
                        fails.append(f"copy_differs: copy() of {a} differs from the original in {ch}: " + _show(after[a], after[b], ch))
                elif a in after and "." in a:
                    fails.append(f"copy_differs: the copy of the collection has no member for {a}")
        if len(fails) > 5:
            break
    return fails[:6]


def pretty(c):
    """a canon() picture as the python literal it stands for"""
    if isinstance(c, dict):
        if "dict" in c:
            return "{" + ", ".join(f"{k}: {pretty(v)}" for k, v in c["dict"]) + "}"
        if "list" in c:
            return "[" + ", ".join(pretty(v) for v in c["list"]) + "]"
        if "tuple" in c:
            return c.get("namedtuple", "") + "(" + ", ".join(pretty(v) for v in c["tuple"]) + ("," if len(c["tuple"]) == 1 else "") + ")"
        if "set" in c:
            return "{" + ", ".join(pretty(v) for v in c["set"]) + "}"
        if "frozenset" in c:
            return "frozenset({" + ", ".join(pretty(v) for v in c["frozenset"]) + "})"
        if "deque" in c:
            return "deque([" + ", ".join(pretty(v) for v in c["deque"]) + "])"
        if "object" in c:
            return c["object"] + "(" + ", ".join(f"{k.strip(chr(39))}={pretty(v)}" for k, v in c["attrs"]) + ")"
        if "bytearray" in c:
            return "bytearray(" + repr(bytes(c["bytearray"])) + ")"
        if "array" in c:
            return "array(" + ", ".join(str(x) for x in c["array"]) + ")"
        return json.dumps(c, default=str)
    if isinstance(c, list):
        return "[" + ", ".join(pretty(v) for v in c) + "]"
    return str(c)


def _show(x, y, fields):
    f = "meta" if "meta" in fields else fields[0]
    return f"{f}: {pretty(x.get(f))[:300]} -> {pretty(y.get(f))[:300]}"


def nontrivial(case, io):
    """the derivation gave an object and an edit really changed its target"""
    outs = io["outs"]
    if not any("derive" in o["step"] and o["ret"] == "ok" for o in outs):
        return False
    for k in range(1, len(outs)):
        if "edit" in outs[k]["step"]:
            for name in outs[k]["writes"] or []:
                if name in outs[k - 1]["objs"] and outs[k - 1]["objs"][name] != outs[k]["objs"].get(name):
                    return True
    return False


def tags(case, io):
    t = list(case.get("tags", []))
    for o in io["outs"]:
        st = o["step"]
        if "derive" in st:
            t.append("meta_derive_ret:" + str(o["ret"]))
            res = o["objs"].get("res")
            if res is not None and "meta" in res:
                carried = any(k in json.dumps(res["meta"]) for k in ("'sel'", "'tags'", "'cfg'", "'runs'", "'notes'"))
                t.append("meta_result_carries_entries:" + ("yes" if carried else "no"))
        elif "edit" in st:
            r = st.get("resolved", {})
            act = str(r.get("action", "?"))
            t.append("meta_edit:" + (act.split(" ")[0] if not act.startswith(("no container", "meta_data top")) else
                                     ("fallback_new_entry" if act.startswith("no container") else "top_level")))
            t.append("meta_edit_on:" + str(r.get("edit_on", "?")).split(".")[0])
            if st["edit"].get("probe"):
                t.append("meta_probe_of_shared_container")
        if o.get("_sharing"):
            t.append("meta_identity_sharing_seen")
    return t


def shrink_candidates(case):
    """drop edits (last first), drop the setup entries, fewer points, simpler values: every candidate is a well-formed
    case (edits address their container at run time).  First of all the probe steps the run added by itself are written
    into the case as explicit edits (by path), so that the minimised replay names the failing edit itself."""
    if not case.get("no_probe") and ENABLE_PROBE_EDITS:
        try:
            probes = [o["step"] for o in run_impl(case)["outs"] if "edit" in o["step"] and o["step"]["edit"].get("probe")]
        except Exception:
            probes = []
        c = copy.deepcopy(case)
        c["no_probe"] = True
        for st in probes:
            name = st["resolved"]["edit_on"]
            e = {"on": name.split(".")[0], "path": st["edit"]["path"], "list_edit": "append", "dict_edit": "setitem_new", "arg": "probe"}
            if "." in name:
                e["member"] = int(name.split(".")[1])
            c["edits"].append(e)
        yield c
    for k in range(len(case["edits"]) - 1, -1, -1):
        c = copy.deepcopy(case)
        del c["edits"][k]
        yield c
    for k in range(len(case["meta"]) - 1, -1, -1):
        c = copy.deepcopy(case)
        del c["meta"][k]
        yield c
    pts = case["source"]["points"]
    if len(pts) > 1:
        c = copy.deepcopy(case)
        c["source"]["points"] = pts[:max(1, len(pts) // 2)]
        yield c
    for k, m in enumerate(case["meta"]):
        if m["set"] == "entry" and "value" in m and m["value"] not in ([[1]], {"a": [1]}, T("pt", [10, 20])):
            typed = _has_kind(m["value"], ("tuple", "nt", "fset", "set", "deque", "bytes", "array", "ns", "dc", "node", "fdc"))
            for simple in (([T("pt", [10, 20])] if typed else []) + [[[1]], {"a": [1]}]):
                c = copy.deepcopy(case)
                c["meta"][k]["value"] = simple
                yield c
    if case["source"].get("members", 1) > 1:
        c = copy.deepcopy(case)
        c["source"]["members"] = 1
        yield c
    if case["source"].get("other_meta") not in (None, "same"):
        c = copy.deepcopy(case)
        c["source"]["other_meta"] = "same"
        yield c

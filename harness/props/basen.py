"""Base for properties checked on the ND op language."""
from __future__ import annotations

from fractions import Fraction

from .. import implnd
from ..runner import diff_outputs
from .base1 import Hist1Prop


class HistNProp(Hist1Prop):
    def run_impl(self, case):
        outs, log = implnd.run(case)
        return {"outs": outs, "log": log}

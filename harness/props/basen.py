"""Base for properties checked on the ND op language."""
from __future__ import annotations

from fractions import Fraction

from .. import implnd
from ..runner import diff_outputs
from .base1 import Hist1Prop


class HistNProp(Hist1Prop):
    def run_impl(self, case):
        outs, log = implnd.run(case)
        if self.UNOBSERVED and len(case["ops"]) >= 2 and all(isinstance(o, dict) for o in outs):
            return {"outs": outs, "log": log, "unobserved_outs": outs[:-1] + [implnd.run_unobserved(case)]}
        return {"outs": outs, "log": log}

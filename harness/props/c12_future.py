"""C12, stream `same_future` (oracle only): a copy must BEHAVE like its source afterwards.

Sources are histograms in unusual but legitimate states whose binning carries state that no snapshot taken right after the
derivation shows: adaptive fixed-width binnings created WITHOUT data (`h1(None, 'fixed_width', bin_width=w, adaptive=True)`)
with align=False / align=True / a bin_shift, N-d histograms and HistogramCollections over such binnings, histograms whose
flags were toggled after construction (set_adaptive on / off, keep_missed), and empty selections.  One derivation (copy(),
copy(include_frequencies=False), h * 1, h / 1, 0 + h, h + empty copy, JSON round trip, collection copy) is taken while the source
is STILL EMPTY or after a first fill; then the same sequence of fills (values that are not multiples of the width, on both sides)
goes to the source, to the derived object and to a twin built by the same constructor call.  Afterwards all three must report the
same bins / contents / errors2 / missed / statistics and `source == derived` must hold; copy(include_frequencies=False) must
report the source's bins and exactly the contents added since the copy was taken.

The model's binnings have no `align` flag of an empty grid, so these cases are not sent to the model (model_case -> None).
"""
from __future__ import annotations

import copy
from fractions import Fraction

# Finding on the UNCHANGED library (kept out of the generator, see the report): `parse_json(h.to_json())` of a still empty adaptive
# histogram created with align=False comes back as an ALIGNED one (io / binning JSON does not store `align`), so source and parsed
# object grow different bins under the same fills.
ENABLE_JSON_UNALIGNED = False
# Second finding on the UNCHANGED library: `parse_json(h.to_json())` of an N-d histogram that has no bins yet raises
# "ValueError: Values must have same dimension as bins." (1-D is fine), so the JSON derivation is not taken from empty N-d sources.
ENABLE_JSON_EMPTY_ND = False

WIDTHS = [1.0, 0.5, 2.0, 0.25, 0.1, 0.3, 0.7, 1.5]
SAME = ("copy", "mul1", "div1", "radd0", "add_empty", "json", "coll_copy")
FUT1 = ("bins", "freq", "err2", "under", "over", "inner", "keep", "adaptive", "stats")
FUTN = ("bins", "shape", "freq", "err2", "missed", "keep", "adaptive", "names")
REFUSED = "REFUSED"


# ------------------------------------------------------------------------------------------------ generator
def _val(rng, w, span=64):
    """a dyadic value (multiple of 1/8) on either side that is not a multiple of the width"""
    for _ in range(20):
        v = rng.randint(-span, span) / 8 + 0.125 * rng.choice([0, 1, 1])
        q = v / w
        if abs(q - round(q)) > 1e-6:
            return v
    return 0.375


def gen(rng):
    t = rng.choice(["h1", "h1", "h1", "h1", "coll", "coll", "nd", "nd", "toggle_on", "toggle_keep", "toggle_off", "empty_sel"])
    w = rng.choice(WIDTHS)
    how = rng.choice(["align_false", "align_false", "align_true", "shift", "align_false_shift", "default"])
    spec = {"t": t, "w": w, "how": how}
    if how in ("shift", "align_false_shift"):
        spec["shift"] = rng.choice([0.25, 0.125, -0.375, 0.0625])
    d = 1
    span = 64
    if t == "nd":
        # (few bins per axis: the snapshots hold every cell)
        d = spec["d"] = rng.choice([2, 2, 3])
        w = spec["w"] = rng.choice([1.0, 0.5, 2.0, 0.3, 0.7, 1.5])
        span = 16 if d == 2 else 10
    if t == "coll":
        spec["members"] = rng.choice([1, 2, 3])
    # the derivation is taken while the source is still empty (the state no snapshot shows), or after a first fill
    npre = rng.choice([0, 0, 0, 1, 2])
    if t in ("toggle_off", "empty_sel"):
        npre = rng.choice([1, 2, 3])
    pt = (lambda: _val(rng, w, span)) if d == 1 else (lambda: [_val(rng, w, span) for _ in range(d)])
    pre = [pt() for _ in range(npre)]
    derivs = ["copy", "copy", "copy0", "mul1", "div1", "radd0", "add_empty", "json"]
    if t == "coll":
        derivs = ["coll_copy"]
    deriv = rng.choice(derivs)
    if deriv == "json" and not ENABLE_JSON_UNALIGNED and how.startswith("align_false"):
        deriv = "copy"
    if deriv == "json" and not ENABLE_JSON_EMPTY_ND and t == "nd" and not pre:
        deriv = "mul1"
    fills = []
    for _ in range(rng.randint(1, 4)):
        if rng.random() < 0.5:
            fills.append({"n": [pt() for _ in range(rng.choice([1, 2, 3]))]})
        else:
            fills.append({"v": pt(), "w": rng.choice([1, 1, 2, 0.5])})
    order = rng.choice(["interleaved", "interleaved", "src_first", "der_first"])
    dy = "dyadic" if w in (1.0, 0.5, 2.0, 0.25, 1.5) else "nondyadic"
    return {"kind": "future", "sub": "samefut", "src": spec, "pre": pre, "deriv": deriv, "fills": fills, "order": order,
            "tags": ["stream:same_future", "future_src:" + t, "future_how:" + how, "future_deriv:" + deriv,
                     "future_taken:" + ("while_empty" if not pre else "after_first_fill"), "future_width:" + dy,
                     "future_order:" + order]}


# ------------------------------------------------------------------------------------------------ implementation side
def _kw(spec):
    kw = {}
    how = spec["how"]
    if how.startswith("align_false"):
        kw["align"] = False
    elif how == "align_true":
        kw["align"] = True
    if "shift" in spec:
        kw["bin_shift"] = spec["shift"]
    return kw


def build(spec, pre):
    import numpy as np
    import physt
    from physt.binnings import FixedWidthBinning
    from physt.histogram1d import Histogram1D
    from physt.histogram_collection import HistogramCollection
    t, w, kw = spec["t"], spec["w"], _kw(spec)
    if t == "coll":
        c = HistogramCollection(binning=FixedWidthBinning(bin_width=w, adaptive=True, **kw), name="c")
        for k in range(spec["members"]):
            if k % 2 == 0:
                c.create(f"m{k}", list(pre))
            else:
                m = Histogram1D(binning=c.binning.copy(), name=f"m{k}")
                c.add(m)
        return c
    if t == "nd":
        h = physt.h(None, "fixed_width", bin_width=w, adaptive=True, dim=spec["d"], **kw)
        if pre:
            h.fill_n(np.asarray(pre, dtype=float))
        return h
    if t == "toggle_on":
        h = physt.h1(None, "fixed_width", bin_width=w, **kw)
        h.set_adaptive(True)
    elif t == "toggle_keep":
        h = physt.h1(None, "fixed_width", bin_width=w, adaptive=True, **kw)
        h.keep_missed = False
    else:
        h = physt.h1(None, "fixed_width", bin_width=w, adaptive=True, name="src", **kw)
    if pre:
        h.fill_n(list(pre))
    if t == "toggle_off":
        h.set_adaptive(False)
    if t == "empty_sel":
        h = h[1:1]
    return h


def derive(name, h):
    if name in ("copy", "coll_copy"):
        return h.copy()
    if name == "copy0":
        return h.copy(include_frequencies=False)
    if name == "mul1":
        return h * 1
    if name == "div1":
        return h / 1
    if name == "radd0":
        return 0 + h
    if name == "add_empty":
        return h + h.copy(include_frequencies=False)
    if name == "json":
        from physt.io import parse_json
        return parse_json(h.to_json())
    raise ValueError(name)


def apply_fill(o, f, nd):
    import numpy as np
    targets = list(o) if hasattr(o, "histograms") else [o]
    for h in targets:
        if "n" in f:
            h.fill_n(np.asarray(f["n"], dtype=float) if nd else list(f["n"]))
        else:
            h.fill(f["v"], f["w"])


def snap(o):
    from .. import impl1, implnd
    if hasattr(o, "histograms"):
        return {"members": [impl1.snap1(h) for h in o], "_class": type(o).__name__}
    if o.ndim == 1:
        s = impl1.snap1(o)
        s["_class"] = type(o).__name__
        return s
    return implnd.snapn(o)


def run_impl(case):
    spec = case["src"]
    nd = spec["t"] == "nd"
    outs, log = [], []
    objs = {"src": build(spec, case["pre"]), "twin": build(spec, case["pre"]), "der": None}
    try:
        objs["der"] = derive(case["deriv"], objs["src"])
        ret = "ok"
    except Exception as ex:
        log.append(f"{case['deriv']}: {type(ex).__name__}: {ex}"[:200])
        ret = REFUSED

    def record(step, rets, counts):
        # snapshots where the three objects have received the same fills (the only places the oracle compares them)
        eq = None
        full = counts["src"] == counts["der"] == counts["twin"]
        if objs["der"] is not None and full:
            try:
                eq = bool(objs["src"] == objs["der"])
            except Exception as ex:
                eq = f"raised {type(ex).__name__}"
        outs.append({"step": step, "ret": rets, "counts": dict(counts),
                     "objs": {k: (None if v is None else snap(v)) for k, v in objs.items()} if full else None, "eq": eq})

    counts = {"src": 0, "der": 0, "twin": 0}
    record("derive", ret, counts)
    if objs["der"] is None:
        return {"outs": outs, "log": log}
    fills = case["fills"]
    if case["order"] == "interleaved":
        plan = [(k, n) for k in range(len(fills)) for n in ("src", "der", "twin")]
    elif case["order"] == "src_first":
        plan = [(k, n) for n in ("src", "der", "twin") for k in range(len(fills))]
    else:
        plan = [(k, n) for n in ("der", "twin", "src") for k in range(len(fills))]
    for k, n in plan:
        try:
            apply_fill(objs[n], fills[k], nd)
            ret = "ok"
        except Exception as ex:
            log.append(f"fill {k} on {n}: {type(ex).__name__}: {ex}"[:200])
            ret = REFUSED
        counts[n] += 1
        record({"fill": k, "on": n}, ret, counts)
    return {"outs": outs, "log": log}


# ------------------------------------------------------------------------------------------------ oracle
def _fr(x):
    try:
        return Fraction(x)
    except (ValueError, TypeError, ZeroDivisionError):
        return None


def _parts(s):
    """a snapshot as a list of per-histogram snapshots (collection members, or the histogram itself)"""
    return s["members"] if "members" in s else [s]


def _cmp(a, b, fields):
    return [f for f in fields if a.get(f) != b.get(f)]


def oracle(case, io):
    outs = io["outs"]
    deriv = case["deriv"]
    nd = case["src"]["t"] == "nd"
    fut = FUTN if nd else FUT1
    fails = []
    o0 = outs[0]
    if o0["ret"] == REFUSED:
        return [f"unusable: {deriv} of the source raised: " + "; ".join(io["log"][-1:])]
    src0, der0 = _parts(o0["objs"]["src"]), _parts(o0["objs"]["der"])
    if len(src0) != len(der0):
        return [f"copy_differs: {deriv} has {len(der0)} members, the source {len(src0)}"]
    if deriv in ("copy", "coll_copy"):
        for i, (a, b) in enumerate(zip(src0, der0)):
            ch = _cmp(a, b, fut + ("dtype", "_class", "_meta"))
            if ch:
                fails.append(f"copy_differs: copy() differs from the original (member {i}) in {ch}")
        if o0["eq"] is not True:
            fails.append(f"copy_differs: source == copy() gave {o0['eq']} right after the copy")
    if deriv == "copy0":
        for a, b in zip(src0, der0):
            if any(_fr(x) != 0 for x in b["freq"]) or any(_fr(x) != 0 for x in b["err2"]) or a["bins"] != b["bins"]:
                fails.append("empty_copy: copy(include_frequencies=False) is not empty over the same bins")
            if a["adaptive"] != b["adaptive"] or a["keep"] != b["keep"] or a["dtype"] != b["dtype"]:
                fails.append("empty_copy: copy(include_frequencies=False) differs from the source in adaptivity / keep_missed / dtype")
    same = deriv in SAME or (deriv == "copy0" and not case["pre"])
    for k in range(1, len(outs)):
        o = outs[k]
        if o["ret"] == REFUSED:
            # the same fill is accepted or refused by all three alike; a derived object that refuses it is not usable
            others = [p for p in outs[1:] if p["step"]["fill"] == o["step"]["fill"] and p["step"]["on"] != o["step"]["on"]]
            if o["step"]["on"] == "der" or any(p["ret"] != REFUSED for p in others):
                fails.append(f"unusable: fill {o['step']['fill']} raised on `{o['step']['on']}`: " + "; ".join(io["log"][-1:]))
            continue
        c = o["counts"]
        if not (c["src"] == c["der"] == c["twin"]):
            continue
        s, d, t = (_parts(o["objs"][n]) for n in ("src", "der", "twin"))
        for i, (a, b, tw) in enumerate(zip(s, d, t)):
            where = f"after {c['src']} identical fill(s)" + (f", member {i}" if len(s) > 1 else "")
            for x in (a, b, tw):
                if not x["_shape_ok"]:
                    fails.append(f"illformed: inconsistent shapes {where}")
            ch = _cmp(a, tw, fut + ("dtype",))
            if ch:
                fails.append(f"not_independent: the source differs from a twin built and filled the same way {where} in {ch}: "
                             f"bins {a['bins'][:2]} vs {tw['bins'][:2]}")
            if same:
                # (the statistics of a histogram parsed from JSON are not pinned by the property: copy() keeps them)
                flds = tuple(f for f in fut if not (deriv == "json" and f == "stats"))
                ch = _cmp(a, b, flds + (("dtype",) if deriv in ("copy", "coll_copy", "copy0") else ()))
                if ch:
                    fails.append(f"future_differs: {deriv} taken {'while empty' if not case['pre'] else 'after a first fill'} and its "
                                 f"source differ {where} in {ch}: bins {b['bins'][:2]} vs {a['bins'][:2]}")
            else:
                # copy(include_frequencies=False) after a first fill: the source's bins, and exactly what was added since
                if a["bins"] != b["bins"] or a["adaptive"] != b["adaptive"]:
                    fails.append(f"future_differs: copy(include_frequencies=False) and its source report different bins {where}: "
                                 f"{b['bins'][:2]} vs {a['bins'][:2]}")
                elif not nd:
                    base = dict(zip(map(tuple, src0[i]["bins"]), zip(src0[i]["freq"], src0[i]["err2"])))
                    for bn, fa, ea, fb, eb in zip(a["bins"], a["freq"], a["err2"], b["freq"], b["err2"]):
                        f0, e0 = base.get(tuple(bn), ("0", "0"))
                        vals = [_fr(x) for x in (fa, ea, fb, eb, f0, e0)]
                        if None in vals:
                            continue
                        if vals[0] - vals[4] != vals[2] or vals[1] - vals[5] != vals[3]:
                            fails.append(f"future_differs: bin {bn} of copy(include_frequencies=False) holds {fb} (errors2 {eb}) "
                                         f"{where}; the source went {f0} -> {fa} (errors2 {e0} -> {ea})")
                            break
        if same and o["eq"] is not True:
            fails.append(f"future_not_equal: source == {deriv} gave {o['eq']} after {c['src']} identical fill(s)")
        if len(fails) > 5:
            break
    return fails[:6]


def nontrivial(case, io):
    outs = io["outs"]
    return len(outs) > 1 and outs[-1]["objs"]["src"] != outs[0]["objs"]["src"]


def tags(case, io):
    t = list(case.get("tags", []))
    outs = io["outs"]
    t.append("future_derive_ret:" + str(outs[0]["ret"]))
    if any(o["ret"] == REFUSED for o in outs[1:]):
        t.append("future_fill_refused")
    if len(outs) > 1 and outs[-1]["objs"]["src"] is not None:
        p = _parts(outs[-1]["objs"]["src"])[0]
        b = p["bins"] if case["src"]["t"] != "nd" else p["bins"][0]
        t.append("future_source_grew:" + ("yes" if b else "no"))
    return t


def shrink_candidates(case):
    """fewer fills (last first), one order, no first fill, single values instead of arrays: every candidate is well-formed"""
    for k in range(len(case["fills"]) - 1, -1, -1):
        if len(case["fills"]) > 1:
            c = copy.deepcopy(case)
            del c["fills"][k]
            yield c
    if case["order"] != "interleaved":
        c = copy.deepcopy(case)
        c["order"] = "interleaved"
        yield c
    if case["pre"] and case["src"]["t"] not in ("toggle_off", "empty_sel"):
        c = copy.deepcopy(case)
        c["pre"] = c["pre"][:-1]
        yield c
    for k, f in enumerate(case["fills"]):
        if "n" in f and len(f["n"]) > 1:
            c = copy.deepcopy(case)
            c["fills"][k]["n"] = f["n"][:-1]
            yield c
        if "w" in f and f["w"] != 1:
            c = copy.deepcopy(case)
            c["fills"][k]["w"] = 1
            yield c
    if case["src"]["t"] == "coll" and case["src"]["members"] > 1:
        c = copy.deepcopy(case)
        c["src"]["members"] -= 1
        yield c

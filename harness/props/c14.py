"""C14 — statistics are those of the raw data entered, not of the bins."""
from __future__ import annotations

import copy
from fractions import Fraction

from .. import gen1
from ..core import rs
from .base1 import Hist1Prop
from .c03 import partition


def inrange_values(rng, pairs, n):
    """dyadic values inside the bins (never in a gap, never outside)"""
    out = []
    for _ in range(n):
        l, r = rng.choice(pairs)
        k = rng.choice([0, 1, 2, 3, 4, 5, 6, 7])
        v = l + (r - l) * k / 8
        out.append(v)
    return out


def dy_bins(rng):
    n = rng.randint(1, 6)
    start = rng.randint(-16, 16) / 4
    e = [start]
    for _ in range(n):
        e.append(e[-1] + rng.choice([0.5, 1.0, 2.0, 0.25]))
    pairs = [[e[i], e[i + 1]] for i in range(n)]
    if n >= 3 and rng.random() < 0.3:
        del pairs[rng.randint(1, n - 2)]
    return pairs


class C14(Hist1Prop):
    ID = "C14"
    GEN_TIE = ["statistics"]     # definitions regenerated from physt/statistics.py (harness/gen_tie.py)
    N_QUICK = 300
    N_THOROUGH = 8000
    RULE = ("in-range dyadic data and weights entered through h1(), fill() and fill_n() (random chunkings), sums of partial "
            "histograms, copies, positive rescalings (powers of two), then the operations that must invalidate the statistics "
            "(subtraction, construction from bare frequencies, slicing); one case in three is a random HISTORY on one histogram (fill, "
            "fill_n, *= /= * / by powers of two, in-place normalize, copy, + a histogram of further data) whose statistics are "
            "compared after every step with the raw data entered so far (weights rescaled); every history is also run without "
            "reading the histogram between the operations. non-trivial = at least 2 distinct values entered; "
            "distinct = hash of the op list")
    FIELDS = {"stats", "freq"}

    def gen_narrow_values(self, rng):
        """values handed to fill() as numpy scalars of a NARROW type (np.int8(100), np.int16(300), np.float32(16777216.0) then
        np.float32(1.0), np.float16(300.0) ...): the statistics are those of the numbers entered, whatever type carried them"""
        pairs = [[0.0, 128.0], [128.0, 512.0], [512.0, 131072.0], [131072.0, 33554432.0]]
        b = gen1.binning_json(pairs, rng=rng, form="pairs")
        ops = [{"op": "empty", "out": 0, "binning": b}]
        pool = [(100, "int8"), (120, "int8"), (300, "int16"), (20000, "int16"), (70000, "int32"), (16777216.0, "float32"),
                (1.0, "float32"), (3.0, "float32"), (300.0, "float16"), (2.5, "float16"), (3.0, "float64"), (7, "int64")]
        for _ in range(rng.randint(2, 6)):
            v, vk = rng.choice(pool)
            w = rng.choice([1, 1, 2])
            ops.append({"op": "fill", "h": 0, "v": rs(v), "w": rs(w), "wk": "pyint", "vk": vk, "default_w": w == 1 and rng.random() < 0.5})
        return {"kind": "hist1", "ops": ops, "tags": ["mixed_history", "narrow_scalar_values"], "mixed": True, "tolerance": True}

    def gen_mixed(self, rng):
        """one histogram with a random HISTORY: fills, batches, in-place and copying rescalings (powers of two), in-place
        normalisation, copies, additions of histograms built from further data -- the statistics must at every point be
        those of all the raw data entered so far, with the weights rescaled (mean, variance, minimum, maximum unchanged)"""
        pairs = dy_bins(rng)
        b = gen1.binning_json(pairs, rng=rng, form="pairs")
        ops = []
        n0 = rng.choice([0, 0, 1, 3, 5])
        v0 = inrange_values(rng, pairs, n0)
        if rng.random() < 0.5:
            ops.append({"op": "construct", "out": 0, "binning": b, "data": gen1.enc_vals(v0), "weights": None, "wkind": None})
        else:
            ops.append({"op": "empty", "out": 0, "binning": b})
            v0 = []
        cur, nreg = 0, 1
        for _ in range(rng.randint(2, 8)):
            kind = rng.choice(["fill", "fill", "fill", "fill_n", "imul", "idiv", "mul", "div", "copy", "add", "normalize"])
            if kind == "fill":
                w = rng.choice([1, 1, 2, 0.5, 3])
                ops.append({"op": "fill", "h": cur, "v": rs(inrange_values(rng, pairs, 1)[0]), "w": rs(w),
                            "wk": "pyint" if isinstance(w, int) else "pyfloat", "default_w": w == 1 and rng.random() < 0.5})
            elif kind == "fill_n":
                m = rng.choice([0, 1, 2, 4])
                vs = inrange_values(rng, pairs, m)
                ws = None if rng.random() < 0.5 else [rs(rng.choice([1, 2, 0.5, 0.25])) for _ in vs]
                ops.append({"op": "fill_n", "h": cur, "vs": gen1.enc_vals(vs), "ws": ws, "wkind": "float64"})
            elif kind in ("imul", "idiv", "mul", "div"):
                c = rng.choice([2, 4, 0.5, 0.25, 8])
                op = {"op": kind, "h": cur, "c": rs(c), "k": rng.choice(["pyint", "int64"]) if isinstance(c, int) else rng.choice(["pyfloat", "float64"])}
                if kind in ("mul", "div"):
                    op["out"] = nreg; cur = nreg; nreg += 1
                ops.append(op)
            elif kind == "copy":
                ops.append({"op": "copy", "h": cur, "out": nreg}); cur = nreg; nreg += 1
            elif kind == "add":
                vs = inrange_values(rng, pairs, rng.choice([1, 2, 3]))
                ops.append({"op": "construct", "out": nreg, "binning": b, "data": gen1.enc_vals(vs), "weights": None, "wkind": None})
                ops.append({"op": "add", "a": cur, "b": nreg, "out": nreg + 1}); cur = nreg + 1; nreg += 2
            else:
                ops.append({"op": "normalize", "h": cur, "inplace": True, "maybe_refused": True})
        return {"kind": "hist1", "ops": ops, "tags": ["mixed_history"], "mixed": True, "tolerance": True}

    def oracle_mixed(self, case, io):
        """track, per register, the raw (value, weight) pairs with the weights rescaled; compare after every step"""
        outs = io["outs"]
        data = {}
        fails = []
        for k, (op, o) in enumerate(zip(case["ops"], outs)):
            name = op["op"]
            if o["ret"] == "REFUSED":
                tot = sum((w for _, w in data.get(op.get("h"), [])), Fraction(0))
                if name == "normalize" and tot == 0:
                    continue
                return [f"refused_valid: step {k} ({name}) was refused: " + "; ".join(io["log"][:1])]
            if name == "construct":
                data[op["out"]] = [(Fraction(v), Fraction(1)) for v in op["data"] if v is not None]
            elif name == "empty":
                data[op["out"]] = []
            elif name == "fill":
                data[op["h"]] = data[op["h"]] + [(Fraction(op["v"]), Fraction(op["w"]))]
            elif name == "fill_n":
                ws = op["ws"] or ["1"] * len(op["vs"])
                data[op["h"]] = data[op["h"]] + [(Fraction(v), Fraction(w)) for v, w in zip(op["vs"], ws) if v is not None]
            elif name in ("imul", "idiv", "mul", "div"):
                c = Fraction(op["c"]) if name in ("imul", "mul") else 1 / Fraction(op["c"])
                data[op.get("out", op["h"])] = [(v, w * c) for v, w in data[op["h"]]]
            elif name == "copy":
                data[op["out"]] = list(data[op["h"]])
            elif name == "add":
                data[op["out"]] = data[op["a"]] + data[op["b"]]
            elif name == "normalize":
                tot = sum((w for _, w in data[op["h"]]), Fraction(0))
                data[op["h"]] = [(v, w / tot) for v, w in data[op["h"]]]
            for r, pairs in data.items():
                st = o["regs"][r]["stats"] if r < len(o["regs"]) and o["regs"][r] is not None else None
                if st is None:
                    continue
                if not st["valid"]:
                    fails.append(f"stats_invalid_history: statistics of register {r} are invalid after step {k} ({name})")
                    continue
                bad = [f for f in ("weight", "sum", "sum2", "mean", "variance") if isinstance(st.get(f), str) and st[f].lstrip("-") in ("inf", "nan")]
                if bad:
                    fails.append(f"stats_nonfinite_history: register {r} after step {k} ({name}): {bad} are not finite although every value "
                                 f"and weight entered is")
                    continue
                W = sum((w for _, w in pairs), Fraction(0))
                S = sum((w * v for v, w in pairs), Fraction(0))
                S2 = sum((w * v * v for v, w in pairs), Fraction(0))
                tol = lambda x: abs(x) * Fraction(1, 10**9) + Fraction(1, 10**12)
                for f, e in (("weight", W), ("sum", S), ("sum2", S2)):
                    if abs(Fraction(st[f]) - e) > tol(e):
                        fails.append(f"stats_{f}_history: register {r} after step {k} ({name}): {f} = {st[f]}, the raw data (weights rescaled) give {e}")
                for f, e in (("min", min((v for v, _ in pairs), default=None)), ("max", max((v for v, _ in pairs), default=None))):
                    got = None if st[f] is None else Fraction(st[f])
                    if got != e:
                        fails.append(f"stats_{f}_history: register {r} after step {k} ({name}): {f} = {st[f]}, the raw data give {e}")
                if W > 0:
                    mean, var = S / W, (S2 - S * S / W) / W
                    if st["mean"] is None or abs(Fraction(st["mean"]) - mean) > tol(mean):
                        fails.append(f"mean_history: register {r} after step {k} ({name}): mean() = {st['mean']}, weighted mean of the data = {mean}")
                    if st["variance"] is None or abs(Fraction(st["variance"]) - var) > abs(var) * Fraction(1, 10**9) + Fraction(1, 10**9):
                        fails.append(f"variance_history: register {r} after step {k} ({name}): variance() = {st['variance']}, population variance = {var}")
            if fails:
                break
        return fails[:5]

    def gen_case(self, rng, k, tier):
        if k % 12 == 7:
            return self.gen_narrow_values(rng)
        if k % 3 == 1:
            return self.gen_mixed(rng)
        pairs = dy_bins(rng)
        b = gen1.binning_json(pairs, rng=rng, form="pairs")
        n = rng.choice([0, 1, 2, 3, 5, 8, 13])
        vals = inrange_values(rng, pairs, n)
        ws, wk = gen1.weights_for(rng, n, kinds=["none", "none", "int", "dyadic", "equal", "zeros"])
        order = list(range(n)); rng.shuffle(order)
        order2 = list(range(n)); rng.shuffle(order2)
        cut = rng.randint(0, n)
        src = {"binning": b, "vals": gen1.enc_vals(vals), "ws": None if ws is None else [rs(w) for w in ws], "wk": wk,
               "order": order, "batches": partition(rng, order2), "cut": cut,
               "scale": rs(rng.choice([2, 4, 0.5, 0.25, 3])),
               "tail": rng.choice(["sub", "sub_free", "of_arrays", "slice", "add_invalid", "add_invalid", "none", "none"])}
        src["sk"] = rng.choice(["pyint", "int64", "int32", "pyfloat"] if "/" not in src["scale"] else ["pyfloat", "float32", "float64"])
        return self.build(src)

    @staticmethod
    def build(src):
        b, vals, ws, wk = src["binning"], src["vals"], src["ws"], src["wk"]
        sub = lambda idx: ([vals[i] for i in idx], None if ws is None else [ws[i] for i in idx])
        ops = [{"op": "construct", "out": 0, "binning": b, "data": vals, "weights": ws, "wkind": wk}]
        ops.append({"op": "empty", "out": 1, "binning": b})
        for i in src["order"]:
            w = "1" if ws is None else ws[i]
            ops.append({"op": "fill", "h": 1, "v": vals[i], "w": w,
                        "wk": "pyint" if (ws is None or wk == "int64") else "pyfloat", "default_w": ws is None})
        ops.append({"op": "empty", "out": 2, "binning": b})
        for batch in src["batches"]:
            v, w = sub(batch)
            ops.append({"op": "fill_n", "h": 2, "vs": v, "ws": w, "wkind": wk})
        # sum of two partial histograms
        n = len(vals)
        a, c = list(range(src["cut"])), list(range(src["cut"], n))
        v, w = sub(a)
        ops.append({"op": "construct", "out": 3, "binning": b, "data": v, "weights": w, "wkind": wk})
        v, w = sub(c)
        ops.append({"op": "construct", "out": 4, "binning": b, "data": v, "weights": w, "wkind": wk})
        ops.append({"op": "add", "a": 3, "b": 4, "out": 5})
        ops.append({"op": "copy", "h": 0, "out": 6})
        sc = src["scale"]
        ops.append({"op": "mul", "h": 0, "c": sc, "k": src.get("sk") or ("pyint" if "/" not in sc else "pyfloat"), "out": 7})
        if src["tail"] == "sub":
            ops.append({"op": "sub", "a": 5, "b": 4, "out": 8})
        elif src["tail"] == "sub_free":
            ops.append({"op": "sub", "a": 5, "b": 4, "out": 8, "free": True})
        elif src["tail"] == "slice":
            ops.append({"op": "slice", "h": 0, "start": 0, "stop": None, "out": 8})
        elif src["tail"] == "add_invalid":
            # a histogram without statistics (built from bare frequencies) added to one with statistics, in both orders:
            # the sum cannot have statistics either -- every number must read as NaN
            ops.append({"op": "of_arrays", "out": 8, "binning": b, "freq": ["1"] * len(b["bins"]), "err2": None,
                        "under": "0", "over": "0", "inner": "0", "dtype": "int64"})
            ops.append({"op": "add", "a": 0, "b": 8, "out": 9})
            ops.append({"op": "add", "a": 8, "b": 0, "out": 10})
        elif src["tail"] == "of_arrays":
            ops.append({"op": "of_arrays", "out": 8, "binning": b, "freq": ["1"] * len(b["bins"]), "err2": None,
                        "under": "0", "over": "0", "inner": "0", "dtype": "int64"})
        return {"kind": "hist1", "ops": ops, "tags": ["tail:" + src["tail"]], "src": src}

    def shrink_candidates(self, case):
        if case.get("mixed"):
            for k in range(len(case["ops"]) - 1, 0, -1):
                c = copy.deepcopy(case)
                del c["ops"][k]
                if all(o.get("h", 0) in self._defined(c["ops"][:i]) and o.get("a", 0) in self._defined(c["ops"][:i])
                       and o.get("b", 0) in self._defined(c["ops"][:i]) for i, o in enumerate(c["ops"]) if i):
                    yield c
            return
        src = case["src"]
        n = len(src["vals"])
        for i in range(n):
            s2 = copy.deepcopy(src)
            del s2["vals"][i]
            if s2["ws"] is not None:
                del s2["ws"][i]
            ren = lambda j: j if j < i else j - 1
            s2["order"] = [ren(j) for j in s2["order"] if j != i]
            s2["batches"] = [[ren(j) for j in bt if j != i] for bt in s2["batches"]]
            s2["cut"] = min(s2["cut"], n - 1)
            yield self.build(s2)
        if src["tail"] != "none":
            s2 = copy.deepcopy(src); s2["tail"] = "none"
            yield self.build(s2)

    @staticmethod
    def _defined(ops):
        return {o["out"] for o in ops if "out" in o}

    def oracle(self, case, io):
        if case.get("mixed"):
            return self.oracle_mixed(case, io)
        outs = io["outs"]
        if any(o["ret"] == "REFUSED" for o in outs):
            return ["refused_valid: a valid call was refused: " + "; ".join(io["log"][:2])]
        src = case["src"]
        fails = []
        regs = outs[-1]["regs"]
        vals = [Fraction(v) for v in src["vals"]]
        ws = [Fraction(w) for w in src["ws"]] if src["ws"] is not None else [Fraction(1)] * len(vals)

        def expect(idx, scale=Fraction(1)):
            W = sum((ws[i] for i in idx), Fraction(0)) * scale
            S = sum((ws[i] * vals[i] for i in idx), Fraction(0)) * scale
            S2 = sum((ws[i] * vals[i] ** 2 for i in idx), Fraction(0)) * scale
            return {"weight": W, "sum": S, "sum2": S2, "min": min((vals[i] for i in idx), default=None),
                    "max": max((vals[i] for i in idx), default=None)}

        def check(name, st, idx, scale=Fraction(1)):
            if not st["valid"]:
                fails.append(f"stats_invalid_{name}: statistics are invalid after {name}")
                return
            e = expect(idx, scale)
            for f in ("weight", "sum", "sum2"):
                if Fraction(st[f]) != e[f]:
                    fails.append(f"stats_{f}_{name}: {f} after {name} is {st[f]}, the raw data give {e[f]}")
            for f in ("min", "max"):
                got = None if st[f] is None else Fraction(st[f])
                if got != e[f]:
                    fails.append(f"stats_{f}_{name}: {f} after {name} is {st[f]}, the raw data give {e[f]}")
            if e["weight"] != 0:
                mean = e["sum"] / e["weight"]
                if st["mean"] is None or abs(Fraction(st["mean"]) - mean) > abs(mean) * Fraction(1, 10**9) + Fraction(1, 10**12):
                    fails.append(f"mean_{name}: mean() = {st['mean']}, weighted mean of the data = {mean}")
                if e["weight"] > 0:
                    var = (e["sum2"] - e["sum"] ** 2 / e["weight"]) / e["weight"]
                    if st["variance"] is None or abs(Fraction(st["variance"]) - var) > abs(var) * Fraction(1, 10**9) + Fraction(1, 10**9):
                        fails.append(f"variance_{name}: variance() = {st['variance']}, population variance of the data = {var}")
                    elif var >= 0 and st.get("_std") is not None:
                        sd = Fraction(st["_std"])
                        if sd < 0 or abs(sd * sd - var) > abs(var) * Fraction(1, 10**9) + Fraction(1, 10**9):
                            fails.append(f"std_{name}: std() = {float(sd)}, but its square is not the population variance {float(var)}")
            else:
                if st["mean"] is not None:
                    fails.append(f"mean_empty_{name}: weight 0 but mean() = {st['mean']}")

        n = len(vals)
        allidx = list(range(n))
        check("construct", regs[0]["stats"], allidx)
        check("fill", regs[1]["stats"], allidx)
        check("fill_n", regs[2]["stats"], allidx)
        check("add", regs[5]["stats"], allidx)
        check("copy", regs[6]["stats"], allidx)
        sc = Fraction(src["scale"])
        check("scale", regs[7]["stats"], allidx, sc)
        # median after unweighted construction
        st0 = regs[0]["stats"]
        if src["ws"] is None and n > 0 and st0["valid"]:
            s = sorted(vals)
            med = s[n // 2] if n % 2 else (s[n // 2 - 1] + s[n // 2]) / 2
            if st0["median"] is None or Fraction(st0["median"]) != med:
                fails.append(f"median: median after unweighted construction is {st0['median']}, data median is {med}")
        if src["tail"] != "none" and len(regs) > 8 and regs[8] is not None:
            for r in (8, 9, 10):
                if r < len(regs) and regs[r] is not None:
                    st = regs[r]["stats"]
                    what = src["tail"] if r == 8 else ("adding a histogram without statistics" + (" (on the right)" if r == 9 else " (on the left)"))
                    if st["valid"]:
                        fails.append(f"not_invalidated: statistics still read as valid numbers after {what}")
                    elif st.get("_numbers"):
                        fails.append(f"not_invalidated: after {what} the statistics are invalid (weight NaN) but {st['_numbers']} still read as numbers")
        return fails[:6]

    def nontrivial(self, case, io):
        if case.get("mixed"):
            return sum(1 for o in case["ops"] if o["op"] in ("fill", "fill_n", "construct")) >= 2
        return len(set(case["src"]["vals"])) >= 2


PROP = C14()

"""C14 — statistics are those of the raw data entered, not of the bins."""
from __future__ import annotations

import copy
import math
from fractions import Fraction

import numpy as np

from .. import gen1, impl1
from ..core import rs
from .base1 import Hist1Prop
from .c03 import partition

# the stream "refused operations in the middle of a history" (gen_refused_mid): switch for the whole stream, and the
# refusal kinds it draws from (a kind can be taken out here without touching the rest)
ENABLE_REFUSED_MID = True
REFUSALS_ADAPTIVE = ["iadd_missed", "iadd_not_adaptable", "iadd_other_width", "iadd_other_shift"]
REFUSALS_STATIC = ["iadd_incompatible", "coll_add_incompatible"]
REFUSALS_ANY = ["isub_negative", "fill_n_wshape", "imul_negative", "imul_array", "idiv_zero", "set_dtype", "merge"]
BIG_W = 1048576          # 2^20: a weight no content of the histories below can reach
INVALID = "invalid"      # oracle marker: the statistics of this register must read as invalid

# the stream "content type narrower than the weights" (gen_narrow_content) and the stream "invalid statistics stay invalid
# under every later operation" (gen_invalid_history): switches for the whole streams
ENABLE_NARROW_CONTENT = True
ENABLE_INVALID_HISTORY = True
NARROW_LARGE_DTYPES = ["float16", "float32", "int16"]      # the large cases take them in turn (by case index)
# the stream "an EMPTY / TEMPLATE histogram obtained from a filled one, then used" (gen_template): switch for the whole stream, the
# ways of obtaining the empty histogram it draws from (a way can be taken out here without touching the rest)
ENABLE_TEMPLATE = True
TEMPLATE_WAYS = ["copy_empty", "copy_empty", "copy_empty", "copy_empty", "mul0", "sub_self", "new_on_binning", "new_on_binning",
                 "slice_empty", "coll_create"]
# `h * 0` keeps min / max / median of the data of `h` beside weight = sum = sum2 = 0 (and whatever is filled in afterwards has
# extremes that include the old data).  0 is not a positive rescaling and the property text does not say that the product is
# "empty": only weight / sum / sum2 / mean() / variance() are compared on such registers unless this is switched on.
TEMPLATE_MUL0_EXTREMES = False
EITHER = "empty-or-invalid"     # oracle marker: an empty selection (h[k:k]) may read as invalid or as empty, never as numbers
READINGS = ("weight", "sum", "sum2", "min", "max", "median", "mean()", "variance()", "std()")
TRANSFORMED = ("RadialHistogram", "AzimuthalHistogram")


def _tok(x) -> str:
    """one reading of the statistics as a token: "nan", "inf", "-inf", an exact rational, or what else it is"""
    try:
        a = np.asarray(x, dtype=float)
    except Exception:
        return "unreadable:" + type(x).__name__
    if a.size != 1:
        return f"array{list(a.shape)}"
    x = float(a.reshape(-1)[0])
    if math.isnan(x):
        return "nan"
    if math.isinf(x):
        return "inf" if x > 0 else "-inf"
    return rs(x)


def read_all(h) -> dict:
    """EVERY number the statistics offer (the five fields, the median, mean(), variance(), std()), as tokens"""
    st = h.statistics
    out = {f: _tok(getattr(st, f)) for f in ("weight", "sum", "sum2", "min", "max", "median")}
    for f in ("mean", "variance", "std"):
        try:
            with np.errstate(all="ignore"):
                out[f + "()"] = _tok(getattr(st, f)())
        except ZeroDivisionError:
            out[f + "()"] = "nan"
        except Exception as e:          # reported by the oracle where the statistics must read as invalid
            out[f + "()"] = "raised:" + type(e).__name__
    return out


def snap(h) -> dict:
    return {**impl1.snap1(h), "_all": read_all(h), "_class": type(h).__name__}


def numbers_of(snapshot) -> list:
    """the readings of a snapshot that are not NaN (for statistics that must read as invalid: all of them must be NaN)"""
    allr = snapshot.get("_all")
    if allr is None:        # (a snapshot taken by the generic runner: the older, partial test)
        st = snapshot["stats"]
        return ["weight/sum"] if st["valid"] else list(st.get("_numbers") or [])
    return [f"{f} = {allr[f]}" for f in READINGS if allr.get(f) != "nan"]


def inrange_values(rng, pairs, n):
    """dyadic values inside the bins (never in a gap, never outside)"""
    out = []
    for _ in range(n):
        l, r = rng.choice(pairs)
        k = rng.choice([0, 1, 2, 3, 4, 5, 6, 7])
        v = l + (r - l) * k / 8
        out.append(v)
    return out


def dy_bins(rng):
    n = rng.randint(1, 6)
    start = rng.randint(-16, 16) / 4
    e = [start]
    for _ in range(n):
        e.append(e[-1] + rng.choice([0.5, 1.0, 2.0, 0.25]))
    pairs = [[e[i], e[i + 1]] for i in range(n)]
    if n >= 3 and rng.random() < 0.3:
        del pairs[rng.randint(1, n - 2)]
    return pairs


class C14(Hist1Prop):
    ID = "C14"
    GEN_TIE = ["statistics"]     # definitions regenerated from physt/statistics.py (harness/gen_tie.py)
    N_QUICK = 400
    N_THOROUGH = 8000
    RULE = ("in-range dyadic data and weights entered through h1(), fill() and fill_n() (random chunkings), sums of partial "
            "histograms, copies, positive rescalings (powers of two), then the operations that must invalidate the statistics "
            "(subtraction, construction from bare frequencies, slicing) followed by fills into the histograms without statistics "
            "(every reading must stay NaN after every step); one case in three is a random HISTORY on one histogram (fill, "
            "fill_n, *= /= * / by powers of two, in-place normalize, copy, + a histogram of further data) whose statistics are "
            "compared after every step with the raw data entered so far (weights rescaled); every history is also run without "
            "reading the histogram between the operations; one case in six (stream:refused_mid_history) is a history on an adaptive / "
            "static / gapped / fixed-width histogram in which operations the library refuses (+= / + of an operand the adaptive bins "
            "cannot take in: missed weight, bins that cannot be made adaptive, another width, another alignment; incompatible static "
            "bins; -= / - that would go negative; fill_n with a wrong weights shape; *= by a negative number or an array; /= 0; "
            "refused set_dtype / merge_bins / HistogramCollection.add) alternate with accepted fills, batches, additions and "
            "rescalings, the statistics being compared EXACTLY after every step (the refused ones included) with the data entered by "
            "the accepted steps; one case in twelve (stream:invalid_history) starts from a histogram whose statistics cannot be known "
            "(bare frequencies, a proper slice, a projection of a 2-D / polar histogram, read back from a dict / JSON, a subtraction, "
            "array arithmetic under free arithmetics, a sum / copy of such; Histogram1D, RadialHistogram, AzimuthalHistogram) and goes "
            "on with fill (one / several, with and without weight), h << x, fill_n, + / += with partners built from data and partners "
            "without statistics in both orders, * / *= /=, copy, merge_bins, set_dtype, normalize, write / read, array arithmetic: after "
            "EVERY step ALL of weight, sum, sum2, min, max, median, mean(), variance(), std() of every such histogram must be NaN "
            "(the cases made of operations the Lean model has go through the model too, the others through the oracle only); one "
            "case in twenty-four (stream:narrow_content) has a content dtype (float16 / float32 / int16) NARROWER than the float64 / "
            "int64 weights (tenths, 2**24+1 ..., dyadic) or than the implicit unit weights: h1(data, bins, weights=w, dtype=...), and "
            "fill_n into an empty histogram of that dtype in one chunk, in chunks, value by value, then a sum, a copy, a rescaling: "
            "weight / sum / sum2 are the exact sums of the (value, weight) pairs (1e-12 relative where the weights are tenths), min / "
            "max exact, whatever the content type and the chunking; every third of these has 2150..3100 values, more than 2048 of them "
            "in one bin (float16, float32, int16 in turn; oracle only, observed at the end); one case in twelve (stream:template) "
            "obtains an EMPTY / template histogram from a filled Histogram1D / RadialHistogram / AzimuthalHistogram whose statistics are "
            "valid or invalid -- copy(include_frequencies=False), h * 0 / 0 * h / h / inf, h - h, type(h)(h.binning) / "
            "type(h)(h.binning.copy()), the empty selection h[k:k], HistogramCollection(h).create(...) -- reads its statistics at once "
            "(nothing entered: weight = sum = sum2 = 0, min / max empty, median / mean() / variance() / std() NaN; h - h: all NaN; "
            "h[k:k]: all NaN or empty), then fills it (fill, fill_n), adds data histograms (+=), adds the ORIGINAL in both orders, copies "
            "(with / without contents), rescales: after every step the statistics of every register are exactly those of the values "
            "entered into THAT object (1e-12 for the radii / azimuths numpy computes), the source keeps its own, a plain copy reads the "
            "same as its source in all nine numbers (the Histogram1D cases without create / inf go through the model too); the random "
            "histories and the refused_mid histories also take copy(include_frequencies=False) at random positions and go on with it. "
            "non-trivial = at least 2 distinct values "
            "entered (refused_mid: a planned refusal really refused, with data entered before and after it; invalid_history: "
            "something accepted was entered into / added to a histogram without statistics; template: the template was obtained and "
            "something entered into / added to it afterwards); "
            "distinct = hash of the op list")
    FIELDS = {"stats", "freq"}

    def gen_narrow_values(self, rng):
        """values handed to fill() as numpy scalars of a NARROW type (np.int8(100), np.int16(300), np.float32(16777216.0) then
        np.float32(1.0), np.float16(300.0) ...): the statistics are those of the numbers entered, whatever type carried them"""
        pairs = [[0.0, 128.0], [128.0, 512.0], [512.0, 131072.0], [131072.0, 33554432.0]]
        b = gen1.binning_json(pairs, rng=rng, form="pairs")
        ops = [{"op": "empty", "out": 0, "binning": b}]
        pool = [(100, "int8"), (120, "int8"), (300, "int16"), (20000, "int16"), (70000, "int32"), (16777216.0, "float32"),
                (1.0, "float32"), (3.0, "float32"), (300.0, "float16"), (2.5, "float16"), (3.0, "float64"), (7, "int64")]
        for _ in range(rng.randint(2, 6)):
            v, vk = rng.choice(pool)
            w = rng.choice([1, 1, 2])
            ops.append({"op": "fill", "h": 0, "v": rs(v), "w": rs(w), "wk": "pyint", "vk": vk, "default_w": w == 1 and rng.random() < 0.5})
        return {"kind": "hist1", "ops": ops, "tags": ["mixed_history", "narrow_scalar_values"], "mixed": True, "tolerance": True}

    def gen_mixed(self, rng):
        """one histogram with a random HISTORY: fills, batches, in-place and copying rescalings (powers of two), in-place
        normalisation, copies, additions of histograms built from further data -- the statistics must at every point be
        those of all the raw data entered so far, with the weights rescaled (mean, variance, minimum, maximum unchanged)"""
        pairs = dy_bins(rng)
        b = gen1.binning_json(pairs, rng=rng, form="pairs")
        ops = []
        n0 = rng.choice([0, 0, 1, 3, 5])
        v0 = inrange_values(rng, pairs, n0)
        if rng.random() < 0.5:
            ops.append({"op": "construct", "out": 0, "binning": b, "data": gen1.enc_vals(v0), "weights": None, "wkind": None})
        else:
            ops.append({"op": "empty", "out": 0, "binning": b})
            v0 = []
        cur, nreg = 0, 1
        for _ in range(rng.randint(2, 8)):
            kind = rng.choice(["fill", "fill", "fill", "fill_n", "imul", "idiv", "mul", "div", "copy", "add", "normalize", "copy_empty"])
            if kind == "copy_empty":
                # an EMPTY copy (a template over the same bins) taken at this point of the history: nothing of the source in it;
                # the history goes on on the template (filled at once) or on the source (the template is read after every step)
                ops.append({"op": "copy", "h": cur, "out": nreg, "with_freq": False})
                if rng.random() < 0.6:
                    cur = nreg
                    ops.append({"op": "fill", "h": cur, "v": rs(inrange_values(rng, pairs, 1)[0]), "w": "1", "wk": "pyint",
                                "default_w": rng.random() < 0.5})
                nreg += 1
            elif kind == "fill":
                w = rng.choice([1, 1, 2, 0.5, 3])
                ops.append({"op": "fill", "h": cur, "v": rs(inrange_values(rng, pairs, 1)[0]), "w": rs(w),
                            "wk": "pyint" if isinstance(w, int) else "pyfloat", "default_w": w == 1 and rng.random() < 0.5})
            elif kind == "fill_n":
                m = rng.choice([0, 1, 2, 4])
                vs = inrange_values(rng, pairs, m)
                ws = None if rng.random() < 0.5 else [rs(rng.choice([1, 2, 0.5, 0.25])) for _ in vs]
                ops.append({"op": "fill_n", "h": cur, "vs": gen1.enc_vals(vs), "ws": ws, "wkind": "float64"})
            elif kind in ("imul", "idiv", "mul", "div"):
                c = rng.choice([2, 4, 0.5, 0.25, 8])
                op = {"op": kind, "h": cur, "c": rs(c), "k": rng.choice(["pyint", "int64"]) if isinstance(c, int) else rng.choice(["pyfloat", "float64"])}
                if kind in ("mul", "div"):
                    op["out"] = nreg; cur = nreg; nreg += 1
                ops.append(op)
            elif kind == "copy":
                ops.append({"op": "copy", "h": cur, "out": nreg}); cur = nreg; nreg += 1
            elif kind == "add":
                vs = inrange_values(rng, pairs, rng.choice([1, 2, 3]))
                ops.append({"op": "construct", "out": nreg, "binning": b, "data": gen1.enc_vals(vs), "weights": None, "wkind": None})
                ops.append({"op": "add", "a": cur, "b": nreg, "out": nreg + 1}); cur = nreg + 1; nreg += 2
            else:
                ops.append({"op": "normalize", "h": cur, "inplace": True, "maybe_refused": True})
        tags = ["mixed_history"] + (["kind:mixed_copy_empty"] if any(o.get("with_freq") is False for o in ops) else [])
        return {"kind": "hist1", "ops": ops, "tags": tags, "mixed": True, "tolerance": True}

    def oracle_mixed(self, case, io):
        """track, per register, the raw (value, weight) pairs with the weights rescaled; compare after every step"""
        outs = io["outs"]
        data = {}
        fails = []
        for k, (op, o) in enumerate(zip(case["ops"], outs)):
            name = op["op"]
            if o["ret"] == "REFUSED":
                tot = sum((w for _, w in data.get(op.get("h"), [])), Fraction(0))
                if name == "normalize" and tot == 0:
                    continue
                return [f"refused_valid: step {k} ({name}) was refused: " + "; ".join(io["log"][:1])]
            if name == "construct":
                data[op["out"]] = [(Fraction(v), Fraction(1)) for v in op["data"] if v is not None]
            elif name == "empty":
                data[op["out"]] = []
            elif name == "fill":
                data[op["h"]] = data[op["h"]] + [(Fraction(op["v"]), Fraction(op["w"]))]
            elif name == "fill_n":
                ws = op["ws"] or ["1"] * len(op["vs"])
                data[op["h"]] = data[op["h"]] + [(Fraction(v), Fraction(w)) for v, w in zip(op["vs"], ws) if v is not None]
            elif name in ("imul", "idiv", "mul", "div"):
                c = Fraction(op["c"]) if name in ("imul", "mul") else 1 / Fraction(op["c"])
                data[op.get("out", op["h"])] = [(v, w * c) for v, w in data[op["h"]]]
            elif name == "copy":
                data[op["out"]] = list(data[op["h"]]) if op.get("with_freq", True) else []
            elif name == "add":
                data[op["out"]] = data[op["a"]] + data[op["b"]]
            elif name == "normalize":
                tot = sum((w for _, w in data[op["h"]]), Fraction(0))
                data[op["h"]] = [(v, w / tot) for v, w in data[op["h"]]]
            for r, pairs in data.items():
                st = o["regs"][r]["stats"] if r < len(o["regs"]) and o["regs"][r] is not None else None
                if st is None:
                    continue
                if not st["valid"]:
                    fails.append(f"stats_invalid_history: statistics of register {r} are invalid after step {k} ({name})")
                    continue
                bad = [f for f in ("weight", "sum", "sum2", "mean", "variance") if isinstance(st.get(f), str) and st[f].lstrip("-") in ("inf", "nan")]
                if bad:
                    fails.append(f"stats_nonfinite_history: register {r} after step {k} ({name}): {bad} are not finite although every value "
                                 f"and weight entered is")
                    continue
                W = sum((w for _, w in pairs), Fraction(0))
                S = sum((w * v for v, w in pairs), Fraction(0))
                S2 = sum((w * v * v for v, w in pairs), Fraction(0))
                tol = lambda x: abs(x) * Fraction(1, 10**9) + Fraction(1, 10**12)
                for f, e in (("weight", W), ("sum", S), ("sum2", S2)):
                    if abs(Fraction(st[f]) - e) > tol(e):
                        fails.append(f"stats_{f}_history: register {r} after step {k} ({name}): {f} = {st[f]}, the raw data (weights rescaled) give {e}")
                for f, e in (("min", min((v for v, _ in pairs), default=None)), ("max", max((v for v, _ in pairs), default=None))):
                    got = None if st[f] is None else Fraction(st[f])
                    if got != e:
                        fails.append(f"stats_{f}_history: register {r} after step {k} ({name}): {f} = {st[f]}, the raw data give {e}")
                if W > 0:
                    mean, var = S / W, (S2 - S * S / W) / W
                    if st["mean"] is None or abs(Fraction(st["mean"]) - mean) > tol(mean):
                        fails.append(f"mean_history: register {r} after step {k} ({name}): mean() = {st['mean']}, weighted mean of the data = {mean}")
                    if st["variance"] is None or abs(Fraction(st["variance"]) - var) > abs(var) * Fraction(1, 10**9) + Fraction(1, 10**9):
                        fails.append(f"variance_history: register {r} after step {k} ({name}): variance() = {st['variance']}, population variance = {var}")
                elif not pairs and (st["mean"] is not None or st["variance"] is not None):
                    fails.append(f"mean_empty_history: register {r} after step {k} ({name}): nothing was entered into it, but mean() = "
                                 f"{st['mean']}, variance() = {st['variance']}")
            if fails:
                break
        return fails[:5]

    # ------------------------------------------------------------------ refused operations in the middle of a history
    def gen_refused_mid(self, rng):
        """one 1-D histogram `a` (adaptive fixed-width, static, gapped, non-adaptive fixed-width) with a history in which
        operations the library REFUSES are mixed with accepted ones, the caller going on with `a` after every refusal:
        `a += b` / `a + b` with a `b` the adaptive `a` cannot take in (missed weight; bins that cannot be made adaptive;
        another width; another alignment), with incompatible static bins; `a -= b` / `a - b` that would make a content
        negative; fill_n with a wrong weights shape; `*=` by a negative number / by an array; `/= 0`; a refused set_dtype;
        a refused merge_bins; a refused HistogramCollection.add -- between fills, batches, accepted additions (same bins,
        or bins the adaptive `a` grows to), copies and rescalings by powers of two.  All values and weights are dyadic:
        the recorded statistics are compared EXACTLY, after every step, with the data of the accepted steps."""
        adaptive = rng.random() < 0.6
        ops, planned = [], []
        if adaptive or rng.random() < 0.25:
            w = rng.choice([1.0, 0.5, 2.0])
            tmin, count = rng.randint(-3, 3), rng.randint(1, 4)
            b = gen1.fixed_json(w, tmin, count, adaptive=adaptive)
            pairs = [[(tmin + i) * w, (tmin + i + 1) * w] for i in range(count)]
        else:
            pairs = dy_bins(rng)
            w = None
            consecutive = all(pairs[i][1] == pairs[i + 1][0] for i in range(len(pairs) - 1))
            b = gen1.binning_json(pairs, form=rng.choice(["pairs", "static_obj"] + (["numpy_obj"] if consecutive else [])))
        lo, hi = pairs[0][0], pairs[-1][1]
        unit = w or 1.0

        def grid_vals(width, t0, cnt, n, spread=0, shift=0.0):
            return [(rng.randint(t0 - spread, t0 + cnt - 1 + spread) + rng.randrange(8) / 8) * width + shift for _ in range(n)]

        def vals(n):          # values `a` takes in: anywhere near for an adaptive one, inside the bins otherwise
            return grid_vals(w, tmin, count, n, spread=5) if adaptive else inrange_values(rng, pairs, n)

        def wts(n, p_none=0.5):
            return None if rng.random() < p_none else [rs(rng.choice([1, 2, 0.5, 0.25])) for _ in range(n)]

        nreg = [1]

        def operand(bj, vs, ws=None, untracked=False):
            """a further histogram over the binning `bj` holding the values `vs`"""
            r = nreg[0]; nreg[0] += 1
            extra = {"untracked": True} if untracked else {}
            if bj["t"] == "fixed" or rng.random() < 0.3:
                ops.append({"op": "empty", "out": r, "binning": bj})
                ops.append({"op": "fill_n", "h": r, "vs": gen1.enc_vals(vs), "ws": ws, "wkind": "float64", **extra})
            else:
                ops.append({"op": "construct", "out": r, "binning": bj, "data": gen1.enc_vals(vs), "weights": ws,
                            "wkind": "float64" if ws else None, **extra})
            return r

        def elsewhere(width, shift=0.0, adaptive_=False):
            """a fixed-width binning (as JSON) away from the bins `a` starts with, and values inside it"""
            t0 = int(hi // width) + rng.randint(2, 5) if rng.random() < 0.7 else int(lo // width) - rng.randint(4, 8)
            cnt = rng.randint(1, 3)
            return gen1.fixed_json(width, t0, cnt, shift=shift, adaptive=adaptive_), grid_vals(width, t0, cnt, rng.choice([1, 2, 3]), shift=shift), t0, cnt

        # --- the histogram itself, with something in it
        n0 = rng.choice([1, 2, 3, 5])
        v0 = vals(n0) if adaptive else inrange_values(rng, pairs, n0)
        if b["t"] == "fixed" or rng.random() < 0.5:
            ops.append({"op": "empty", "out": 0, "binning": b})
            ops.append({"op": "fill_n", "h": 0, "vs": gen1.enc_vals(v0), "ws": wts(n0), "wkind": "float64"})
        else:
            ws0 = wts(n0)
            ops.append({"op": "construct", "out": 0, "binning": b, "data": gen1.enc_vals(v0), "weights": ws0,
                        "wkind": "float64" if ws0 else None})
        cur = 0

        def accepted():
            nonlocal cur
            kinds = ["fill", "fill", "fill_n", "fill_n", "iadd_same", "add_same", "scale", "copy", "copy_empty"]
            if adaptive:
                kinds += ["iadd_grid", "iadd_grid", "add_grid"]
            elif b["t"] == "static":
                kinds += ["coll_add"]
            kind = rng.choice(kinds)
            if kind == "fill":
                wt = rng.choice([1, 1, 2, 0.5, 3])
                ops.append({"op": "fill", "h": cur, "v": rs(vals(1)[0]), "w": rs(wt), "wk": "pyint" if isinstance(wt, int) else "pyfloat",
                            "default_w": wt == 1 and rng.random() < 0.5})
            elif kind == "fill_n":
                m = rng.choice([0, 1, 2, 4])
                ops.append({"op": "fill_n", "h": cur, "vs": gen1.enc_vals(vals(m)), "ws": wts(m), "wkind": "float64"})
            elif kind in ("iadd_same", "add_same", "iadd_grid", "add_grid"):
                m = rng.choice([1, 2, 3])
                if kind.endswith("same"):
                    r = operand(b, vals(m), wts(m, 0.6))
                else:       # other bins of the same grid (adaptive or not, nothing missed): `a` grows to take them in
                    bj, vs, _, _ = elsewhere(w, adaptive_=rng.random() < 0.5)
                    r = operand(bj, vs, wts(len(vs), 0.6))
                if kind.startswith("iadd"):
                    ops.append({"op": "iadd", "h": cur, "o": r})
                else:
                    out = nreg[0]; nreg[0] += 1
                    ops.append({"op": "add", "a": cur, "b": r, "out": out})
                    if rng.random() < 0.5:
                        cur = out
            elif kind == "scale":
                c = rng.choice([2, 4, 0.5, 0.25])
                ops.append({"op": rng.choice(["imul", "idiv"]), "h": cur, "c": rs(c),
                            "k": rng.choice(["pyint", "int64"]) if isinstance(c, int) else rng.choice(["pyfloat", "float64"])})
            elif kind in ("copy", "copy_empty"):
                out = nreg[0]; nreg[0] += 1
                ops.append({"op": "copy", "h": cur, "out": out, **({"with_freq": False} if kind == "copy_empty" else {})})
                if rng.random() < 0.5:
                    cur = out
            else:           # the histogram joins a collection of histograms over the same bins: nothing of it may change
                m = rng.choice([1, 2])
                members = []
                for _ in range(m):
                    r = nreg[0]; nreg[0] += 1
                    ops.append({"op": "empty", "out": r, "binning": b})
                    k_ = rng.choice([0, 1, 3])
                    ops.append({"op": "fill_n", "h": r, "vs": gen1.enc_vals(vals(k_)), "ws": wts(k_, 0.6), "wkind": "float64"})
                    members.append(r)
                out = nreg[0]; nreg[0] += 1
                # (whether two binning objects of different classes over the same bins may share a collection is physt's choice)
                ops.append({"op": "coll_add", "members": members, "h": cur, "out": out, "maybe_refused": True})

        def refused():
            pool = list(REFUSALS_ANY) + (list(REFUSALS_ADAPTIVE) * 2 if adaptive else list(REFUSALS_STATIC) * 2)
            kind = rng.choice(pool)
            inplace = rng.random() < 0.65       # otherwise the copying form: the refused copy is discarded
            mark = {"expect_refused": True, "refusal": kind + ("" if inplace else ":copy")}
            planned.append(mark["refusal"])

            def plus(r):
                if inplace:
                    ops.append({"op": "iadd", "h": cur, "o": r, **mark})
                else:
                    out = nreg[0]; nreg[0] += 1
                    ops.append({"op": "add", "a": cur, "b": r, "out": out, **mark})

            if kind == "iadd_missed":
                # the other operand kept weight outside its bins (non-adaptive bins of the same grid, elsewhere)
                bj, vs, t0, cnt = elsewhere(w)
                out_v = (t0 + cnt + rng.randint(0, 3) + 0.5) * w if rng.random() < 0.6 else (t0 - rng.randint(1, 3) + 0.25) * w
                vs = vs + [out_v]
                rng.shuffle(vs)
                plus(operand(bj, vs, wts(len(vs), 0.6), untracked=True))
            elif kind == "iadd_not_adaptable":
                # static / numpy bins (a width `a` never has, so never the same bins): cannot be made adaptive
                e0 = (int(hi // unit) + rng.randint(1, 4)) * unit if rng.random() < 0.7 else (int(lo // unit) - rng.randint(4, 7)) * unit
                n2 = rng.randint(1, 3)
                p2 = [[e0 + 0.75 * unit * i, e0 + 0.75 * unit * (i + 1)] for i in range(n2)]
                bj = gen1.binning_json(p2, form=rng.choice(["pairs", "static_obj", "numpy_obj", "edges"]))
                m = rng.choice([1, 2, 3])
                plus(operand(bj, inrange_values(rng, p2, m), wts(m, 0.6)))
            elif kind == "iadd_other_width":
                w2 = w * rng.choice([2, 0.5, 3, 1.5])
                bj, vs, _, _ = elsewhere(w2, adaptive_=rng.random() < 0.6)
                plus(operand(bj, vs, wts(len(vs), 0.6)))
            elif kind == "iadd_other_shift":
                bj, vs, _, _ = elsewhere(w, shift=w * rng.choice([0.25, 0.5]), adaptive_=rng.random() < 0.6)
                plus(operand(bj, vs, wts(len(vs), 0.6)))
            elif kind == "iadd_incompatible":
                if rng.random() < 0.6:      # one bin more than `a` has
                    base = rng.randint(-4, 4)
                    p2 = [[float(base + i), float(base + i + 1)] for i in range(len(pairs) + 1)]
                    bj = gen1.binning_json(p2, form=rng.choice(["pairs", "static_obj"]))
                    m = rng.choice([1, 2, 3])
                    plus(operand(bj, inrange_values(rng, p2, m), wts(m, 0.6)))
                else:                       # an adaptive fixed-width histogram (the left operand is not adaptive)
                    bj, vs, _, _ = elsewhere(unit, adaptive_=True)
                    plus(operand(bj, vs, wts(len(vs), 0.6)))
            elif kind == "coll_add_incompatible":
                base = rng.randint(-4, 4)
                p2 = [[float(base + i), float(base + i + 1)] for i in range(len(pairs) + 1)]
                bj = gen1.binning_json(p2, form="static_obj")
                m = rng.choice([1, 2])
                r = operand(bj, inrange_values(rng, p2, m), None)
                out = nreg[0]; nreg[0] += 1
                mark["refusal"] = planned[-1] = kind
                ops.append({"op": "coll_add", "members": [r], "h": cur, "out": out, **mark})
            elif kind == "isub_negative":
                # the same bins `a` started with, one bin holding far more than `a` does
                r = operand(b, [inrange_values(rng, pairs, 1)[0]], [rs(BIG_W)])
                if inplace:
                    ops.append({"op": "isub", "h": cur, "o": r, **mark})
                else:
                    out = nreg[0]; nreg[0] += 1
                    ops.append({"op": "sub", "a": cur, "b": r, "out": out, **mark})
            elif kind == "fill_n_wshape":
                m = rng.choice([2, 3, 4])
                mark["refusal"] = planned[-1] = kind
                ops.append({"op": "fill_n", "h": cur, "vs": gen1.enc_vals(vals(m)), "wkind": "float64",
                            "ws": [rs(rng.choice([1, 2, 0.5])) for _ in range(m + rng.choice([-1, 1, 2]))], **mark})
            elif kind == "imul_negative":
                c = rng.choice([-1, -2, -0.5])
                op = {"op": "imul" if inplace else "mul", "h": cur, "c": rs(c), "k": "pyint" if isinstance(c, int) else "pyfloat", **mark}
                if not inplace:
                    op["out"] = nreg[0]; nreg[0] += 1
                ops.append(op)
            elif kind == "imul_array":
                ops.append({"op": "invalid", "what": "imul_array" if inplace else "mul_array", "h": cur, **mark})
            elif kind == "idiv_zero":
                op = {"op": "idiv" if inplace else "div", "h": cur, "c": "0", "k": rng.choice(["pyint", "pyfloat"]), **mark}
                if not inplace:
                    op["out"] = nreg[0]; nreg[0] += 1
                ops.append(op)
            elif kind == "set_dtype":
                # a quarter of a count entered just before: the contents are not integral
                mark["refusal"] = planned[-1] = kind
                ops.append({"op": "fill", "h": cur, "v": rs(vals(1)[0]), "w": "1/4", "wk": "pyfloat"})
                ops.append({"op": "set_dtype", "h": cur, "dtype": rng.choice(["int64", "int32", "int16"]),
                            "via_property": rng.random() < 0.5, **mark})
            else:           # merge_bins without an amount / with the amount 0
                op = {"op": "merge", "h": cur, "inplace": inplace, **mark}
                if rng.random() < 0.5:
                    op["amount"] = 0
                if not inplace:
                    op["out"] = nreg[0]; nreg[0] += 1
                ops.append(op)

        for _ in range(rng.randint(3, 7)):
            if rng.random() < 0.45:
                refused()
            else:
                accepted()
        if not planned:
            refused()
        # the caller goes on: more data and an accepted addition after the last refusal
        ops.append({"op": "fill", "h": cur, "v": rs(vals(1)[0]), "w": "1", "wk": "pyint", "default_w": rng.random() < 0.5})
        if rng.random() < 0.6:
            m = rng.choice([1, 2])
            r = operand(b, vals(m), wts(m, 0.6))
            ops.append({"op": "iadd", "h": cur, "o": r})
        return {"kind": "hist1", "ops": ops, "stream": "refused_mid_history",
                "tags": ["stream:refused_mid_history", "refused_mid:" + ("adaptive" if adaptive else b["t"])]}

    # the op `coll_add` (HistogramCollection(*members).add(h); out := collection.sum()) is not in the generic op language:
    # it is run here, and handed to the model as the sum it stands for (accepted) / as a refused call (refused)
    @staticmethod
    def _coll_add(s, op, log):
        from physt.histogram_collection import HistogramCollection
        try:
            col = HistogramCollection(*[s.get(m) for m in op["members"]])
            col.add(s.get(op["h"]))
            s.set(op["out"], col.sum())
            return "ok"
        except Exception as e:      # refused: the class of the exception is recorded, never compared
            log.append(f"coll_add: {type(e).__name__}: {e}"[:200])
            return impl1.REFUSED

    # ---- ops run here, outside the generic op language (all through the public API; a refused call gives REFUSED)
    @staticmethod
    def _points(ps):
        return np.array([[impl1.fl(x) for x in p] for p in ps], dtype=float).reshape(-1, 2)

    def _local(self, s, op, log, case):
        name = op["op"]
        try:
            if name == "coll_add":
                return self._coll_add(s, op, log)
            if name == "construct_t":       # radial(x, y, bins=...) / azimuthal(x, y, bins=...): built from data
                import physt.special_histograms as sh
                pts = self._points(op["ps"])
                w = None if op.get("weights") is None else impl1.arr(op["weights"], np.dtype(op.get("wkind") or "float64"))
                facade = sh.radial if op["klass"] == "RadialHistogram" else sh.azimuthal
                s.set(op["out"], facade(pts[:, 0], pts[:, 1], bins=impl1.mk_binning(op["binning"]), weights=w))
                return "ok"
            if name == "empty_t":           # the class over the bins, nothing entered yet
                import physt.special_histograms as sh
                s.set(op["out"], getattr(sh, op["klass"])(impl1.mk_binning(op["binning"])))
                return "ok"
            if name == "nd_proj":           # a 1-D projection of a 2-D histogram built from data
                pts = self._points(op["ps"])
                if op.get("klass") == "polar":
                    import physt.special_histograms as sh
                    h2 = sh.polar(pts[:, 0], pts[:, 1], radial_bins=impl1.mk_binning(op["bins"][0]), phi_bins=impl1.mk_binning(op["bins"][1]))
                else:
                    import physt
                    h2 = physt.h2(pts[:, 0], pts[:, 1], [impl1.mk_binning(b) for b in op["bins"]])
                s.set(op["out"], h2.projection(op["axis"]))
                return "ok"
            if name == "reload":            # written and read back: to_dict / from_dict, to_json / parse_json
                h = s.get(op["h"])
                if op["via"] == "dict":
                    r = type(h).from_dict(h.to_dict())
                else:
                    from physt.io import parse_json
                    r = parse_json(h.to_json())
                s.set(op["out"], r)
                return "ok"
            if name == "array_arith":       # h (*, +, -, /) an array, with free arithmetics switched on
                from physt.config import config
                h = s.get(op["h"])
                a = impl1.arr(op["arr"], np.dtype(op.get("ak") or "float64"))
                with config.enable_free_arithmetics():
                    if op.get("inplace"):
                        if op["kind"] == "mul":
                            h *= a
                        elif op["kind"] == "add":
                            h += a
                        elif op["kind"] == "sub":
                            h -= a
                        else:
                            h /= a
                        s.set(op["h"], h)
                    else:
                        r = h * a if op["kind"] == "mul" else h + a if op["kind"] == "add" else h - a if op["kind"] == "sub" else h / a
                        s.set(op["out"], r)
                return "ok"
            if name == "lshift":            # h << value (h << [x, y] for the transformed classes)
                h = s.get(op["h"])
                h << (impl1.fl(op["v"]) if "v" in op else [impl1.fl(x) for x in op["p"]])
                return "ok"
            if name == "fill_pt":
                h = s.get(op["h"])
                p = [impl1.fl(x) for x in op["p"]]
                w = impl1.num_of(op["w"], op["wk"])
                ix = h.fill(p) if (op["wk"] == "pyint" and w == 1 and op.get("default_w")) else h.fill(p, w)
                return impl1.fb_json(ix, h)
            if name == "fill_n_pts":
                h = s.get(op["h"])
                ws = None if op.get("ws") is None else impl1.arr(op["ws"], np.dtype(op.get("wkind") or "float64"))
                h.fill_n(self._points(op["ps"]), ws)
                return "ok"
            if name == "new_on_binning":    # type(h)(h.binning) / type(h)(h.binning.copy()): a new histogram over the bins of h
                h = s.get(op["h"])
                s.set(op["out"], type(h)(h.binning.copy() if op.get("copy") else h.binning))
                return "ok"
            if name == "coll_create":       # HistogramCollection(h).create(name, values, weights=...): a member over the bins of h
                from physt.histogram_collection import HistogramCollection
                col = HistogramCollection(s.get(op["h"]))
                ws = None if op.get("ws") is None else impl1.arr(op["ws"], np.dtype(op.get("wkind") or "float64"))
                s.set(op["out"], col.create("created", impl1.arr(op["vs"]), weights=ws))
                return "ok"
            if name == "mul0":              # h / inf: every content times 0
                s.set(op["out"], s.get(op["h"]) / float("inf"))
                return "ok"
            if name == "fill_chunks":       # the data (and weights) of the construct op `data_of`, entered in chunks
                src = case["ops"][op["data_of"]]
                vs = impl1.arr(src["data"])
                ws = None if src.get("weights") is None else impl1.arr(src["weights"], np.dtype(src.get("wkind") or "float64"))
                h, c = s.get(op["h"]), op["chunk"]
                for a in range(0, len(vs), c):
                    h.fill_n(vs[a:a + c], None if ws is None else ws[a:a + c])
                return "ok"
            raise KeyError(name)
        except KeyError:
            raise
        except Exception as e:      # refused: the class of the exception is recorded, never compared
            log.append(f"{name}: {type(e).__name__}: {e}"[:200])
            return impl1.REFUSED

    LOCAL = ("coll_add", "construct_t", "empty_t", "nd_proj", "reload", "array_arith", "lshift", "fill_pt", "fill_n_pts", "fill_chunks",
             "new_on_binning", "coll_create", "mul0")

    def _run(self, case, observe=True):
        """every C14 case is run here: the generic ops through impl1.step, the others above; every snapshot also holds ALL
        readings of the statistics (`_all`).  observe=False: nothing is read between the operations.  A case marked
        `sparse` (thousands of values, some entered one by one) is observed after its last operation only."""
        s, outs, log, ret = impl1.Store(), [], [], None
        observe = observe and not case.get("sparse")
        for op in case["ops"]:
            ret = self._local(s, op, log, case) if op["op"] in self.LOCAL else impl1.step(s, op, log)
            if observe:
                outs.append({"ret": ret, "regs": [None if h is None else snap(h) for h in s.regs]})
            elif case.get("sparse"):
                outs.append({"ret": ret, "regs": []})
        last = {"ret": ret, "regs": [None if h is None else snap(h) for h in s.regs]}
        if case.get("sparse"):
            outs[-1] = last
            return outs, log
        if observe:
            return outs, log
        return last

    def run_impl(self, case):
        outs, log = self._run(case)
        if case.get("sparse") or len(case["ops"]) < 2:
            return {"outs": outs, "log": log}
        # (the second run reads nothing between the operations: see Hist1Prop.run_impl)
        return {"outs": outs, "log": log, "unobserved_outs": outs[:-1] + [self._run(case, observe=False)]}

    def model_case(self, case, io):
        """the case as the Lean driver understands it; None = the model cannot express it (oracle only)"""
        if case.get("sparse"):
            return None
        if case.get("stream") == "template":
            # the transformed classes, a collection's create, h / inf are not in the model: oracle only.  type(h)(h.binning) goes
            # to the model as the empty histogram over those bins that it is.
            if case.get("klass") or any(o["op"] in ("coll_create", "mul0") for o in case["ops"]):
                return None
            return {**case, "ops": [({"op": "empty", "out": o["out"], "binning": o["binning"]} if o["op"] == "new_on_binning" else o)
                                    for o in case["ops"]]}
        if case.get("stream") == "invalid_history":
            # ops run here only (projection, write / read, array arithmetic, transformed classes): oracle only
            if any((o["op"] in self.LOCAL and o["op"] != "lshift") or o.get("klass") for o in case["ops"]):
                return None
            # `h << v` is fill(v) with the default weight
            return {**case, "ops": [({"op": "fill", "h": o["h"], "v": o["v"], "w": "1", "wk": "pyint"} if o["op"] == "lshift" else o)
                                    for o in case["ops"]]}
        if case.get("stream") != "refused_mid_history" or not any(o["op"] == "coll_add" for o in case["ops"]):
            return case
        ops = []
        for op, o in zip(case["ops"], io["outs"]):
            if op["op"] != "coll_add":
                ops.append(op)
            elif o["ret"] == "ok":
                ops.append({"op": "sum", "hs": list(op["members"]) + [op["h"]], "out": op["out"]})
            else:
                ops.append({"op": "invalid", "what": "coll_add", "h": op["h"]})
        return {**case, "ops": ops}

    def diff(self, case, model_ok, io):
        if case.get("stream") == "invalid_history" and isinstance(model_ok, list):
            # `h << v` went to the model as fill(v), which answers with the bin; the operator answers nothing
            model_ok = [({**m, "ret": "ok"} if op["op"] == "lshift" and isinstance(m, dict) and m.get("ret") != "REFUSED" else m)
                        for op, m in zip(case["ops"], model_ok)] + list(model_ok[len(case["ops"]):])
        return super().diff(case, model_ok, io)

    def tags(self, case, io):
        t = super().tags(case, io)
        if case.get("stream") == "template":
            t.append("kind:tpl_through_model=" + ("no" if self.model_case(case, io) is None else "yes"))
        if case.get("stream") == "invalid_history":
            t.append("kind:inv_through_model=" + ("no" if self.model_case(case, io) is None else "yes"))
        if case.get("stream") == "refused_mid_history":
            for op, o in zip(case["ops"], io["outs"]):
                if op.get("refusal"):
                    t.append(("kind:refused=" if o["ret"] == "REFUSED" else "kind:NOT_refused=") + op["refusal"])
        return t

    @staticmethod
    def invalid_fails(snapshot, where):
        """statistics that must read as invalid: EVERY reading (weight, sum, sum2, min, max, median, mean(), variance(),
        std()) must be NaN -- a finite extreme beside NaN sums is a wrong number"""
        nums = numbers_of(snapshot)
        if not nums:
            return []
        if len(nums) == len(READINGS) or nums == ["weight/sum"]:
            return [f"not_invalidated: {where}: the statistics still read as valid numbers ({', '.join(nums[:5])} ...)"]
        return [f"not_invalidated: {where}: the statistics cannot be known here and must read as NaN throughout, but {', '.join(nums)}"
                f" (the other readings are NaN)"]

    @staticmethod
    def stats_fails(st, pairs, where, snapshot=None, rtol=None, xtol=None, extremes=True):
        """the statistics `st` read from a histogram against the raw (value, weight) pairs entered: sums exactly (dyadic
        data; within the relative tolerance `rtol` where the weights are not dyadic), extremes exactly, the derived moments
        within rounding; pairs == INVALID: every number must read as NaN"""
        if pairs == INVALID:
            return C14.invalid_fails(snapshot if snapshot is not None else {"stats": st}, where)
        if not st["valid"]:
            return [f"stats_invalid_history: {where}: the statistics read as invalid"]

        def num(x):
            try:
                return None if x is None else Fraction(x)
            except ValueError:
                return x
        fails = []
        W = sum((w for _, w in pairs), Fraction(0))
        S = sum((w * v for v, w in pairs), Fraction(0))
        S2 = sum((w * v * v for v, w in pairs), Fraction(0))
        for f, e in (("weight", W), ("sum", S), ("sum2", S2), ("min", min((v for v, _ in pairs), default=None)),
                     ("max", max((v for v, _ in pairs), default=None))):
            got = num(st[f])
            if f in ("min", "max") and not extremes:
                continue        # (not pinned on this register: see TEMPLATE_MUL0_EXTREMES)
            if f in ("min", "max") and xtol is not None and isinstance(got, Fraction) and e is not None:
                # values the library computes itself from the points entered (radius, azimuth): equal to rounding
                if abs(got - e) > xtol * max(abs(e), 1):
                    fails.append(f"stats_{f}_history: {where}: {f} = {float(got)!r}, the data entered give {float(e)!r}")
                continue
            if rtol is not None and f in ("weight", "sum", "sum2"):
                if not isinstance(got, Fraction) or abs(got - e) > rtol * abs(e):
                    fails.append(f"stats_{f}_history: {where}: {f} = {st[f]} = {float(got) if isinstance(got, Fraction) else got!r}, the (value, weight) "
                                 f"pairs entered give {float(e)!r} (relative difference "
                                 f"{float(abs(got - e) / abs(e)) if isinstance(got, Fraction) and e else 'n/a'}, allowed {float(rtol)})")
            elif got != e:
                fails.append(f"stats_{f}_history: {where}: {f} = {st[f]}, the data entered by the accepted steps give {e}")
        if fails:
            return fails
        if W == 0:
            if st["mean"] is not None:
                fails.append(f"mean_empty_history: {where}: weight 0 but mean() = {st['mean']}")
        elif W > 0:
            mean, var = S / W, (S2 - S * S / W) / W
            slack = lambda x: abs(x) * Fraction(1, 10**9) + Fraction(1, 10**9)
            if not isinstance(num(st["mean"]), Fraction) or abs(num(st["mean"]) - mean) > slack(mean):
                fails.append(f"mean_history: {where}: mean() = {st['mean']}, weighted mean of the data = {mean}")
            if not isinstance(num(st["variance"]), Fraction) or abs(num(st["variance"]) - var) > slack(var):
                fails.append(f"variance_history: {where}: variance() = {st['variance']}, population variance of the data = {var}")
            elif isinstance(num(st.get("_std")), Fraction):
                sd = num(st["_std"])
                if sd < 0 or abs(sd * sd - var) > slack(var):
                    fails.append(f"std_history: {where}: std() = {float(sd)}, its square is not the population variance {float(var)}")
        return fails

    def oracle_refused_mid(self, case, io):
        """per register, the raw (value, weight) pairs entered by the steps the library ACCEPTED (its own answer decides:
        a refused step enters nothing, whatever was planned), weights rescaled by the accepted rescalings; the recorded
        statistics of every register are compared with them after every step, the refused ones included.  A register is no
        longer followed (None) once something the property does not pin has happened to it (weight outside the bins, an
        accepted negative factor ...); after an accepted subtraction the statistics must read as invalid."""
        data, fails = {}, []

        def both(x, y, f):
            if x is None or y is None:
                return None
            return INVALID if INVALID in (x, y) else f(x, y)

        for k, (op, o) in enumerate(zip(case["ops"], io["outs"])):
            name, ret = op["op"], o["ret"]
            if ret == "REFUSED":
                if not (op.get("expect_refused") or op.get("maybe_refused")):
                    if any(x in op and op[x] not in data for x in ("h", "a", "b", "o")):
                        break       # an operand was never created (its creation was refused and reported there)
                    return [f"refused_valid: step {k} ({name}) was refused: " + "; ".join(io["log"][-1:])]
            elif name == "construct":
                data[op["out"]] = None if op.get("untracked") else [
                    (Fraction(v), Fraction(w)) for v, w in zip(op["data"], op["weights"] or ["1"] * len(op["data"]))]
            elif name == "empty":
                data[op["out"]] = []
            elif name == "fill":
                if isinstance(ret, int) and not isinstance(ret, bool) and ret >= 0 and data.get(op["h"]) not in (None, INVALID):
                    data[op["h"]] = data[op["h"]] + [(Fraction(op["v"]), Fraction(op["w"]))]
                elif data.get(op["h"]) != INVALID:
                    data[op["h"]] = None
            elif name == "fill_n":
                h = op["h"]
                if op.get("untracked") or op.get("expect_refused") or data.get(h) is None:
                    data[h] = None
                elif data[h] != INVALID:
                    data[h] = data[h] + [(Fraction(v), Fraction(w)) for v, w in zip(op["vs"], op["ws"] or ["1"] * len(op["vs"]))]
            elif name in ("iadd", "add"):
                x, y = (op["h"], op["o"]) if name == "iadd" else (op["a"], op["b"])
                data[op.get("out", x)] = both(data.get(x), data.get(y), lambda p, q: p + q)
            elif name in ("isub", "sub"):
                x, y = (op["h"], op["o"]) if name == "isub" else (op["a"], op["b"])
                data[op.get("out", x)] = both(data.get(x), data.get(y), lambda p, q: INVALID)
            elif name in ("imul", "idiv", "mul", "div"):
                c = Fraction(op["c"])
                src = data.get(op["h"])
                if c <= 0 or src is None:
                    data[op.get("out", op["h"])] = None
                elif src == INVALID:
                    data[op.get("out", op["h"])] = INVALID
                else:
                    c = c if name in ("imul", "mul") else 1 / c
                    data[op.get("out", op["h"])] = [(v, w * c) for v, w in src]
            elif name == "copy":        # (an empty copy holds nothing, whatever its source held)
                data[op["out"]] = data.get(op["h"]) if op.get("with_freq", True) else []
            elif name == "coll_add":
                srcs = [data.get(r) for r in list(op["members"]) + [op["h"]]]
                data[op["out"]] = None if any(x is None for x in srcs) else INVALID if INVALID in srcs else [p for x in srcs for p in x]
            elif name in ("set_dtype", "merge"):
                if "out" in op:
                    data[op["out"]] = data.get(op["h"])
            else:       # an `invalid` call that was accepted: nothing is pinned afterwards
                data[op["h"]] = None
            for r, pairs in data.items():
                snap = o["regs"][r] if r < len(o["regs"]) else None
                if pairs is None or snap is None:
                    continue
                what = f"register {r} after step {k} ({name}" + (f", REFUSED: {op.get('refusal', '')}" if ret == "REFUSED" else "") + ")"
                fails += self.stats_fails(snap["stats"], pairs, what, snap)
            if fails:
                break
        return fails[:5]

    # ------------------------------------------------------------------ content type narrower than the weights
    def gen_narrow_content(self, rng, large, dtype=None):
        """the statistics are kept in double precision whatever the content type: histograms whose content dtype (float16,
        float32, int16) is NARROWER than the weights given (float64 weights that float32 cannot hold: tenths, 2**24 + 1 ...)
        or than the implicit unit weights (thousands of values, more than 2048 of them in one bin, so that a sum carried
        in float16 would lose counts), built by h1(data, bins, weights=w, dtype=...) and by fill_n into an empty histogram of
        that dtype in one chunk, in chunks, and value by value; then a sum, a copy, a rescaling.  The recorded weight / sum /
        sum2 are the exact sums of the (value, weight) pairs (dyadic data and weights: exactly; tenths: to 1e-12), the
        same for every content type and every chunking; min / max exactly."""
        pairs = dy_bins(rng)
        b = gen1.binning_json(pairs, rng=rng, form="pairs")
        dt = dtype or rng.choice(["float32", "float32", "float16", "int16"])
        if large:
            heavy = rng.choice(pairs)
            vals = inrange_values(rng, [heavy], rng.randint(2100, 2600)) + inrange_values(rng, pairs, rng.randint(50, 500))
            rng.shuffle(vals)
        else:
            vals = inrange_values(rng, pairs, rng.choice([2, 3, 5, 8, 13]))
        n = len(vals)
        kinds = {"float32": ["none", "tenths", "tenths", "big_f", "big_i", "dyadic"],
                 "float16": ["none", "none", "none", "tenths"] if large else ["none", "tenths", "tenths", "dyadic"],
                 "int16": ["none"] if large else ["none", "small_int", "small_int"]}[dt]
        wkind = rng.choice(kinds)
        ws, wk, exact = None, None, True
        if wkind == "tenths":           # decimal fractions: doubles that neither float32 nor float16 can hold
            ws, wk, exact = [rng.choice([0.1, 0.2, 0.3, 0.7, 1.1]) for _ in range(n)], "float64", False
        elif wkind in ("big_f", "big_i"):       # whole numbers just above 2**24: doubles / int64 that float32 cannot hold
            ws, wk = [2**24 + rng.choice([1, 3, 5]) for _ in range(n)], "float64" if wkind == "big_f" else "int64"
        elif wkind == "dyadic":
            ws, wk = [rng.choice([0.5, 0.25, 2, 1.5]) for _ in range(n)], "float64"
        elif wkind == "small_int":
            ws, wk = [rng.choice([1, 2, 3]) for _ in range(n)], "int64"
        src = {"binning": b, "vals": gen1.enc_vals(vals), "ws": None if ws is None else [rs(w) for w in ws], "wk": wk, "dtype": dt,
               "large": bool(large), "exact": exact, "wkind": wkind,
               "chunk": rng.choice([500, 500, 700, 300]) if large else rng.choice([2, 3, 5])}
        return self.build_narrow(src)

    @staticmethod
    def build_narrow(src):
        b, vals, ws, wk, dt = src["binning"], src["vals"], src["ws"], src["wk"], src["dtype"]
        n = len(vals)
        ops = [{"op": "construct", "out": 0, "binning": b, "data": vals, "weights": ws, "wkind": wk, "dtype": dt}]

        def chunked(reg, c):
            ops.append({"op": "empty", "out": reg, "binning": b, "dtype": dt})
            if src["large"]:
                ops.append({"op": "fill_chunks", "h": reg, "chunk": c, "data_of": 0})
            else:
                for a in range(0, max(n, 1), c):
                    ops.append({"op": "fill_n", "h": reg, "vs": vals[a:a + c], "ws": None if ws is None else ws[a:a + c], "wkind": wk})
        chunked(1, max(n, 1))       # one chunk
        chunked(2, src["chunk"])
        chunked(3, 1)               # value by value
        ops.append({"op": "add", "a": 1, "b": 2, "out": 4})
        ops.append({"op": "copy", "h": 0, "out": 5})
        ops.append({"op": "mul", "h": 0, "c": "2", "k": "pyint", "out": 6})
        case = {"kind": "hist1", "ops": ops, "stream": "narrow_content", "src": src, "tolerance": True,
                "tags": ["stream:narrow_content", "kind:narrow_dtype=" + dt, "kind:narrow_weights=" + src.get("wkind", "?"),
                         "kind:narrow_size=" + ("large" if src["large"] else "small")]}
        if src["large"]:
            case["sparse"] = True
        return case

    def oracle_narrow(self, case, io):
        """the (value, weight) pairs every register holds, from the operations; the recorded statistics against their exact sums"""
        src = case["src"]
        rtol = None if src["exact"] else Fraction(1, 10**12)
        c0 = case["ops"][0]
        base = [(Fraction(v), Fraction(w)) for v, w in zip(c0["data"], c0["weights"] or ["1"] * len(c0["data"]))]
        data, fails = {}, []
        for k, (op, o) in enumerate(zip(case["ops"], io["outs"])):
            name = op["op"]
            if o["ret"] == "REFUSED":
                return [f"refused_valid: step {k} ({name}, content type {src['dtype']}) was refused: " + "; ".join(io["log"][-1:])]
            if name == "construct":
                data[op["out"]] = list(base)
            elif name == "empty":
                data[op["out"]] = []
            elif name == "fill_chunks":
                data[op["h"]] = data[op["h"]] + base
            elif name == "fill_n":
                data[op["h"]] = data[op["h"]] + [(Fraction(v), Fraction(w)) for v, w in zip(op["vs"], op["ws"] or ["1"] * len(op["vs"]))]
            elif name == "add":
                data[op["out"]] = data[op["a"]] + data[op["b"]]
            elif name == "copy":
                data[op["out"]] = list(data[op["h"]])
            elif name == "mul":
                data[op["out"]] = [(v, w * Fraction(op["c"])) for v, w in data[op["h"]]]
            how = {0: "h1(data, bins, weights, dtype)", 1: "fill_n, one chunk", 2: f"fill_n, chunks of {src['chunk']}", 3: "fill_n, value by value",
                   4: "sum of the one-chunk and the chunked histogram", 5: "copy", 6: "2 * histogram"}
            for r, pairs in data.items():
                sn = o["regs"][r] if r < len(o["regs"]) else None
                if sn is None:
                    continue
                what = (f"content type {src['dtype']}, weights {src.get('wkind')}: register {r} ({how.get(r, '')}) "
                        + ("at the end of the history" if case.get("sparse") else f"after step {k} ({name})"))
                fails += self.stats_fails(sn["stats"], pairs, what, sn, rtol)
            if fails:
                break
        if not fails and src["ws"] is None and base and io["outs"][-1]["regs"]:
            st0 = io["outs"][-1]["regs"][0]["stats"]
            sv = sorted(v for v, _ in base)
            m = len(sv)
            med = sv[m // 2] if m % 2 else (sv[m // 2 - 1] + sv[m // 2]) / 2
            if st0["valid"] and (st0["median"] is None or Fraction(st0["median"]) != med):
                fails.append(f"median: content type {src['dtype']}: median after unweighted construction is {st0['median']}, data median is {med}")
        return fails[:5]

    # ------------------------------------------------------------------ invalid statistics stay invalid
    def gen_invalid_history(self, rng):
        """a histogram whose statistics cannot be known -- built from bare frequencies, a slice, a projection of a 2-D
        histogram, read back from a dict / JSON, the result of a subtraction or of array arithmetic (free arithmetics), a
        sum or copy of such -- followed by a HISTORY of everything that touches the statistics: fill (one value, several,
        with and without weight), `h << x`, fill_n, + and += with partners built from data and partners without
        statistics in both orders, * / *= /=, copy, merge_bins, set_dtype, normalize, write / read; on Histogram1D and on
        the transformed 1-D classes (RadialHistogram, AzimuthalHistogram).  After EVERY step every reading of the
        statistics of every such histogram (weight, sum, sum2, min, max, median, mean(), variance(), std()) must be NaN."""
        klass = rng.choice([None, None, None, "RadialHistogram", "AzimuthalHistogram"])
        plain_only = klass is None and rng.random() < 0.6        # only ops the Lean model has: the case goes through the model too
        if klass is None:
            pairs = dy_bins(rng)
        else:
            top = 6.25 if klass == "AzimuthalHistogram" else 16.0
            e = [rng.choice([0.0, 0.0, 0.5, 1.0])]
            for _ in range(rng.randint(2, 5)):
                nxt = e[-1] + rng.choice([0.5, 1.0, 1.5, 2.0])
                if nxt > top:
                    break
                e.append(nxt)
            if len(e) < 3:
                e = [0.0, 1.0, 2.0, 4.0]
            pairs = [[e[i], e[i + 1]] for i in range(len(e) - 1)]
        state = {"pairs": pairs}
        ops, nreg = [], [0]

        def bj():
            p = state["pairs"]
            consecutive = all(p[i][1] == p[i + 1][0] for i in range(len(p) - 1))
            return gen1.binning_json(p, form=rng.choice(["pairs", "static_obj"] + (["numpy_obj"] if consecutive else [])))

        def new():
            r = nreg[0]; nreg[0] += 1
            return r

        def coord():        # a coordinate strictly inside a bin
            l, r = rng.choice(state["pairs"])
            return l + (r - l) * rng.choice([1, 2, 3, 4, 5, 6, 7]) / 8

        def point(c):       # a point of the plane whose radius / azimuth is (to rounding) the coordinate c
            if klass == "RadialHistogram":
                return [rs(c * 0.6), rs(c * 0.8)]
            rho = rng.choice([1.0, 2.0, 0.5])
            return [rs(rho * math.cos(c)), rs(rho * math.sin(c))]

        def wts(n, p_none=0.5):
            return None if rng.random() < p_none else [rs(rng.choice([1, 2, 0.5, 0.25])) for _ in range(n)]

        def from_data(n=None, weights=True):
            """a histogram over the current bins built from data (valid statistics)"""
            n = n or rng.choice([1, 2, 3, 5])
            r = new()
            ws = wts(n, 0.6) if weights else None
            if klass is None:
                ops.append({"op": "construct", "out": r, "binning": bj(), "data": gen1.enc_vals([coord() for _ in range(n)]), "weights": ws,
                            "wkind": "float64" if ws else None})
            else:
                ops.append({"op": "construct_t", "klass": klass, "out": r, "binning": bj(), "ps": [point(coord()) for _ in range(n)],
                            "weights": ws, "wkind": "float64" if ws else None})
            return r

        def bare(dtype=None):
            """a histogram over the current bins built from bare frequencies (no statistics)"""
            r = new()
            dtype = dtype or rng.choice(["int64", "int64", "float64"])
            ops.append({"op": "of_arrays", "out": r, "binning": bj(), "freq": [rs(rng.randint(0, 5)) for _ in state["pairs"]], "err2": None,
                        "under": "0", "over": "0", "inner": "0", "dtype": dtype, **({"klass": klass} if klass else {})})
            return r

        # --- where the unknown statistics come from
        sources = ["bare", "bare", "slice", "sub", "sum_of", "copy_of"] + ([] if plain_only else ["proj", "proj", "reload", "reload", "array", "array"])
        source = rng.choice(sources)
        if source == "slice" and len(pairs) < 2:
            source = "bare"
        if source == "bare":
            cur = bare()
        elif source == "slice":
            a = from_data(rng.choice([2, 3, 5]))
            n = len(pairs)
            start, stop = rng.choice([(1, None), (0, n - 1), (1, n)] if n > 2 else [(1, None), (0, n - 1)])
            cur = new()
            ops.append({"op": "slice", "h": a, "start": start, "stop": stop, "out": cur})
            state["pairs"] = pairs[start:stop]
        elif source == "sub":
            a = from_data(rng.choice([3, 5]), weights=False)
            first = ops[-1]
            b_ = new()      # the same bins, one of the same values: nothing goes negative
            if klass is None:
                ops.append({**first, "out": b_, "data": first["data"][:1]})
            else:
                ops.append({**first, "out": b_, "ps": first["ps"][:1]})
            cur = new()
            ops.append({"op": "sub", "a": a, "b": b_, "out": cur, **({"free": True} if rng.random() < 0.3 else {})})
        elif source == "sum_of":
            x, y = bare(), from_data()
            cur = new()
            a_, b_ = (x, y) if rng.random() < 0.5 else (y, x)
            ops.append({"op": "add", "a": a_, "b": b_, "out": cur})
        elif source == "copy_of":
            x = bare()
            cur = new()
            ops.append({"op": "copy", "h": x, "out": cur})
        elif source == "proj":
            cur = new()
            if klass is None:
                other = dy_bins(rng)
                axis = rng.choice([0, 1])
                ps = []
                for _ in range(rng.choice([1, 3, 5])):
                    l, r = rng.choice(other)
                    o_ = l + (r - l) * rng.choice([1, 3, 5]) / 8
                    ps.append([rs(coord()), rs(o_)] if axis == 0 else [rs(o_), rs(coord())])
                bins = [gen1.binning_json(pairs, form="static_obj"), gen1.binning_json(other, form="static_obj")]
                ops.append({"op": "nd_proj", "klass": "h2", "out": cur, "ps": ps, "bins": bins if axis == 0 else bins[::-1], "axis": axis})
            else:
                radial = klass == "RadialHistogram"
                rb = pairs if radial else [[0.0, 1.0], [1.0, 2.0], [2.0, 4.0]]
                pb = pairs if not radial else [[0.0, 1.5], [1.5, 3.0], [3.0, 4.5], [4.5, 6.5]]
                ps = []
                for _ in range(rng.choice([1, 3, 5])):
                    r_ = coord() if radial else rng.choice([0.5, 1.5, 3.0])
                    f_ = coord() if not radial else rng.choice([0.5, 2.0, 4.0, 5.0])
                    ps.append([rs(r_ * math.cos(f_)), rs(r_ * math.sin(f_))])
                ops.append({"op": "nd_proj", "klass": "polar", "out": cur, "ps": ps, "axis": "r" if radial else "phi",
                            "bins": [gen1.binning_json(rb, form="static_obj"), gen1.binning_json(pb, form="static_obj")]})
        elif source == "reload":
            x = bare()
            cur = new()
            ops.append({"op": "reload", "h": x, "out": cur, "via": rng.choice(["dict", "json"])})
        else:       # array arithmetic (free arithmetics) on a histogram built from data
            a = from_data(rng.choice([2, 3, 5]))
            kind = rng.choice(["mul", "add", "div", "sub"])
            n = len(pairs)
            arr = {"mul": [rs(rng.choice([1, 2, 3])) for _ in range(n)], "add": [rs(rng.choice([0, 1, 2])) for _ in range(n)],
                   "div": [rs(rng.choice([1, 2, 4])) for _ in range(n)], "sub": ["0"] * n}[kind]
            op = {"op": "array_arith", "h": a, "kind": kind, "arr": arr, "ak": rng.choice(["int64", "float64"])}
            if rng.random() < 0.4:
                op["inplace"] = True
                cur = a
            else:
                cur = new()
                op["out"] = cur
            ops.append(op)

        # --- the history
        def fill_op(h):
            wt = rng.choice([1, 1, 1, 2, 0.5, 3])
            extra = {"w": rs(wt), "wk": "pyint" if isinstance(wt, int) else "pyfloat", "default_w": wt == 1 and rng.random() < 0.6}
            c = coord()
            return {"op": "fill", "h": h, "v": rs(c), **extra} if klass is None else {"op": "fill_pt", "h": h, "p": point(c), **extra}

        kinds = ["fill", "fill", "fill", "fill_several", "lshift", "fill_n", "fill_n", "add_valid", "radd_valid", "add_invalid", "radd_invalid",
                 "iadd_valid", "iadd_invalid", "into_valid", "scale", "scale", "copy", "merge", "set_dtype", "normalize"]
        if not plain_only:
            kinds += ["reload", "array"]
        for _ in range(rng.randint(3, 7)):
            kind = rng.choice(kinds)
            if kind == "fill":
                ops.append(fill_op(cur))
            elif kind == "fill_several":
                for _ in range(rng.choice([2, 3])):
                    ops.append(fill_op(cur))
            elif kind == "lshift":
                c = coord()
                ops.append({"op": "lshift", "h": cur, **({"v": rs(c)} if klass is None else {"p": point(c)})})
            elif kind == "fill_n":
                m = rng.choice([0, 1, 2, 4])
                cs = [coord() for _ in range(m)]
                if klass is None:
                    ops.append({"op": "fill_n", "h": cur, "vs": gen1.enc_vals(cs), "ws": wts(m), "wkind": "float64"})
                else:
                    ops.append({"op": "fill_n_pts", "h": cur, "ps": [point(c) for c in cs], "ws": wts(m), "wkind": "float64"})
            elif kind in ("add_valid", "radd_valid", "add_invalid", "radd_invalid"):
                o_ = from_data() if kind.endswith("_valid") else bare()
                out = new()
                a_, b_ = (cur, o_) if kind.startswith("add") else (o_, cur)
                ops.append({"op": "add", "a": a_, "b": b_, "out": out})
                if rng.random() < 0.6:
                    cur = out
            elif kind in ("iadd_valid", "iadd_invalid"):
                o_ = from_data() if kind.endswith("_valid") else bare()
                ops.append({"op": "iadd", "h": cur, "o": o_})
            elif kind == "into_valid":      # a histogram built from data takes the one without statistics in: its own are lost
                o_ = from_data()
                ops.append({"op": "iadd", "h": o_, "o": cur})
                if rng.random() < 0.6:
                    cur = o_
            elif kind == "scale":
                c = rng.choice([2, 4, 0.5, 0.25])
                name = rng.choice(["mul", "div", "imul", "idiv"])
                op = {"op": name, "h": cur, "c": rs(c), "k": rng.choice(["pyint", "int64"]) if isinstance(c, int) else rng.choice(["pyfloat", "float64"])}
                if name in ("mul", "div"):
                    op["out"] = new()
                    if name == "mul" and rng.random() < 0.3:
                        op["reflected"] = True
                    ops.append(op)
                    if rng.random() < 0.7:
                        cur = op["out"]
                else:
                    ops.append(op)
            elif kind == "copy":
                out = new()
                ops.append({"op": "copy", "h": cur, "out": out})
                if rng.random() < 0.6:
                    cur = out
            elif kind == "merge":
                p = state["pairs"]
                if len(p) >= 2 and all(p[i][1] == p[i + 1][0] for i in range(len(p) - 1)):
                    inplace = rng.random() < 0.5
                    op = {"op": "merge", "h": cur, "amount": 2, "inplace": inplace}
                    if not inplace:
                        op["out"] = new()
                    ops.append(op)
                    cur = op.get("out", cur)
                    state["pairs"] = [[p[i][0], p[min(i + 1, len(p) - 1)][1]] for i in range(0, len(p), 2)]
                else:
                    ops.append(fill_op(cur))
            elif kind == "set_dtype":
                # (whether a rounded quotient is integral is not pinned: no integer type once something was normalised)
                ops.append({"op": "set_dtype", "h": cur, "dtype": rng.choice(["float64", "float64", "float32"] + ([] if state.get("normalized") else ["int64"])),
                            "via_property": rng.random() < 0.5})
            elif kind == "normalize":
                state["normalized"] = True
                ops.append({"op": "normalize", "h": cur, "inplace": True})
            elif kind == "reload":
                out = new()
                ops.append({"op": "reload", "h": cur, "out": out, "via": rng.choice(["dict", "json"])})
                cur = out
            else:
                n = len(state["pairs"])
                ops.append({"op": "array_arith", "h": cur, "kind": "mul", "arr": [rs(rng.choice([1, 2])) for _ in range(n)], "ak": "int64",
                            "out": new()})
                cur = ops[-1]["out"]
        ops.append(fill_op(cur))        # whatever came before, the caller goes on filling
        c = coord()
        return {"kind": "hist1", "ops": ops, "stream": "invalid_history", "tolerance": True,
                "probe": {"v": rs(c)} if klass is None else {"p": point(c)},
                "tags": ["stream:invalid_history", "kind:inv_source=" + source, "kind:inv_class=" + (klass or "Histogram1D")]}

    # ops after which the statistics of the result cannot be known, whatever the operands
    INVALIDATING = ("of_arrays", "nd_proj", "slice", "mask", "index_array", "sub", "isub", "array_arith")
    KEEPING = ("fill", "fill_pt", "lshift", "fill_n", "fill_n_pts", "mul", "div", "imul", "idiv", "copy", "merge", "set_dtype", "normalize", "reload")

    def oracle_invalid_history(self, case, io):
        """per register: "inv" (statistics cannot be known: built from bare frequencies / a slice / a projection / a
        subtraction / array arithmetic, or derived from such a histogram by ANY later operation), "val" (built from data only)
        or not followed.  The library's own answer decides what happened (a refused step changes nothing).  After every
        step every reading of every "inv" register must be NaN.  Refusals are not judged here (other streams do)."""
        state, fails = {}, []
        for k, (op, o) in enumerate(zip(case["ops"], io["outs"])):
            name, ret = op["op"], o["ret"]
            if ret != "REFUSED":
                tgt = op.get("out", op.get("h"))
                if name in ("construct", "construct_t", "empty", "empty_t"):
                    state[tgt] = "val"
                elif name in self.INVALIDATING:
                    state[tgt] = "inv"
                elif name in ("add", "iadd"):
                    x, y = (state.get(op["a"]), state.get(op["b"])) if name == "add" else (state.get(op["h"]), state.get(op["o"]))
                    state[tgt] = "inv" if "inv" in (x, y) else "val" if (x, y) == ("val", "val") else None
                elif name in self.KEEPING:
                    src_state = state.get(op["h"])
                    if name == "reload" and src_state == "val":
                        src_state = None        # (whether the statistics are written is the library's choice)
                    if name in ("mul", "div", "imul", "idiv") and Fraction(op["c"]) <= 0:
                        src_state = None
                    state[tgt] = src_state
                else:
                    state[tgt] = None
            for r, st in state.items():
                sn = o["regs"][r] if r < len(o["regs"]) else None
                if st != "inv" or sn is None:
                    continue
                cls = sn.get("_class", "")
                fails += self.invalid_fails(sn, f"{cls} register {r} after step {k} ({name}" + (", REFUSED" if ret == "REFUSED" else "") + ")")
            if fails:
                break
        return fails[:5]

    # ------------------------------------------------------------------ empty / template histograms obtained from filled ones
    def gen_template(self, rng):
        """every way of obtaining an EMPTY (template) histogram from a filled one, then USING it: `h.copy(include_frequencies=
        False)`, `h * 0`, `h - h`, `type(h)(h.binning)` / `type(h)(h.binning.copy())`, an empty selection `h[k:k]`, `create` of a
        collection over the bins of `h` -- from a source whose statistics are valid (built from data with / without weights,
        filled, already rescaled) or invalid (bare frequencies, a subtraction); Histogram1D, RadialHistogram, AzimuthalHistogram.
        The statistics of the template are read at once (nothing entered: weight 0, sums 0, min / max at their empty values,
        median / mean() / variance() / std() NaN; after `h - h`: everything NaN), then the template is filled (fill, fill_n),
        takes histograms of further data in (+=), is added to the ORIGINAL in both orders, is copied (with and without the
        contents), rescaled: after every step the statistics of every histogram are those of the values entered INTO THAT OBJECT
        (nothing of the source in an emptied copy), the source keeps its own, and a plain copy reads the same in every
        number (the median included)."""
        klass = rng.choice([None, None, None, "RadialHistogram", "AzimuthalHistogram"])
        if klass is None:
            pairs = dy_bins(rng)
        else:
            top = 6.25 if klass == "AzimuthalHistogram" else 16.0
            e = [rng.choice([0.0, 0.0, 0.5, 1.0])]
            for _ in range(rng.randint(2, 5)):
                nxt = e[-1] + rng.choice([0.5, 1.0, 1.5, 2.0])
                if nxt > top:
                    break
                e.append(nxt)
            if len(e) < 3:
                e = [0.0, 1.0, 2.0, 4.0]
            pairs = [[e[i], e[i + 1]] for i in range(len(e) - 1)]
        consecutive = all(pairs[i][1] == pairs[i + 1][0] for i in range(len(pairs) - 1))
        ops, nreg = [], [0]

        def bj():
            return gen1.binning_json(pairs, form=rng.choice(["pairs", "static_obj"] + (["numpy_obj"] if consecutive else [])))

        def new():
            r = nreg[0]; nreg[0] += 1
            return r

        def coord():        # a coordinate strictly inside a bin (dyadic)
            l, r = rng.choice(pairs)
            return l + (r - l) * rng.choice([1, 2, 3, 4, 5, 6, 7]) / 8

        def point(c):       # a point of the plane whose radius / azimuth is the coordinate c (radius on an axis: exactly)
            if klass == "RadialHistogram":
                return rng.choice([[rs(c), "0"], ["0", rs(c)], [rs(-c), "0"], ["0", rs(-c)], [rs(c * 0.6), rs(c * 0.8)]])
            rho = rng.choice([1.0, 2.0, 0.5])
            return [rs(rho * math.cos(c)), rs(rho * math.sin(c))]

        def wts(n, p_none=0.5):
            return None if rng.random() < p_none else [rs(rng.choice([1, 2, 0.5, 0.25, 3])) for _ in range(n)]

        def from_data(n=None, weights=True):
            n = n or rng.choice([1, 2, 3, 5])
            r = new()
            ws = wts(n, 0.4) if weights else None
            if klass is None:
                ops.append({"op": "construct", "out": r, "binning": bj(), "data": gen1.enc_vals([coord() for _ in range(n)]), "weights": ws,
                            "wkind": "float64" if ws else None})
            else:
                ops.append({"op": "construct_t", "klass": klass, "out": r, "binning": bj(), "ps": [point(coord()) for _ in range(n)],
                            "weights": ws, "wkind": "float64" if ws else None})
            return r

        def fill_op(h):
            wt = rng.choice([1, 1, 1, 2, 0.5, 3])
            extra = {"w": rs(wt), "wk": "pyint" if isinstance(wt, int) else "pyfloat", "default_w": wt == 1 and rng.random() < 0.6}
            c = coord()
            return {"op": "fill", "h": h, "v": rs(c), **extra} if klass is None else {"op": "fill_pt", "h": h, "p": point(c), **extra}

        def fill_n_op(h, m=None):
            m = rng.choice([0, 1, 2, 4]) if m is None else m
            cs = [coord() for _ in range(m)]
            if klass is None:
                return {"op": "fill_n", "h": h, "vs": gen1.enc_vals(cs), "ws": wts(m), "wkind": "float64"}
            return {"op": "fill_n_pts", "h": h, "ps": [point(c) for c in cs], "ws": wts(m), "wkind": "float64"}

        # --- the source: a filled histogram, statistics valid (mostly) or invalid
        source = rng.choice(["data", "data", "data", "data_w", "data_w", "filled", "filled", "bare", "sub"])
        if source in ("data", "data_w"):
            src = from_data(rng.choice([1, 2, 3, 5, 8]), weights=source == "data_w")
        elif source == "filled":
            src = new()
            ops.append({"op": "empty", "out": src, "binning": bj()} if klass is None else {"op": "empty_t", "klass": klass, "out": src, "binning": bj()})
            ops.append(fill_n_op(src, rng.choice([1, 2, 4])))
            ops.append(fill_op(src))
        elif source == "bare":
            src = new()
            ops.append({"op": "of_arrays", "out": src, "binning": bj(), "freq": [rs(rng.randint(0, 5)) for _ in pairs], "err2": None,
                        "under": "0", "over": "0", "inner": "0", "dtype": rng.choice(["int64", "float64"]), **({"klass": klass} if klass else {})})
        else:
            a = from_data(rng.choice([3, 5]), weights=False)
            first = ops[-1]
            b_ = new()      # the same bins, one of the same values: nothing goes negative
            ops.append({**first, "out": b_, **({"data": first["data"][:1]} if klass is None else {"ps": first["ps"][:1]})})
            src = new()
            ops.append({"op": "sub", "a": a, "b": b_, "out": src})
        if rng.random() < 0.3:      # something happened to the source before the template is taken
            if rng.random() < 0.5:
                ops.append(fill_op(src))
            else:
                c = rng.choice([2, 4, 0.5])
                ops.append({"op": "imul", "h": src, "c": rs(c), "k": "pyint" if isinstance(c, int) else "pyfloat"})

        # --- the template
        ways = [w for w in TEMPLATE_WAYS if not (w == "coll_create" and klass is not None)]
        way = rng.choice(ways)
        t = new()
        if way == "copy_empty":
            ops.append({"op": "copy", "h": src, "out": t, "with_freq": False})
        elif way == "mul0":
            form = rng.choice(["mul", "mul", "rmul", "div_inf"]) if klass is None else rng.choice(["mul", "rmul"])
            if form == "div_inf":
                ops.append({"op": "mul0", "h": src, "out": t, "form": "div_inf"})
            else:
                ops.append({"op": "mul", "h": src, "c": "0", "k": rng.choice(["pyint", "pyfloat", "int64", "float64"]), "out": t,
                            **({"reflected": True} if form == "rmul" else {})})
        elif way == "sub_self":
            ops.append({"op": "sub", "a": src, "b": src, "out": t})
        elif way == "new_on_binning":
            ops.append({"op": "new_on_binning", "h": src, "out": t, "copy": rng.random() < 0.5, "binning": bj()})
        elif way == "slice_empty":
            k0 = rng.randint(0, len(pairs))
            ops.append({"op": "slice", "h": src, "start": k0, "stop": k0, "out": t, "maybe_refused": True})
        else:
            m = rng.choice([0, 1, 3, 5])
            ops.append({"op": "coll_create", "h": src, "out": t, "vs": gen1.enc_vals([coord() for _ in range(m)]), "ws": wts(m, 0.6),
                        "wkind": "float64"})

        # --- the template is used
        cur = t
        if way == "slice_empty":        # no bins: nothing can be entered; copies of it
            ops.append({"op": "copy", "h": cur, "out": new()})
            ops.append({"op": "copy", "h": cur, "out": new(), "with_freq": False})
        else:
            kinds = ["fill", "fill", "fill", "fill_n", "fill_n", "iadd_data", "add_orig", "radd_orig", "iadd_orig", "copy", "copy_empty", "scale"]
            for _ in range(rng.randint(2, 5)):
                kind = rng.choice(kinds)
                if kind == "fill":
                    ops.append(fill_op(cur))
                elif kind == "fill_n":
                    ops.append(fill_n_op(cur))
                elif kind == "iadd_data":
                    ops.append({"op": "iadd", "h": cur, "o": from_data()})
                elif kind in ("add_orig", "radd_orig"):
                    out = new()
                    ops.append({"op": "add", "a": cur if kind == "add_orig" else src, "b": src if kind == "add_orig" else cur, "out": out})
                    if rng.random() < 0.4:
                        cur = out
                elif kind == "iadd_orig":
                    ops.append({"op": "iadd", "h": cur, "o": src})
                elif kind in ("copy", "copy_empty"):
                    out = new()
                    ops.append({"op": "copy", "h": cur, "out": out, **({"with_freq": False} if kind == "copy_empty" else {})})
                    if rng.random() < 0.6:
                        cur = out
                else:
                    c = rng.choice([2, 4, 0.5, 0.25])
                    ops.append({"op": rng.choice(["imul", "idiv"]), "h": cur, "c": rs(c), "k": "pyint" if isinstance(c, int) else "pyfloat"})
            ops.append(fill_op(cur))
            if rng.random() < 0.5:      # the template of the template
                out = new()
                ops.append({"op": "copy", "h": cur, "out": out, "with_freq": False})
                ops.append(fill_op(out))
        c = coord()
        return {"kind": "hist1", "ops": ops, "stream": "template", "tolerance": True, "klass": klass, "template": t, "source": src,
                "probe": {"v": rs(c)} if klass is None else {"p": point(c)},
                "tags": ["stream:template", "kind:tpl_way=" + way, "kind:tpl_source=" + source, "kind:tpl_class=" + (klass or "Histogram1D")]}

    @staticmethod
    def _coord_of(klass, p):
        """the coordinate a transformed 1-D class enters for the point p (numpy's own functions, as the class documents)"""
        x, y = (float(Fraction(q)) for q in p)
        with np.errstate(all="ignore"):
            v = np.hypot(y, x) if klass == "RadialHistogram" else np.arctan2(y, x) % (2 * np.pi)
        return Fraction(float(v))

    def oracle_template(self, case, io):
        """per register the raw (value, weight) pairs entered INTO THAT OBJECT ([] for every empty histogram, however it was
        obtained), INVALID after a subtraction / from bare frequencies, EITHER for an empty selection; compared after every step"""
        klass = case.get("klass")
        rtol = xtol = None if klass is None else Fraction(1, 10**12)
        data, loose, origin, med, fails = {}, set(), {}, {}, []
        W1 = lambda ws, n: [Fraction(w) for w in ws] if ws is not None else [Fraction(1)] * n

        def both(x, y):
            if x is None or y is None or EITHER in (x, y):
                return None
            return INVALID if INVALID in (x, y) else x + y

        def entered(h, new_pairs):
            if isinstance(data.get(h), list):
                data[h] = data[h] + new_pairs
            med.pop(h, None)

        for k, (op, o) in enumerate(zip(case["ops"], io["outs"])):
            name, ret = op["op"], o["ret"]
            if ret == "REFUSED":
                if op.get("maybe_refused"):
                    break       # (an empty selection the library does not offer: nothing to follow)
                return [f"refused_valid: step {k} ({name}) was refused: " + "; ".join(io["log"][-1:])]
            out = op.get("out")
            if name == "construct":
                vs = [Fraction(v) for v in op["data"]]
                data[out] = list(zip(vs, W1(op["weights"], len(vs))))
                if op["weights"] is None and vs:
                    sv, m = sorted(vs), len(vs)
                    med[out] = sv[m // 2] if m % 2 else (sv[m // 2 - 1] + sv[m // 2]) / 2
            elif name == "construct_t":
                vs = [self._coord_of(klass, p) for p in op["ps"]]
                data[out] = list(zip(vs, W1(op["weights"], len(vs))))
            elif name in ("empty", "empty_t", "new_on_binning"):
                data[out] = []; med[out] = "nan"
                origin[out] = "a new histogram over the bins of register %s" % op["h"] if name == "new_on_binning" else "a new histogram"
            elif name == "coll_create":
                data[out] = list(zip([Fraction(v) for v in op["vs"]], W1(op["ws"], len(op["vs"]))))
                origin[out] = "HistogramCollection(register %s).create(...)" % op["h"]
            elif name == "of_arrays":
                data[out] = INVALID
            elif name == "fill":
                entered(op["h"], [(Fraction(op["v"]), Fraction(op["w"]))])
            elif name == "fill_pt":
                entered(op["h"], [(self._coord_of(klass, op["p"]), Fraction(op["w"]))])
            elif name == "fill_n":
                entered(op["h"], list(zip([Fraction(v) for v in op["vs"]], W1(op["ws"], len(op["vs"])))))
            elif name == "fill_n_pts":
                entered(op["h"], list(zip([self._coord_of(klass, p) for p in op["ps"]], W1(op["ws"], len(op["ps"])))))
            elif name in ("add", "iadd"):
                x, y = (op["a"], op["b"]) if name == "add" else (op["h"], op["o"])
                tgt = out if name == "add" else x
                data[tgt] = both(data.get(x), data.get(y))
                if x in loose or y in loose:
                    loose.add(tgt)
                med.pop(tgt, None)
            elif name == "sub":
                data[out] = INVALID
                origin[out] = "register %s - register %s" % (op["a"], op["b"])
            elif name in ("mul", "imul", "idiv", "mul0"):
                tgt = out if out is not None else op["h"]
                srcd = data.get(op["h"])
                c = Fraction(0) if name == "mul0" else Fraction(op["c"]) if name != "idiv" else 1 / Fraction(op["c"])
                if srcd is None or srcd == EITHER or c < 0:
                    data[tgt] = None
                elif srcd == INVALID:
                    data[tgt] = INVALID
                elif c == 0:        # every weight times 0: the sums are 0; whatever is entered later counts in full
                    data[tgt] = []
                    origin[tgt] = "register %s times 0" % op["h"]
                    if not TEMPLATE_MUL0_EXTREMES:
                        loose.add(tgt)
                else:
                    data[tgt] = [(v, w * c) for v, w in srcd]
                    if op["h"] in loose:
                        loose.add(tgt)
                med.pop(tgt, None)
            elif name == "copy":
                if op.get("with_freq", True):
                    data[out] = data.get(op["h"])
                    if op["h"] in loose:
                        loose.add(out)
                    if op["h"] in med:
                        med[out] = med[op["h"]]
                    # a plain copy reads the same as its source in EVERY number (the median included)
                    ra, rb = o["regs"][op["h"]], o["regs"][out]
                    if ra is not None and rb is not None and ra["_all"] != rb["_all"]:
                        diff_ = [f"{f}: {ra['_all'][f]} -> {rb['_all'][f]}" for f in READINGS if ra["_all"][f] != rb["_all"][f]]
                        fails.append(f"copy_differs: step {k}: the statistics of the copy (register {out}) are not those of its source "
                                     f"(register {op['h']}): " + ", ".join(diff_))
                else:
                    data[out] = []; med[out] = "nan"
                    origin[out] = "copy(include_frequencies=False) of register %s" % op["h"]
            elif name == "slice":
                data[out] = EITHER
                origin[out] = "the empty selection [%s:%s] of register %s" % (op["start"], op["stop"], op["h"])
            else:
                data[op.get("out", op.get("h"))] = None
            for r, pairs in data.items():
                sn = o["regs"][r] if r < len(o["regs"]) else None
                if pairs is None or sn is None:
                    continue
                what = f"{sn.get('_class', '')} register {r}" + (f" ({origin[r]})" if r in origin else "") + f" after step {k} ({name})"
                allr = sn["_all"]
                if pairs == EITHER:
                    nums = numbers_of(sn)
                    if nums and not (allr["weight"] == "0" and allr["sum"] == "0" and allr["sum2"] == "0" and allr["mean()"] == "nan"
                                     and allr["variance()"] == "nan"):
                        fails.append(f"empty_selection_numbers: {what}: neither invalid nor empty: " + ", ".join(nums))
                    continue
                f_ = self.stats_fails(sn["stats"], pairs, what, sn, rtol, xtol, extremes=r not in loose)
                if f_ and pairs == [] and r in origin:
                    f_ = ["empty_not_empty: nothing was entered into this histogram: " + x for x in f_]
                fails += f_
                if not f_ and pairs != INVALID and r in med:
                    exp = med[r]
                    got = allr["median"]
                    if (got != "nan") if exp == "nan" else (got in ("nan", "inf", "-inf") or Fraction(got) != exp):
                        fails.append(f"median_history: {what}: median = {got}, " + ("nothing was entered into this histogram (NaN expected)"
                                     if exp == "nan" else f"the median of the data it was constructed from is {exp}"))
                if not f_ and pairs == [] and r not in loose:
                    bad = [f"{f} = {allr[f]}" for f in ("mean()", "variance()", "std()") if allr[f] != "nan"]
                    if bad:
                        fails.append(f"empty_moments: {what}: nothing was entered, but " + ", ".join(bad))
            if fails:
                break
        return fails[:5]

    def gen_case(self, rng, k, tier):
        if ENABLE_INVALID_HISTORY and k % 12 == 5:
            return self.gen_invalid_history(rng)
        if ENABLE_TEMPLATE and k % 24 in (8, 23):
            return self.gen_template(rng)
        if ENABLE_NARROW_CONTENT and k % 24 == 11:
            if k % 72 == 35:        # thousands of values: float16, float32, int16 in turn
                return self.gen_narrow_content(rng, True, NARROW_LARGE_DTYPES[(k // 72) % len(NARROW_LARGE_DTYPES)])
            return self.gen_narrow_content(rng, False)
        if ENABLE_REFUSED_MID and k % 6 == 3:
            return self.gen_refused_mid(rng)
        if k % 12 == 7:
            return self.gen_narrow_values(rng)
        if k % 3 == 1:
            return self.gen_mixed(rng)
        pairs = dy_bins(rng)
        b = gen1.binning_json(pairs, rng=rng, form="pairs")
        n = rng.choice([0, 1, 2, 3, 5, 8, 13])
        vals = inrange_values(rng, pairs, n)
        ws, wk = gen1.weights_for(rng, n, kinds=["none", "none", "int", "dyadic", "equal", "zeros"])
        order = list(range(n)); rng.shuffle(order)
        order2 = list(range(n)); rng.shuffle(order2)
        cut = rng.randint(0, n)
        src = {"binning": b, "vals": gen1.enc_vals(vals), "ws": None if ws is None else [rs(w) for w in ws], "wk": wk,
               "order": order, "batches": partition(rng, order2), "cut": cut,
               "scale": rs(rng.choice([2, 4, 0.5, 0.25, 3])),
               "tail": rng.choice(["sub", "sub_free", "of_arrays", "slice", "add_invalid", "add_invalid", "none", "none"])}
        src["sk"] = rng.choice(["pyint", "int64", "int32", "pyfloat"] if "/" not in src["scale"] else ["pyfloat", "float32", "float64"])
        src["fill_after"] = True
        return self.build(src)

    @staticmethod
    def build(src):
        b, vals, ws, wk = src["binning"], src["vals"], src["ws"], src["wk"]
        sub = lambda idx: ([vals[i] for i in idx], None if ws is None else [ws[i] for i in idx])
        ops = [{"op": "construct", "out": 0, "binning": b, "data": vals, "weights": ws, "wkind": wk}]
        ops.append({"op": "empty", "out": 1, "binning": b})
        for i in src["order"]:
            w = "1" if ws is None else ws[i]
            ops.append({"op": "fill", "h": 1, "v": vals[i], "w": w,
                        "wk": "pyint" if (ws is None or wk == "int64") else "pyfloat", "default_w": ws is None})
        ops.append({"op": "empty", "out": 2, "binning": b})
        for batch in src["batches"]:
            v, w = sub(batch)
            ops.append({"op": "fill_n", "h": 2, "vs": v, "ws": w, "wkind": wk})
        # sum of two partial histograms
        n = len(vals)
        a, c = list(range(src["cut"])), list(range(src["cut"], n))
        v, w = sub(a)
        ops.append({"op": "construct", "out": 3, "binning": b, "data": v, "weights": w, "wkind": wk})
        v, w = sub(c)
        ops.append({"op": "construct", "out": 4, "binning": b, "data": v, "weights": w, "wkind": wk})
        ops.append({"op": "add", "a": 3, "b": 4, "out": 5})
        ops.append({"op": "copy", "h": 0, "out": 6})
        sc = src["scale"]
        ops.append({"op": "mul", "h": 0, "c": sc, "k": src.get("sk") or ("pyint" if "/" not in sc else "pyfloat"), "out": 7})
        if src["tail"] == "sub":
            ops.append({"op": "sub", "a": 5, "b": 4, "out": 8})
        elif src["tail"] == "sub_free":
            ops.append({"op": "sub", "a": 5, "b": 4, "out": 8, "free": True})
        elif src["tail"] == "slice":
            ops.append({"op": "slice", "h": 0, "start": 0, "stop": None, "out": 8})
        elif src["tail"] == "add_invalid":
            # a histogram without statistics (built from bare frequencies) added to one with statistics, in both orders:
            # the sum cannot have statistics either -- every number must read as NaN
            ops.append({"op": "of_arrays", "out": 8, "binning": b, "freq": ["1"] * len(b["bins"]), "err2": None,
                        "under": "0", "over": "0", "inner": "0", "dtype": "int64"})
            ops.append({"op": "add", "a": 0, "b": 8, "out": 9})
            ops.append({"op": "add", "a": 8, "b": 0, "out": 10})
        elif src["tail"] == "of_arrays":
            ops.append({"op": "of_arrays", "out": 8, "binning": b, "freq": ["1"] * len(b["bins"]), "err2": None,
                        "under": "0", "over": "0", "inner": "0", "dtype": "int64"})
        if src["tail"] != "none" and src.get("fill_after"):
            # the caller goes on filling the histograms whose statistics cannot be known: they stay unknown (every reading NaN)
            l, r = b["bins"][0]
            v = vals[0] if vals and vals[0] is not None else rs((Fraction(l) + Fraction(r)) / 2)
            for reg in sorted({o["out"] for o in ops if o.get("out", 0) >= 8}):
                ops.append({"op": "fill", "h": reg, "v": v, "w": "1", "wk": "pyint", "default_w": True})
        return {"kind": "hist1", "ops": ops, "tags": ["tail:" + src["tail"]], "src": src}

    def shrink_candidates(self, case):
        if case.get("stream") == "narrow_content":
            # fewer values (blocks, then single ones for small cases), always rebuilt from the source description
            src = case["src"]
            n = len(src["vals"])
            size = n // 2
            while size >= 1:
                for a in range(0, n, size):
                    if size == 1 and n > 40:
                        break
                    s2 = copy.deepcopy(src)
                    del s2["vals"][a:a + size]
                    if s2["ws"] is not None:
                        del s2["ws"][a:a + size]
                    if s2["vals"]:
                        yield self.build_narrow(s2)
                size //= 2
            if src["large"] and n <= 40:
                yield self.build_narrow({**copy.deepcopy(src), "large": False, "chunk": min(src["chunk"], 5)})
            return
        if case.get("stream") in ("invalid_history", "template"):
            # drop a step (every register used later must still have been created)
            def refs(o):
                return [o[x] for x in ("h", "a", "b", "o") if x in o]
            for k in range(len(case["ops"]) - 1, -1, -1):
                c = copy.deepcopy(case)
                del c["ops"][k]
                if c["ops"] and all(set(refs(o)) <= self._defined(c["ops"][:i]) for i, o in enumerate(c["ops"])):
                    yield c
            for k, op in enumerate(case["ops"]):
                for key, wkey in (("data", "weights"), ("vs", "ws"), ("ps", "ws")):
                    if op["op"] in ("nd_proj",) or (key == "ps" and op["op"] == "construct_t"):
                        continue
                    for j in range(len(op.get(key) or [])):
                        c = copy.deepcopy(case)
                        del c["ops"][k][key][j]
                        if c["ops"][k].get(wkey) is not None and len(c["ops"][k][wkey]) > j:
                            del c["ops"][k][wkey][j]
                        yield c
            return
        if case.get("stream") == "refused_mid_history":
            # drop a step (every register used later must still have been created), then single values of the batches
            def refs(o):
                return [o[x] for x in ("h", "a", "b", "o") if x in o] + list(o.get("members", []))
            for k in range(len(case["ops"]) - 1, 0, -1):
                c = copy.deepcopy(case)
                del c["ops"][k]
                if all(set(refs(o)) <= self._defined(c["ops"][:i]) for i, o in enumerate(c["ops"])):
                    yield c
            for k, op in enumerate(case["ops"]):
                if op.get("expect_refused") or op.get("untracked"):
                    continue        # (their shape / out-of-range value is what makes them what they are)
                for key, wkey in (("data", "weights"), ("vs", "ws")):
                    for j in range(len(op.get(key) or [])):
                        c = copy.deepcopy(case)
                        del c["ops"][k][key][j]
                        if c["ops"][k].get(wkey) is not None:
                            del c["ops"][k][wkey][j]
                        yield c
            return
        if case.get("mixed"):
            for k in range(len(case["ops"]) - 1, 0, -1):
                c = copy.deepcopy(case)
                del c["ops"][k]
                if all(o.get("h", 0) in self._defined(c["ops"][:i]) and o.get("a", 0) in self._defined(c["ops"][:i])
                       and o.get("b", 0) in self._defined(c["ops"][:i]) for i, o in enumerate(c["ops"]) if i):
                    yield c
            return
        src = case["src"]
        n = len(src["vals"])
        for i in range(n):
            s2 = copy.deepcopy(src)
            del s2["vals"][i]
            if s2["ws"] is not None:
                del s2["ws"][i]
            ren = lambda j: j if j < i else j - 1
            s2["order"] = [ren(j) for j in s2["order"] if j != i]
            s2["batches"] = [[ren(j) for j in bt if j != i] for bt in s2["batches"]]
            s2["cut"] = min(s2["cut"], n - 1)
            yield self.build(s2)
        if src["tail"] != "none":
            s2 = copy.deepcopy(src); s2["tail"] = "none"
            yield self.build(s2)

    @staticmethod
    def _defined(ops):
        return {o["out"] for o in ops if "out" in o}

    def oracle(self, case, io):
        if case.get("stream") == "refused_mid_history":
            return self.oracle_refused_mid(case, io)
        if case.get("stream") == "narrow_content":
            return self.oracle_narrow(case, io)
        if case.get("stream") == "invalid_history":
            return self.oracle_invalid_history(case, io)
        if case.get("stream") == "template":
            return self.oracle_template(case, io)
        if case.get("mixed"):
            return self.oracle_mixed(case, io)
        outs = io["outs"]
        if any(o["ret"] == "REFUSED" for o in outs):
            return ["refused_valid: a valid call was refused: " + "; ".join(io["log"][:2])]
        src = case["src"]
        fails = []
        regs = outs[-1]["regs"]
        vals = [Fraction(v) for v in src["vals"]]
        ws = [Fraction(w) for w in src["ws"]] if src["ws"] is not None else [Fraction(1)] * len(vals)

        def expect(idx, scale=Fraction(1)):
            W = sum((ws[i] for i in idx), Fraction(0)) * scale
            S = sum((ws[i] * vals[i] for i in idx), Fraction(0)) * scale
            S2 = sum((ws[i] * vals[i] ** 2 for i in idx), Fraction(0)) * scale
            return {"weight": W, "sum": S, "sum2": S2, "min": min((vals[i] for i in idx), default=None),
                    "max": max((vals[i] for i in idx), default=None)}

        def check(name, st, idx, scale=Fraction(1)):
            if not st["valid"]:
                fails.append(f"stats_invalid_{name}: statistics are invalid after {name}")
                return
            e = expect(idx, scale)
            for f in ("weight", "sum", "sum2"):
                if Fraction(st[f]) != e[f]:
                    fails.append(f"stats_{f}_{name}: {f} after {name} is {st[f]}, the raw data give {e[f]}")
            for f in ("min", "max"):
                got = None if st[f] is None else Fraction(st[f])
                if got != e[f]:
                    fails.append(f"stats_{f}_{name}: {f} after {name} is {st[f]}, the raw data give {e[f]}")
            if e["weight"] != 0:
                mean = e["sum"] / e["weight"]
                if st["mean"] is None or abs(Fraction(st["mean"]) - mean) > abs(mean) * Fraction(1, 10**9) + Fraction(1, 10**12):
                    fails.append(f"mean_{name}: mean() = {st['mean']}, weighted mean of the data = {mean}")
                if e["weight"] > 0:
                    var = (e["sum2"] - e["sum"] ** 2 / e["weight"]) / e["weight"]
                    if st["variance"] is None or abs(Fraction(st["variance"]) - var) > abs(var) * Fraction(1, 10**9) + Fraction(1, 10**9):
                        fails.append(f"variance_{name}: variance() = {st['variance']}, population variance of the data = {var}")
                    elif var >= 0 and st.get("_std") is not None:
                        sd = Fraction(st["_std"])
                        if sd < 0 or abs(sd * sd - var) > abs(var) * Fraction(1, 10**9) + Fraction(1, 10**9):
                            fails.append(f"std_{name}: std() = {float(sd)}, but its square is not the population variance {float(var)}")
            else:
                if st["mean"] is not None:
                    fails.append(f"mean_empty_{name}: weight 0 but mean() = {st['mean']}")

        n = len(vals)
        allidx = list(range(n))
        check("construct", regs[0]["stats"], allidx)
        check("fill", regs[1]["stats"], allidx)
        check("fill_n", regs[2]["stats"], allidx)
        check("add", regs[5]["stats"], allidx)
        check("copy", regs[6]["stats"], allidx)
        sc = Fraction(src["scale"])
        check("scale", regs[7]["stats"], allidx, sc)
        # median after unweighted construction
        st0 = regs[0]["stats"]
        if src["ws"] is None and n > 0 and st0["valid"]:
            s = sorted(vals)
            med = s[n // 2] if n % 2 else (s[n // 2 - 1] + s[n // 2]) / 2
            if st0["median"] is None or Fraction(st0["median"]) != med:
                fails.append(f"median: median after unweighted construction is {st0['median']}, data median is {med}")
            st6 = regs[6]["stats"]
            if st6["valid"] and (st6["median"] is None or Fraction(st6["median"]) != med):
                fails.append(f"median_copy: median of the copy is {st6['median']}, data median (and median of the source) is {med}")
        if src["tail"] != "none" and len(regs) > 8 and regs[8] is not None:
            # from the operation that cannot maintain the statistics on, after every step (the fills that follow included)
            for k, (op, o) in enumerate(zip(case["ops"], outs)):
                for r in (8, 9, 10):
                    if r < len(o["regs"]) and o["regs"][r] is not None:
                        what = (("construction from bare frequencies" if src["tail"] in ("add_invalid", "of_arrays") else src["tail"]) if r == 8
                                else "adding a histogram without statistics" + (" (on the right)" if r == 9 else " (on the left)"))
                        fails += self.invalid_fails(o["regs"][r], f"register {r} ({what}) after step {k} ({op['op']})")
                if len(fails) > 6:
                    break
        return fails[:6]

    def neighbours(self, case):
        """around a history with refusals: the history cut right after each refused step, the caller then entering one more
        value into every histogram that exists (reading the statistics after the refusal and after the next accepted step)"""
        if case.get("stream") == "narrow_content":
            # the same data and weights with the other content types (and the float64 / default ones)
            return [self.build_narrow({**copy.deepcopy(case["src"]), "dtype": dt}) for dt in ("float16", "float32", "int16", "float64")
                    if dt != case["src"]["dtype"] and not (dt == "int16" and case["src"]["wk"] == "float64")]
        if case.get("stream") in ("invalid_history", "template"):
            # the history cut after each step, the caller then filling every histogram that exists (single value)
            out = []
            pr = case.get("probe") or {}
            for k in range(len(case["ops"])):
                head = copy.deepcopy(case["ops"][:k + 1])
                tail = [({"op": "fill", "h": r, "v": pr["v"], "w": "1", "wk": "pyint", "default_w": True} if "v" in pr else
                         {"op": "fill_pt", "h": r, "p": pr["p"], "w": "1", "wk": "pyint", "default_w": True}) for r in sorted(self._defined(head))]
                out.append({**copy.deepcopy({k_: v_ for k_, v_ in case.items() if k_ != "ops"}), "ops": head + tail})
            return out
        if case.get("stream") != "refused_mid_history":
            return []
        out = []
        for k, op in enumerate(case["ops"]):
            if not op.get("refusal"):
                continue
            head = copy.deepcopy(case["ops"][:k + 1])
            v = next((o["v"] for o in case["ops"] if o["op"] == "fill"), None)
            tail = [{"op": "fill", "h": r, "v": v, "w": "1", "wk": "pyint"} for r in sorted(self._defined(head))
                    if r in (op.get("h"), op.get("a"))] if v is not None else []
            out.append({**copy.deepcopy({k_: v_ for k_, v_ in case.items() if k_ != "ops"}), "ops": head + tail})
        return out

    def nontrivial(self, case, io):
        if case.get("stream") == "refused_mid_history":
            # a planned refusal really refused, and data entered both before and after it
            ks = [k for k, (op, o) in enumerate(zip(case["ops"], io["outs"])) if op.get("refusal") and o["ret"] == "REFUSED"]
            enters = [k for k, op in enumerate(case["ops"]) if op["op"] in ("fill", "fill_n", "construct", "iadd") and not op.get("refusal")]
            return bool(ks) and any(k < ks[0] for k in enters) and any(k > ks[0] for k in enters)
        if case.get("mixed"):
            return sum(1 for o in case["ops"] if o["op"] in ("fill", "fill_n", "construct")) >= 2
        if case.get("stream") == "template":
            # the template was really obtained, from a source that held something, and something was entered into it afterwards
            t = case["template"]
            kt = next((k for k, op in enumerate(case["ops"]) if op.get("out") == t), None)
            if kt is None or io["outs"][kt]["ret"] == "REFUSED" or kt == 0:
                return False
            return case["ops"][kt]["op"] == "slice" or any(
                op["op"] in ("fill", "fill_pt", "fill_n", "fill_n_pts", "iadd", "add") for op in case["ops"][kt + 1:])
        if case.get("stream") == "invalid_history":
            # something was really entered into / added to a histogram without statistics
            return any(op["op"] in ("fill", "fill_pt", "lshift", "fill_n", "fill_n_pts", "add", "iadd") and o["ret"] != "REFUSED"
                       for op, o in zip(case["ops"][1:], io["outs"][1:]))
        return len(set(case["src"]["vals"])) >= 2


PROP = C14()

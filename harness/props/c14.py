"""C14 — statistics are those of the raw data entered, not of the bins."""
from __future__ import annotations

import copy
from fractions import Fraction

from .. import gen1
from ..core import rs
from .base1 import Hist1Prop
from .c03 import partition


def inrange_values(rng, pairs, n):
    """dyadic values inside the bins (never in a gap, never outside)"""
    out = []
    for _ in range(n):
        l, r = rng.choice(pairs)
        k = rng.choice([0, 1, 2, 3, 4, 5, 6, 7])
        v = l + (r - l) * k / 8
        out.append(v)
    return out


def dy_bins(rng):
    n = rng.randint(1, 6)
    start = rng.randint(-16, 16) / 4
    e = [start]
    for _ in range(n):
        e.append(e[-1] + rng.choice([0.5, 1.0, 2.0, 0.25]))
    pairs = [[e[i], e[i + 1]] for i in range(n)]
    if n >= 3 and rng.random() < 0.3:
        del pairs[rng.randint(1, n - 2)]
    return pairs


class C14(Hist1Prop):
    ID = "C14"
    N_QUICK = 300
    N_THOROUGH = 8000
    RULE = ("in-range dyadic data and weights entered through h1(), fill() and fill_n() (random chunkings), sums of partial "
            "histograms, copies, positive rescalings (powers of two), then the operations that must invalidate the statistics "
            "(subtraction, construction from bare frequencies, slicing). non-trivial = at least 2 distinct values entered; "
            "distinct = hash of the op list")
    FIELDS = {"stats", "freq"}

    def gen_case(self, rng, k, tier):
        pairs = dy_bins(rng)
        b = gen1.binning_json(pairs, rng=rng, form="pairs")
        n = rng.choice([0, 1, 2, 3, 5, 8, 13])
        vals = inrange_values(rng, pairs, n)
        ws, wk = gen1.weights_for(rng, n, kinds=["none", "none", "int", "dyadic", "equal", "zeros"])
        order = list(range(n)); rng.shuffle(order)
        order2 = list(range(n)); rng.shuffle(order2)
        cut = rng.randint(0, n)
        src = {"binning": b, "vals": gen1.enc_vals(vals), "ws": None if ws is None else [rs(w) for w in ws], "wk": wk,
               "order": order, "batches": partition(rng, order2), "cut": cut,
               "scale": rs(rng.choice([2, 4, 0.5, 0.25, 3])),
               "tail": rng.choice(["sub", "sub_free", "of_arrays", "slice", "none", "none"])}
        src["sk"] = rng.choice(["pyint", "int64", "int32", "pyfloat"] if "/" not in src["scale"] else ["pyfloat", "float32", "float64"])
        return self.build(src)

    @staticmethod
    def build(src):
        b, vals, ws, wk = src["binning"], src["vals"], src["ws"], src["wk"]
        sub = lambda idx: ([vals[i] for i in idx], None if ws is None else [ws[i] for i in idx])
        ops = [{"op": "construct", "out": 0, "binning": b, "data": vals, "weights": ws, "wkind": wk}]
        ops.append({"op": "empty", "out": 1, "binning": b})
        for i in src["order"]:
            w = "1" if ws is None else ws[i]
            ops.append({"op": "fill", "h": 1, "v": vals[i], "w": w,
                        "wk": "pyint" if (ws is None or wk == "int64") else "pyfloat", "default_w": ws is None})
        ops.append({"op": "empty", "out": 2, "binning": b})
        for batch in src["batches"]:
            v, w = sub(batch)
            ops.append({"op": "fill_n", "h": 2, "vs": v, "ws": w, "wkind": wk})
        # sum of two partial histograms
        n = len(vals)
        a, c = list(range(src["cut"])), list(range(src["cut"], n))
        v, w = sub(a)
        ops.append({"op": "construct", "out": 3, "binning": b, "data": v, "weights": w, "wkind": wk})
        v, w = sub(c)
        ops.append({"op": "construct", "out": 4, "binning": b, "data": v, "weights": w, "wkind": wk})
        ops.append({"op": "add", "a": 3, "b": 4, "out": 5})
        ops.append({"op": "copy", "h": 0, "out": 6})
        sc = src["scale"]
        ops.append({"op": "mul", "h": 0, "c": sc, "k": src.get("sk") or ("pyint" if "/" not in sc else "pyfloat"), "out": 7})
        if src["tail"] == "sub":
            ops.append({"op": "sub", "a": 5, "b": 4, "out": 8})
        elif src["tail"] == "sub_free":
            ops.append({"op": "sub", "a": 5, "b": 4, "out": 8, "free": True})
        elif src["tail"] == "slice":
            ops.append({"op": "slice", "h": 0, "start": 0, "stop": None, "out": 8})
        elif src["tail"] == "of_arrays":
            ops.append({"op": "of_arrays", "out": 8, "binning": b, "freq": ["1"] * len(b["bins"]), "err2": None,
                        "under": "0", "over": "0", "inner": "0", "dtype": "int64"})
        return {"kind": "hist1", "ops": ops, "tags": ["tail:" + src["tail"]], "src": src}

    def shrink_candidates(self, case):
        src = case["src"]
        n = len(src["vals"])
        for i in range(n):
            s2 = copy.deepcopy(src)
            del s2["vals"][i]
            if s2["ws"] is not None:
                del s2["ws"][i]
            ren = lambda j: j if j < i else j - 1
            s2["order"] = [ren(j) for j in s2["order"] if j != i]
            s2["batches"] = [[ren(j) for j in bt if j != i] for bt in s2["batches"]]
            s2["cut"] = min(s2["cut"], n - 1)
            yield self.build(s2)
        if src["tail"] != "none":
            s2 = copy.deepcopy(src); s2["tail"] = "none"
            yield self.build(s2)

    def oracle(self, case, io):
        outs = io["outs"]
        if any(o["ret"] == "REFUSED" for o in outs):
            return ["refused_valid: a valid call was refused: " + "; ".join(io["log"][:2])]
        src = case["src"]
        fails = []
        regs = outs[-1]["regs"]
        vals = [Fraction(v) for v in src["vals"]]
        ws = [Fraction(w) for w in src["ws"]] if src["ws"] is not None else [Fraction(1)] * len(vals)

        def expect(idx, scale=Fraction(1)):
            W = sum((ws[i] for i in idx), Fraction(0)) * scale
            S = sum((ws[i] * vals[i] for i in idx), Fraction(0)) * scale
            S2 = sum((ws[i] * vals[i] ** 2 for i in idx), Fraction(0)) * scale
            return {"weight": W, "sum": S, "sum2": S2, "min": min((vals[i] for i in idx), default=None),
                    "max": max((vals[i] for i in idx), default=None)}

        def check(name, st, idx, scale=Fraction(1)):
            if not st["valid"]:
                fails.append(f"stats_invalid_{name}: statistics are invalid after {name}")
                return
            e = expect(idx, scale)
            for f in ("weight", "sum", "sum2"):
                if Fraction(st[f]) != e[f]:
                    fails.append(f"stats_{f}_{name}: {f} after {name} is {st[f]}, the raw data give {e[f]}")
            for f in ("min", "max"):
                got = None if st[f] is None else Fraction(st[f])
                if got != e[f]:
                    fails.append(f"stats_{f}_{name}: {f} after {name} is {st[f]}, the raw data give {e[f]}")
            if e["weight"] != 0:
                mean = e["sum"] / e["weight"]
                if st["mean"] is None or abs(Fraction(st["mean"]) - mean) > abs(mean) * Fraction(1, 10**9) + Fraction(1, 10**12):
                    fails.append(f"mean_{name}: mean() = {st['mean']}, weighted mean of the data = {mean}")
                if e["weight"] > 0:
                    var = (e["sum2"] - e["sum"] ** 2 / e["weight"]) / e["weight"]
                    if st["variance"] is None or abs(Fraction(st["variance"]) - var) > abs(var) * Fraction(1, 10**9) + Fraction(1, 10**9):
                        fails.append(f"variance_{name}: variance() = {st['variance']}, population variance of the data = {var}")
                    elif var >= 0 and st.get("_std") is not None:
                        sd = Fraction(st["_std"])
                        if sd < 0 or abs(sd * sd - var) > abs(var) * Fraction(1, 10**9) + Fraction(1, 10**9):
                            fails.append(f"std_{name}: std() = {float(sd)}, but its square is not the population variance {float(var)}")
            else:
                if st["mean"] is not None:
                    fails.append(f"mean_empty_{name}: weight 0 but mean() = {st['mean']}")

        n = len(vals)
        allidx = list(range(n))
        check("construct", regs[0]["stats"], allidx)
        check("fill", regs[1]["stats"], allidx)
        check("fill_n", regs[2]["stats"], allidx)
        check("add", regs[5]["stats"], allidx)
        check("copy", regs[6]["stats"], allidx)
        sc = Fraction(src["scale"])
        check("scale", regs[7]["stats"], allidx, sc)
        # median after unweighted construction
        st0 = regs[0]["stats"]
        if src["ws"] is None and n > 0 and st0["valid"]:
            s = sorted(vals)
            med = s[n // 2] if n % 2 else (s[n // 2 - 1] + s[n // 2]) / 2
            if st0["median"] is None or Fraction(st0["median"]) != med:
                fails.append(f"median: median after unweighted construction is {st0['median']}, data median is {med}")
        if src["tail"] != "none" and len(regs) > 8 and regs[8] is not None:
            if regs[8]["stats"]["valid"]:
                fails.append(f"not_invalidated: statistics still read as valid numbers after {src['tail']}")
        return fails[:6]

    def nontrivial(self, case, io):
        return len(set(case["src"]["vals"])) >= 2


PROP = C14()

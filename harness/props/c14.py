"""C14 — statistics are those of the raw data entered, not of the bins."""
from __future__ import annotations

import copy
from fractions import Fraction

from .. import gen1, impl1
from ..core import rs
from .base1 import Hist1Prop
from .c03 import partition

# the stream "refused operations in the middle of a history" (gen_refused_mid): switch for the whole stream, and the
# refusal kinds it draws from (a kind can be taken out here without touching the rest)
ENABLE_REFUSED_MID = True
REFUSALS_ADAPTIVE = ["iadd_missed", "iadd_not_adaptable", "iadd_other_width", "iadd_other_shift"]
REFUSALS_STATIC = ["iadd_incompatible", "coll_add_incompatible"]
REFUSALS_ANY = ["isub_negative", "fill_n_wshape", "imul_negative", "imul_array", "idiv_zero", "set_dtype", "merge"]
BIG_W = 1048576          # 2^20: a weight no content of the histories below can reach
INVALID = "invalid"      # oracle marker: the statistics of this register must read as invalid


def inrange_values(rng, pairs, n):
    """dyadic values inside the bins (never in a gap, never outside)"""
    out = []
    for _ in range(n):
        l, r = rng.choice(pairs)
        k = rng.choice([0, 1, 2, 3, 4, 5, 6, 7])
        v = l + (r - l) * k / 8
        out.append(v)
    return out


def dy_bins(rng):
    n = rng.randint(1, 6)
    start = rng.randint(-16, 16) / 4
    e = [start]
    for _ in range(n):
        e.append(e[-1] + rng.choice([0.5, 1.0, 2.0, 0.25]))
    pairs = [[e[i], e[i + 1]] for i in range(n)]
    if n >= 3 and rng.random() < 0.3:
        del pairs[rng.randint(1, n - 2)]
    return pairs


class C14(Hist1Prop):
    ID = "C14"
    GEN_TIE = ["statistics"]     # definitions regenerated from physt/statistics.py (harness/gen_tie.py)
    N_QUICK = 300
    N_THOROUGH = 8000
    RULE = ("in-range dyadic data and weights entered through h1(), fill() and fill_n() (random chunkings), sums of partial "
            "histograms, copies, positive rescalings (powers of two), then the operations that must invalidate the statistics "
            "(subtraction, construction from bare frequencies, slicing); one case in three is a random HISTORY on one histogram (fill, "
            "fill_n, *= /= * / by powers of two, in-place normalize, copy, + a histogram of further data) whose statistics are "
            "compared after every step with the raw data entered so far (weights rescaled); every history is also run without "
            "reading the histogram between the operations; one case in six (stream:refused_mid_history) is a history on an adaptive / "
            "static / gapped / fixed-width histogram in which operations the library refuses (+= / + of an operand the adaptive bins "
            "cannot take in: missed weight, bins that cannot be made adaptive, another width, another alignment; incompatible static "
            "bins; -= / - that would go negative; fill_n with a wrong weights shape; *= by a negative number or an array; /= 0; "
            "refused set_dtype / merge_bins / HistogramCollection.add) alternate with accepted fills, batches, additions and "
            "rescalings, the statistics being compared EXACTLY after every step (the refused ones included) with the data entered by "
            "the accepted steps. non-trivial = at least 2 distinct values entered (there: a planned refusal really refused, with "
            "data entered before and after it); "
            "distinct = hash of the op list")
    FIELDS = {"stats", "freq"}

    def gen_narrow_values(self, rng):
        """values handed to fill() as numpy scalars of a NARROW type (np.int8(100), np.int16(300), np.float32(16777216.0) then
        np.float32(1.0), np.float16(300.0) ...): the statistics are those of the numbers entered, whatever type carried them"""
        pairs = [[0.0, 128.0], [128.0, 512.0], [512.0, 131072.0], [131072.0, 33554432.0]]
        b = gen1.binning_json(pairs, rng=rng, form="pairs")
        ops = [{"op": "empty", "out": 0, "binning": b}]
        pool = [(100, "int8"), (120, "int8"), (300, "int16"), (20000, "int16"), (70000, "int32"), (16777216.0, "float32"),
                (1.0, "float32"), (3.0, "float32"), (300.0, "float16"), (2.5, "float16"), (3.0, "float64"), (7, "int64")]
        for _ in range(rng.randint(2, 6)):
            v, vk = rng.choice(pool)
            w = rng.choice([1, 1, 2])
            ops.append({"op": "fill", "h": 0, "v": rs(v), "w": rs(w), "wk": "pyint", "vk": vk, "default_w": w == 1 and rng.random() < 0.5})
        return {"kind": "hist1", "ops": ops, "tags": ["mixed_history", "narrow_scalar_values"], "mixed": True, "tolerance": True}

    def gen_mixed(self, rng):
        """one histogram with a random HISTORY: fills, batches, in-place and copying rescalings (powers of two), in-place
        normalisation, copies, additions of histograms built from further data -- the statistics must at every point be
        those of all the raw data entered so far, with the weights rescaled (mean, variance, minimum, maximum unchanged)"""
        pairs = dy_bins(rng)
        b = gen1.binning_json(pairs, rng=rng, form="pairs")
        ops = []
        n0 = rng.choice([0, 0, 1, 3, 5])
        v0 = inrange_values(rng, pairs, n0)
        if rng.random() < 0.5:
            ops.append({"op": "construct", "out": 0, "binning": b, "data": gen1.enc_vals(v0), "weights": None, "wkind": None})
        else:
            ops.append({"op": "empty", "out": 0, "binning": b})
            v0 = []
        cur, nreg = 0, 1
        for _ in range(rng.randint(2, 8)):
            kind = rng.choice(["fill", "fill", "fill", "fill_n", "imul", "idiv", "mul", "div", "copy", "add", "normalize"])
            if kind == "fill":
                w = rng.choice([1, 1, 2, 0.5, 3])
                ops.append({"op": "fill", "h": cur, "v": rs(inrange_values(rng, pairs, 1)[0]), "w": rs(w),
                            "wk": "pyint" if isinstance(w, int) else "pyfloat", "default_w": w == 1 and rng.random() < 0.5})
            elif kind == "fill_n":
                m = rng.choice([0, 1, 2, 4])
                vs = inrange_values(rng, pairs, m)
                ws = None if rng.random() < 0.5 else [rs(rng.choice([1, 2, 0.5, 0.25])) for _ in vs]
                ops.append({"op": "fill_n", "h": cur, "vs": gen1.enc_vals(vs), "ws": ws, "wkind": "float64"})
            elif kind in ("imul", "idiv", "mul", "div"):
                c = rng.choice([2, 4, 0.5, 0.25, 8])
                op = {"op": kind, "h": cur, "c": rs(c), "k": rng.choice(["pyint", "int64"]) if isinstance(c, int) else rng.choice(["pyfloat", "float64"])}
                if kind in ("mul", "div"):
                    op["out"] = nreg; cur = nreg; nreg += 1
                ops.append(op)
            elif kind == "copy":
                ops.append({"op": "copy", "h": cur, "out": nreg}); cur = nreg; nreg += 1
            elif kind == "add":
                vs = inrange_values(rng, pairs, rng.choice([1, 2, 3]))
                ops.append({"op": "construct", "out": nreg, "binning": b, "data": gen1.enc_vals(vs), "weights": None, "wkind": None})
                ops.append({"op": "add", "a": cur, "b": nreg, "out": nreg + 1}); cur = nreg + 1; nreg += 2
            else:
                ops.append({"op": "normalize", "h": cur, "inplace": True, "maybe_refused": True})
        return {"kind": "hist1", "ops": ops, "tags": ["mixed_history"], "mixed": True, "tolerance": True}

    def oracle_mixed(self, case, io):
        """track, per register, the raw (value, weight) pairs with the weights rescaled; compare after every step"""
        outs = io["outs"]
        data = {}
        fails = []
        for k, (op, o) in enumerate(zip(case["ops"], outs)):
            name = op["op"]
            if o["ret"] == "REFUSED":
                tot = sum((w for _, w in data.get(op.get("h"), [])), Fraction(0))
                if name == "normalize" and tot == 0:
                    continue
                return [f"refused_valid: step {k} ({name}) was refused: " + "; ".join(io["log"][:1])]
            if name == "construct":
                data[op["out"]] = [(Fraction(v), Fraction(1)) for v in op["data"] if v is not None]
            elif name == "empty":
                data[op["out"]] = []
            elif name == "fill":
                data[op["h"]] = data[op["h"]] + [(Fraction(op["v"]), Fraction(op["w"]))]
            elif name == "fill_n":
                ws = op["ws"] or ["1"] * len(op["vs"])
                data[op["h"]] = data[op["h"]] + [(Fraction(v), Fraction(w)) for v, w in zip(op["vs"], ws) if v is not None]
            elif name in ("imul", "idiv", "mul", "div"):
                c = Fraction(op["c"]) if name in ("imul", "mul") else 1 / Fraction(op["c"])
                data[op.get("out", op["h"])] = [(v, w * c) for v, w in data[op["h"]]]
            elif name == "copy":
                data[op["out"]] = list(data[op["h"]])
            elif name == "add":
                data[op["out"]] = data[op["a"]] + data[op["b"]]
            elif name == "normalize":
                tot = sum((w for _, w in data[op["h"]]), Fraction(0))
                data[op["h"]] = [(v, w / tot) for v, w in data[op["h"]]]
            for r, pairs in data.items():
                st = o["regs"][r]["stats"] if r < len(o["regs"]) and o["regs"][r] is not None else None
                if st is None:
                    continue
                if not st["valid"]:
                    fails.append(f"stats_invalid_history: statistics of register {r} are invalid after step {k} ({name})")
                    continue
                bad = [f for f in ("weight", "sum", "sum2", "mean", "variance") if isinstance(st.get(f), str) and st[f].lstrip("-") in ("inf", "nan")]
                if bad:
                    fails.append(f"stats_nonfinite_history: register {r} after step {k} ({name}): {bad} are not finite although every value "
                                 f"and weight entered is")
                    continue
                W = sum((w for _, w in pairs), Fraction(0))
                S = sum((w * v for v, w in pairs), Fraction(0))
                S2 = sum((w * v * v for v, w in pairs), Fraction(0))
                tol = lambda x: abs(x) * Fraction(1, 10**9) + Fraction(1, 10**12)
                for f, e in (("weight", W), ("sum", S), ("sum2", S2)):
                    if abs(Fraction(st[f]) - e) > tol(e):
                        fails.append(f"stats_{f}_history: register {r} after step {k} ({name}): {f} = {st[f]}, the raw data (weights rescaled) give {e}")
                for f, e in (("min", min((v for v, _ in pairs), default=None)), ("max", max((v for v, _ in pairs), default=None))):
                    got = None if st[f] is None else Fraction(st[f])
                    if got != e:
                        fails.append(f"stats_{f}_history: register {r} after step {k} ({name}): {f} = {st[f]}, the raw data give {e}")
                if W > 0:
                    mean, var = S / W, (S2 - S * S / W) / W
                    if st["mean"] is None or abs(Fraction(st["mean"]) - mean) > tol(mean):
                        fails.append(f"mean_history: register {r} after step {k} ({name}): mean() = {st['mean']}, weighted mean of the data = {mean}")
                    if st["variance"] is None or abs(Fraction(st["variance"]) - var) > abs(var) * Fraction(1, 10**9) + Fraction(1, 10**9):
                        fails.append(f"variance_history: register {r} after step {k} ({name}): variance() = {st['variance']}, population variance = {var}")
            if fails:
                break
        return fails[:5]

    # ------------------------------------------------------------------ refused operations in the middle of a history
    def gen_refused_mid(self, rng):
        """one 1-D histogram `a` (adaptive fixed-width, static, gapped, non-adaptive fixed-width) with a history in which
        operations the library REFUSES are mixed with accepted ones, the caller going on with `a` after every refusal:
        `a += b` / `a + b` with a `b` the adaptive `a` cannot take in (missed weight; bins that cannot be made adaptive;
        another width; another alignment), with incompatible static bins; `a -= b` / `a - b` that would make a content
        negative; fill_n with a wrong weights shape; `*=` by a negative number / by an array; `/= 0`; a refused set_dtype;
        a refused merge_bins; a refused HistogramCollection.add -- between fills, batches, accepted additions (same bins,
        or bins the adaptive `a` grows to), copies and rescalings by powers of two.  All values and weights are dyadic:
        the recorded statistics are compared EXACTLY, after every step, with the data of the accepted steps."""
        adaptive = rng.random() < 0.6
        ops, planned = [], []
        if adaptive or rng.random() < 0.25:
            w = rng.choice([1.0, 0.5, 2.0])
            tmin, count = rng.randint(-3, 3), rng.randint(1, 4)
            b = gen1.fixed_json(w, tmin, count, adaptive=adaptive)
            pairs = [[(tmin + i) * w, (tmin + i + 1) * w] for i in range(count)]
        else:
            pairs = dy_bins(rng)
            w = None
            consecutive = all(pairs[i][1] == pairs[i + 1][0] for i in range(len(pairs) - 1))
            b = gen1.binning_json(pairs, form=rng.choice(["pairs", "static_obj"] + (["numpy_obj"] if consecutive else [])))
        lo, hi = pairs[0][0], pairs[-1][1]
        unit = w or 1.0

        def grid_vals(width, t0, cnt, n, spread=0, shift=0.0):
            return [(rng.randint(t0 - spread, t0 + cnt - 1 + spread) + rng.randrange(8) / 8) * width + shift for _ in range(n)]

        def vals(n):          # values `a` takes in: anywhere near for an adaptive one, inside the bins otherwise
            return grid_vals(w, tmin, count, n, spread=5) if adaptive else inrange_values(rng, pairs, n)

        def wts(n, p_none=0.5):
            return None if rng.random() < p_none else [rs(rng.choice([1, 2, 0.5, 0.25])) for _ in range(n)]

        nreg = [1]

        def operand(bj, vs, ws=None, untracked=False):
            """a further histogram over the binning `bj` holding the values `vs`"""
            r = nreg[0]; nreg[0] += 1
            extra = {"untracked": True} if untracked else {}
            if bj["t"] == "fixed" or rng.random() < 0.3:
                ops.append({"op": "empty", "out": r, "binning": bj})
                ops.append({"op": "fill_n", "h": r, "vs": gen1.enc_vals(vs), "ws": ws, "wkind": "float64", **extra})
            else:
                ops.append({"op": "construct", "out": r, "binning": bj, "data": gen1.enc_vals(vs), "weights": ws,
                            "wkind": "float64" if ws else None, **extra})
            return r

        def elsewhere(width, shift=0.0, adaptive_=False):
            """a fixed-width binning (as JSON) away from the bins `a` starts with, and values inside it"""
            t0 = int(hi // width) + rng.randint(2, 5) if rng.random() < 0.7 else int(lo // width) - rng.randint(4, 8)
            cnt = rng.randint(1, 3)
            return gen1.fixed_json(width, t0, cnt, shift=shift, adaptive=adaptive_), grid_vals(width, t0, cnt, rng.choice([1, 2, 3]), shift=shift), t0, cnt

        # --- the histogram itself, with something in it
        n0 = rng.choice([1, 2, 3, 5])
        v0 = vals(n0) if adaptive else inrange_values(rng, pairs, n0)
        if b["t"] == "fixed" or rng.random() < 0.5:
            ops.append({"op": "empty", "out": 0, "binning": b})
            ops.append({"op": "fill_n", "h": 0, "vs": gen1.enc_vals(v0), "ws": wts(n0), "wkind": "float64"})
        else:
            ws0 = wts(n0)
            ops.append({"op": "construct", "out": 0, "binning": b, "data": gen1.enc_vals(v0), "weights": ws0,
                        "wkind": "float64" if ws0 else None})
        cur = 0

        def accepted():
            nonlocal cur
            kinds = ["fill", "fill", "fill_n", "fill_n", "iadd_same", "add_same", "scale", "copy"]
            if adaptive:
                kinds += ["iadd_grid", "iadd_grid", "add_grid"]
            elif b["t"] == "static":
                kinds += ["coll_add"]
            kind = rng.choice(kinds)
            if kind == "fill":
                wt = rng.choice([1, 1, 2, 0.5, 3])
                ops.append({"op": "fill", "h": cur, "v": rs(vals(1)[0]), "w": rs(wt), "wk": "pyint" if isinstance(wt, int) else "pyfloat",
                            "default_w": wt == 1 and rng.random() < 0.5})
            elif kind == "fill_n":
                m = rng.choice([0, 1, 2, 4])
                ops.append({"op": "fill_n", "h": cur, "vs": gen1.enc_vals(vals(m)), "ws": wts(m), "wkind": "float64"})
            elif kind in ("iadd_same", "add_same", "iadd_grid", "add_grid"):
                m = rng.choice([1, 2, 3])
                if kind.endswith("same"):
                    r = operand(b, vals(m), wts(m, 0.6))
                else:       # other bins of the same grid (adaptive or not, nothing missed): `a` grows to take them in
                    bj, vs, _, _ = elsewhere(w, adaptive_=rng.random() < 0.5)
                    r = operand(bj, vs, wts(len(vs), 0.6))
                if kind.startswith("iadd"):
                    ops.append({"op": "iadd", "h": cur, "o": r})
                else:
                    out = nreg[0]; nreg[0] += 1
                    ops.append({"op": "add", "a": cur, "b": r, "out": out})
                    if rng.random() < 0.5:
                        cur = out
            elif kind == "scale":
                c = rng.choice([2, 4, 0.5, 0.25])
                ops.append({"op": rng.choice(["imul", "idiv"]), "h": cur, "c": rs(c),
                            "k": rng.choice(["pyint", "int64"]) if isinstance(c, int) else rng.choice(["pyfloat", "float64"])})
            elif kind == "copy":
                out = nreg[0]; nreg[0] += 1
                ops.append({"op": "copy", "h": cur, "out": out})
                if rng.random() < 0.5:
                    cur = out
            else:           # the histogram joins a collection of histograms over the same bins: nothing of it may change
                m = rng.choice([1, 2])
                members = []
                for _ in range(m):
                    r = nreg[0]; nreg[0] += 1
                    ops.append({"op": "empty", "out": r, "binning": b})
                    k_ = rng.choice([0, 1, 3])
                    ops.append({"op": "fill_n", "h": r, "vs": gen1.enc_vals(vals(k_)), "ws": wts(k_, 0.6), "wkind": "float64"})
                    members.append(r)
                out = nreg[0]; nreg[0] += 1
                # (whether two binning objects of different classes over the same bins may share a collection is physt's choice)
                ops.append({"op": "coll_add", "members": members, "h": cur, "out": out, "maybe_refused": True})

        def refused():
            pool = list(REFUSALS_ANY) + (list(REFUSALS_ADAPTIVE) * 2 if adaptive else list(REFUSALS_STATIC) * 2)
            kind = rng.choice(pool)
            inplace = rng.random() < 0.65       # otherwise the copying form: the refused copy is discarded
            mark = {"expect_refused": True, "refusal": kind + ("" if inplace else ":copy")}
            planned.append(mark["refusal"])

            def plus(r):
                if inplace:
                    ops.append({"op": "iadd", "h": cur, "o": r, **mark})
                else:
                    out = nreg[0]; nreg[0] += 1
                    ops.append({"op": "add", "a": cur, "b": r, "out": out, **mark})

            if kind == "iadd_missed":
                # the other operand kept weight outside its bins (non-adaptive bins of the same grid, elsewhere)
                bj, vs, t0, cnt = elsewhere(w)
                out_v = (t0 + cnt + rng.randint(0, 3) + 0.5) * w if rng.random() < 0.6 else (t0 - rng.randint(1, 3) + 0.25) * w
                vs = vs + [out_v]
                rng.shuffle(vs)
                plus(operand(bj, vs, wts(len(vs), 0.6), untracked=True))
            elif kind == "iadd_not_adaptable":
                # static / numpy bins (a width `a` never has, so never the same bins): cannot be made adaptive
                e0 = (int(hi // unit) + rng.randint(1, 4)) * unit if rng.random() < 0.7 else (int(lo // unit) - rng.randint(4, 7)) * unit
                n2 = rng.randint(1, 3)
                p2 = [[e0 + 0.75 * unit * i, e0 + 0.75 * unit * (i + 1)] for i in range(n2)]
                bj = gen1.binning_json(p2, form=rng.choice(["pairs", "static_obj", "numpy_obj", "edges"]))
                m = rng.choice([1, 2, 3])
                plus(operand(bj, inrange_values(rng, p2, m), wts(m, 0.6)))
            elif kind == "iadd_other_width":
                w2 = w * rng.choice([2, 0.5, 3, 1.5])
                bj, vs, _, _ = elsewhere(w2, adaptive_=rng.random() < 0.6)
                plus(operand(bj, vs, wts(len(vs), 0.6)))
            elif kind == "iadd_other_shift":
                bj, vs, _, _ = elsewhere(w, shift=w * rng.choice([0.25, 0.5]), adaptive_=rng.random() < 0.6)
                plus(operand(bj, vs, wts(len(vs), 0.6)))
            elif kind == "iadd_incompatible":
                if rng.random() < 0.6:      # one bin more than `a` has
                    base = rng.randint(-4, 4)
                    p2 = [[float(base + i), float(base + i + 1)] for i in range(len(pairs) + 1)]
                    bj = gen1.binning_json(p2, form=rng.choice(["pairs", "static_obj"]))
                    m = rng.choice([1, 2, 3])
                    plus(operand(bj, inrange_values(rng, p2, m), wts(m, 0.6)))
                else:                       # an adaptive fixed-width histogram (the left operand is not adaptive)
                    bj, vs, _, _ = elsewhere(unit, adaptive_=True)
                    plus(operand(bj, vs, wts(len(vs), 0.6)))
            elif kind == "coll_add_incompatible":
                base = rng.randint(-4, 4)
                p2 = [[float(base + i), float(base + i + 1)] for i in range(len(pairs) + 1)]
                bj = gen1.binning_json(p2, form="static_obj")
                m = rng.choice([1, 2])
                r = operand(bj, inrange_values(rng, p2, m), None)
                out = nreg[0]; nreg[0] += 1
                mark["refusal"] = planned[-1] = kind
                ops.append({"op": "coll_add", "members": [r], "h": cur, "out": out, **mark})
            elif kind == "isub_negative":
                # the same bins `a` started with, one bin holding far more than `a` does
                r = operand(b, [inrange_values(rng, pairs, 1)[0]], [rs(BIG_W)])
                if inplace:
                    ops.append({"op": "isub", "h": cur, "o": r, **mark})
                else:
                    out = nreg[0]; nreg[0] += 1
                    ops.append({"op": "sub", "a": cur, "b": r, "out": out, **mark})
            elif kind == "fill_n_wshape":
                m = rng.choice([2, 3, 4])
                mark["refusal"] = planned[-1] = kind
                ops.append({"op": "fill_n", "h": cur, "vs": gen1.enc_vals(vals(m)), "wkind": "float64",
                            "ws": [rs(rng.choice([1, 2, 0.5])) for _ in range(m + rng.choice([-1, 1, 2]))], **mark})
            elif kind == "imul_negative":
                c = rng.choice([-1, -2, -0.5])
                op = {"op": "imul" if inplace else "mul", "h": cur, "c": rs(c), "k": "pyint" if isinstance(c, int) else "pyfloat", **mark}
                if not inplace:
                    op["out"] = nreg[0]; nreg[0] += 1
                ops.append(op)
            elif kind == "imul_array":
                ops.append({"op": "invalid", "what": "imul_array" if inplace else "mul_array", "h": cur, **mark})
            elif kind == "idiv_zero":
                op = {"op": "idiv" if inplace else "div", "h": cur, "c": "0", "k": rng.choice(["pyint", "pyfloat"]), **mark}
                if not inplace:
                    op["out"] = nreg[0]; nreg[0] += 1
                ops.append(op)
            elif kind == "set_dtype":
                # a quarter of a count entered just before: the contents are not integral
                mark["refusal"] = planned[-1] = kind
                ops.append({"op": "fill", "h": cur, "v": rs(vals(1)[0]), "w": "1/4", "wk": "pyfloat"})
                ops.append({"op": "set_dtype", "h": cur, "dtype": rng.choice(["int64", "int32", "int16"]),
                            "via_property": rng.random() < 0.5, **mark})
            else:           # merge_bins without an amount / with the amount 0
                op = {"op": "merge", "h": cur, "inplace": inplace, **mark}
                if rng.random() < 0.5:
                    op["amount"] = 0
                if not inplace:
                    op["out"] = nreg[0]; nreg[0] += 1
                ops.append(op)

        for _ in range(rng.randint(3, 7)):
            if rng.random() < 0.45:
                refused()
            else:
                accepted()
        if not planned:
            refused()
        # the caller goes on: more data and an accepted addition after the last refusal
        ops.append({"op": "fill", "h": cur, "v": rs(vals(1)[0]), "w": "1", "wk": "pyint", "default_w": rng.random() < 0.5})
        if rng.random() < 0.6:
            m = rng.choice([1, 2])
            r = operand(b, vals(m), wts(m, 0.6))
            ops.append({"op": "iadd", "h": cur, "o": r})
        return {"kind": "hist1", "ops": ops, "stream": "refused_mid_history",
                "tags": ["stream:refused_mid_history", "refused_mid:" + ("adaptive" if adaptive else b["t"])]}

    # the op `coll_add` (HistogramCollection(*members).add(h); out := collection.sum()) is not in the generic op language:
    # it is run here, and handed to the model as the sum it stands for (accepted) / as a refused call (refused)
    @staticmethod
    def _coll_add(s, op, log):
        from physt.histogram_collection import HistogramCollection
        try:
            col = HistogramCollection(*[s.get(m) for m in op["members"]])
            col.add(s.get(op["h"]))
            s.set(op["out"], col.sum())
            return "ok"
        except Exception as e:      # refused: the class of the exception is recorded, never compared
            log.append(f"coll_add: {type(e).__name__}: {e}"[:200])
            return impl1.REFUSED

    def _run(self, case, observe=True):
        s, outs, log, ret = impl1.Store(), [], [], None
        for op in case["ops"]:
            ret = self._coll_add(s, op, log) if op["op"] == "coll_add" else impl1.step(s, op, log)
            if observe:
                outs.append({"ret": ret, "regs": [None if h is None else impl1.snap1(h) for h in s.regs]})
        if observe:
            return outs, log
        return {"ret": ret, "regs": [None if h is None else impl1.snap1(h) for h in s.regs]}

    def run_impl(self, case):
        if case.get("stream") != "refused_mid_history":
            return super().run_impl(case)
        outs, log = self._run(case)
        # (the second run reads nothing between the operations: see Hist1Prop.run_impl)
        return {"outs": outs, "log": log, "unobserved_outs": outs[:-1] + [self._run(case, observe=False)]}

    def model_case(self, case, io):
        if case.get("stream") != "refused_mid_history" or not any(o["op"] == "coll_add" for o in case["ops"]):
            return case
        ops = []
        for op, o in zip(case["ops"], io["outs"]):
            if op["op"] != "coll_add":
                ops.append(op)
            elif o["ret"] == "ok":
                ops.append({"op": "sum", "hs": list(op["members"]) + [op["h"]], "out": op["out"]})
            else:
                ops.append({"op": "invalid", "what": "coll_add", "h": op["h"]})
        return {**case, "ops": ops}

    def tags(self, case, io):
        t = super().tags(case, io)
        if case.get("stream") == "refused_mid_history":
            for op, o in zip(case["ops"], io["outs"]):
                if op.get("refusal"):
                    t.append(("kind:refused=" if o["ret"] == "REFUSED" else "kind:NOT_refused=") + op["refusal"])
        return t

    @staticmethod
    def stats_fails(st, pairs, where):
        """the statistics `st` read from a histogram against the raw (value, weight) pairs entered: sums, extremes exactly
        (dyadic data), the derived moments within rounding; pairs == INVALID: every number must read as NaN"""
        if pairs == INVALID:
            if st["valid"]:
                return [f"not_invalidated: {where}: the statistics still read as valid numbers"]
            if st.get("_numbers"):
                return [f"not_invalidated: {where}: the statistics are invalid (weight NaN) but {st['_numbers']} still read as numbers"]
            return []
        if not st["valid"]:
            return [f"stats_invalid_history: {where}: the statistics read as invalid"]

        def num(x):
            try:
                return None if x is None else Fraction(x)
            except ValueError:
                return x
        fails = []
        W = sum((w for _, w in pairs), Fraction(0))
        S = sum((w * v for v, w in pairs), Fraction(0))
        S2 = sum((w * v * v for v, w in pairs), Fraction(0))
        for f, e in (("weight", W), ("sum", S), ("sum2", S2), ("min", min((v for v, _ in pairs), default=None)),
                     ("max", max((v for v, _ in pairs), default=None))):
            if num(st[f]) != e:
                fails.append(f"stats_{f}_history: {where}: {f} = {st[f]}, the data entered by the accepted steps give {e}")
        if fails:
            return fails
        if W == 0:
            if st["mean"] is not None:
                fails.append(f"mean_empty_history: {where}: weight 0 but mean() = {st['mean']}")
        elif W > 0:
            mean, var = S / W, (S2 - S * S / W) / W
            slack = lambda x: abs(x) * Fraction(1, 10**9) + Fraction(1, 10**9)
            if not isinstance(num(st["mean"]), Fraction) or abs(num(st["mean"]) - mean) > slack(mean):
                fails.append(f"mean_history: {where}: mean() = {st['mean']}, weighted mean of the data = {mean}")
            if not isinstance(num(st["variance"]), Fraction) or abs(num(st["variance"]) - var) > slack(var):
                fails.append(f"variance_history: {where}: variance() = {st['variance']}, population variance of the data = {var}")
            elif isinstance(num(st.get("_std")), Fraction):
                sd = num(st["_std"])
                if sd < 0 or abs(sd * sd - var) > slack(var):
                    fails.append(f"std_history: {where}: std() = {float(sd)}, its square is not the population variance {float(var)}")
        return fails

    def oracle_refused_mid(self, case, io):
        """per register, the raw (value, weight) pairs entered by the steps the library ACCEPTED (its own answer decides:
        a refused step enters nothing, whatever was planned), weights rescaled by the accepted rescalings; the recorded
        statistics of every register are compared with them after every step, the refused ones included.  A register is no
        longer followed (None) once something the property does not pin has happened to it (weight outside the bins, an
        accepted negative factor ...); after an accepted subtraction the statistics must read as invalid."""
        data, fails = {}, []

        def both(x, y, f):
            if x is None or y is None:
                return None
            return INVALID if INVALID in (x, y) else f(x, y)

        for k, (op, o) in enumerate(zip(case["ops"], io["outs"])):
            name, ret = op["op"], o["ret"]
            if ret == "REFUSED":
                if not (op.get("expect_refused") or op.get("maybe_refused")):
                    if any(x in op and op[x] not in data for x in ("h", "a", "b", "o")):
                        break       # an operand was never created (its creation was refused and reported there)
                    return [f"refused_valid: step {k} ({name}) was refused: " + "; ".join(io["log"][-1:])]
            elif name == "construct":
                data[op["out"]] = None if op.get("untracked") else [
                    (Fraction(v), Fraction(w)) for v, w in zip(op["data"], op["weights"] or ["1"] * len(op["data"]))]
            elif name == "empty":
                data[op["out"]] = []
            elif name == "fill":
                if isinstance(ret, int) and not isinstance(ret, bool) and ret >= 0 and data.get(op["h"]) not in (None, INVALID):
                    data[op["h"]] = data[op["h"]] + [(Fraction(op["v"]), Fraction(op["w"]))]
                elif data.get(op["h"]) != INVALID:
                    data[op["h"]] = None
            elif name == "fill_n":
                h = op["h"]
                if op.get("untracked") or op.get("expect_refused") or data.get(h) is None:
                    data[h] = None
                elif data[h] != INVALID:
                    data[h] = data[h] + [(Fraction(v), Fraction(w)) for v, w in zip(op["vs"], op["ws"] or ["1"] * len(op["vs"]))]
            elif name in ("iadd", "add"):
                x, y = (op["h"], op["o"]) if name == "iadd" else (op["a"], op["b"])
                data[op.get("out", x)] = both(data.get(x), data.get(y), lambda p, q: p + q)
            elif name in ("isub", "sub"):
                x, y = (op["h"], op["o"]) if name == "isub" else (op["a"], op["b"])
                data[op.get("out", x)] = both(data.get(x), data.get(y), lambda p, q: INVALID)
            elif name in ("imul", "idiv", "mul", "div"):
                c = Fraction(op["c"])
                src = data.get(op["h"])
                if c <= 0 or src is None:
                    data[op.get("out", op["h"])] = None
                elif src == INVALID:
                    data[op.get("out", op["h"])] = INVALID
                else:
                    c = c if name in ("imul", "mul") else 1 / c
                    data[op.get("out", op["h"])] = [(v, w * c) for v, w in src]
            elif name == "copy":
                data[op["out"]] = data.get(op["h"])
            elif name == "coll_add":
                srcs = [data.get(r) for r in list(op["members"]) + [op["h"]]]
                data[op["out"]] = None if any(x is None for x in srcs) else INVALID if INVALID in srcs else [p for x in srcs for p in x]
            elif name in ("set_dtype", "merge"):
                if "out" in op:
                    data[op["out"]] = data.get(op["h"])
            else:       # an `invalid` call that was accepted: nothing is pinned afterwards
                data[op["h"]] = None
            for r, pairs in data.items():
                snap = o["regs"][r] if r < len(o["regs"]) else None
                if pairs is None or snap is None:
                    continue
                what = f"register {r} after step {k} ({name}" + (f", REFUSED: {op.get('refusal', '')}" if ret == "REFUSED" else "") + ")"
                fails += self.stats_fails(snap["stats"], pairs, what)
            if fails:
                break
        return fails[:5]

    def gen_case(self, rng, k, tier):
        if ENABLE_REFUSED_MID and k % 6 == 3:
            return self.gen_refused_mid(rng)
        if k % 12 == 7:
            return self.gen_narrow_values(rng)
        if k % 3 == 1:
            return self.gen_mixed(rng)
        pairs = dy_bins(rng)
        b = gen1.binning_json(pairs, rng=rng, form="pairs")
        n = rng.choice([0, 1, 2, 3, 5, 8, 13])
        vals = inrange_values(rng, pairs, n)
        ws, wk = gen1.weights_for(rng, n, kinds=["none", "none", "int", "dyadic", "equal", "zeros"])
        order = list(range(n)); rng.shuffle(order)
        order2 = list(range(n)); rng.shuffle(order2)
        cut = rng.randint(0, n)
        src = {"binning": b, "vals": gen1.enc_vals(vals), "ws": None if ws is None else [rs(w) for w in ws], "wk": wk,
               "order": order, "batches": partition(rng, order2), "cut": cut,
               "scale": rs(rng.choice([2, 4, 0.5, 0.25, 3])),
               "tail": rng.choice(["sub", "sub_free", "of_arrays", "slice", "add_invalid", "add_invalid", "none", "none"])}
        src["sk"] = rng.choice(["pyint", "int64", "int32", "pyfloat"] if "/" not in src["scale"] else ["pyfloat", "float32", "float64"])
        return self.build(src)

    @staticmethod
    def build(src):
        b, vals, ws, wk = src["binning"], src["vals"], src["ws"], src["wk"]
        sub = lambda idx: ([vals[i] for i in idx], None if ws is None else [ws[i] for i in idx])
        ops = [{"op": "construct", "out": 0, "binning": b, "data": vals, "weights": ws, "wkind": wk}]
        ops.append({"op": "empty", "out": 1, "binning": b})
        for i in src["order"]:
            w = "1" if ws is None else ws[i]
            ops.append({"op": "fill", "h": 1, "v": vals[i], "w": w,
                        "wk": "pyint" if (ws is None or wk == "int64") else "pyfloat", "default_w": ws is None})
        ops.append({"op": "empty", "out": 2, "binning": b})
        for batch in src["batches"]:
            v, w = sub(batch)
            ops.append({"op": "fill_n", "h": 2, "vs": v, "ws": w, "wkind": wk})
        # sum of two partial histograms
        n = len(vals)
        a, c = list(range(src["cut"])), list(range(src["cut"], n))
        v, w = sub(a)
        ops.append({"op": "construct", "out": 3, "binning": b, "data": v, "weights": w, "wkind": wk})
        v, w = sub(c)
        ops.append({"op": "construct", "out": 4, "binning": b, "data": v, "weights": w, "wkind": wk})
        ops.append({"op": "add", "a": 3, "b": 4, "out": 5})
        ops.append({"op": "copy", "h": 0, "out": 6})
        sc = src["scale"]
        ops.append({"op": "mul", "h": 0, "c": sc, "k": src.get("sk") or ("pyint" if "/" not in sc else "pyfloat"), "out": 7})
        if src["tail"] == "sub":
            ops.append({"op": "sub", "a": 5, "b": 4, "out": 8})
        elif src["tail"] == "sub_free":
            ops.append({"op": "sub", "a": 5, "b": 4, "out": 8, "free": True})
        elif src["tail"] == "slice":
            ops.append({"op": "slice", "h": 0, "start": 0, "stop": None, "out": 8})
        elif src["tail"] == "add_invalid":
            # a histogram without statistics (built from bare frequencies) added to one with statistics, in both orders:
            # the sum cannot have statistics either -- every number must read as NaN
            ops.append({"op": "of_arrays", "out": 8, "binning": b, "freq": ["1"] * len(b["bins"]), "err2": None,
                        "under": "0", "over": "0", "inner": "0", "dtype": "int64"})
            ops.append({"op": "add", "a": 0, "b": 8, "out": 9})
            ops.append({"op": "add", "a": 8, "b": 0, "out": 10})
        elif src["tail"] == "of_arrays":
            ops.append({"op": "of_arrays", "out": 8, "binning": b, "freq": ["1"] * len(b["bins"]), "err2": None,
                        "under": "0", "over": "0", "inner": "0", "dtype": "int64"})
        return {"kind": "hist1", "ops": ops, "tags": ["tail:" + src["tail"]], "src": src}

    def shrink_candidates(self, case):
        if case.get("stream") == "refused_mid_history":
            # drop a step (every register used later must still have been created), then single values of the batches
            def refs(o):
                return [o[x] for x in ("h", "a", "b", "o") if x in o] + list(o.get("members", []))
            for k in range(len(case["ops"]) - 1, 0, -1):
                c = copy.deepcopy(case)
                del c["ops"][k]
                if all(set(refs(o)) <= self._defined(c["ops"][:i]) for i, o in enumerate(c["ops"])):
                    yield c
            for k, op in enumerate(case["ops"]):
                if op.get("expect_refused") or op.get("untracked"):
                    continue        # (their shape / out-of-range value is what makes them what they are)
                for key, wkey in (("data", "weights"), ("vs", "ws")):
                    for j in range(len(op.get(key) or [])):
                        c = copy.deepcopy(case)
                        del c["ops"][k][key][j]
                        if c["ops"][k].get(wkey) is not None:
                            del c["ops"][k][wkey][j]
                        yield c
            return
        if case.get("mixed"):
            for k in range(len(case["ops"]) - 1, 0, -1):
                c = copy.deepcopy(case)
                del c["ops"][k]
                if all(o.get("h", 0) in self._defined(c["ops"][:i]) and o.get("a", 0) in self._defined(c["ops"][:i])
                       and o.get("b", 0) in self._defined(c["ops"][:i]) for i, o in enumerate(c["ops"]) if i):
                    yield c
            return
        src = case["src"]
        n = len(src["vals"])
        for i in range(n):
            s2 = copy.deepcopy(src)
            del s2["vals"][i]
            if s2["ws"] is not None:
                del s2["ws"][i]
            ren = lambda j: j if j < i else j - 1
            s2["order"] = [ren(j) for j in s2["order"] if j != i]
            s2["batches"] = [[ren(j) for j in bt if j != i] for bt in s2["batches"]]
            s2["cut"] = min(s2["cut"], n - 1)
            yield self.build(s2)
        if src["tail"] != "none":
            s2 = copy.deepcopy(src); s2["tail"] = "none"
            yield self.build(s2)

    @staticmethod
    def _defined(ops):
        return {o["out"] for o in ops if "out" in o}

    def oracle(self, case, io):
        if case.get("stream") == "refused_mid_history":
            return self.oracle_refused_mid(case, io)
        if case.get("mixed"):
            return self.oracle_mixed(case, io)
        outs = io["outs"]
        if any(o["ret"] == "REFUSED" for o in outs):
            return ["refused_valid: a valid call was refused: " + "; ".join(io["log"][:2])]
        src = case["src"]
        fails = []
        regs = outs[-1]["regs"]
        vals = [Fraction(v) for v in src["vals"]]
        ws = [Fraction(w) for w in src["ws"]] if src["ws"] is not None else [Fraction(1)] * len(vals)

        def expect(idx, scale=Fraction(1)):
            W = sum((ws[i] for i in idx), Fraction(0)) * scale
            S = sum((ws[i] * vals[i] for i in idx), Fraction(0)) * scale
            S2 = sum((ws[i] * vals[i] ** 2 for i in idx), Fraction(0)) * scale
            return {"weight": W, "sum": S, "sum2": S2, "min": min((vals[i] for i in idx), default=None),
                    "max": max((vals[i] for i in idx), default=None)}

        def check(name, st, idx, scale=Fraction(1)):
            if not st["valid"]:
                fails.append(f"stats_invalid_{name}: statistics are invalid after {name}")
                return
            e = expect(idx, scale)
            for f in ("weight", "sum", "sum2"):
                if Fraction(st[f]) != e[f]:
                    fails.append(f"stats_{f}_{name}: {f} after {name} is {st[f]}, the raw data give {e[f]}")
            for f in ("min", "max"):
                got = None if st[f] is None else Fraction(st[f])
                if got != e[f]:
                    fails.append(f"stats_{f}_{name}: {f} after {name} is {st[f]}, the raw data give {e[f]}")
            if e["weight"] != 0:
                mean = e["sum"] / e["weight"]
                if st["mean"] is None or abs(Fraction(st["mean"]) - mean) > abs(mean) * Fraction(1, 10**9) + Fraction(1, 10**12):
                    fails.append(f"mean_{name}: mean() = {st['mean']}, weighted mean of the data = {mean}")
                if e["weight"] > 0:
                    var = (e["sum2"] - e["sum"] ** 2 / e["weight"]) / e["weight"]
                    if st["variance"] is None or abs(Fraction(st["variance"]) - var) > abs(var) * Fraction(1, 10**9) + Fraction(1, 10**9):
                        fails.append(f"variance_{name}: variance() = {st['variance']}, population variance of the data = {var}")
                    elif var >= 0 and st.get("_std") is not None:
                        sd = Fraction(st["_std"])
                        if sd < 0 or abs(sd * sd - var) > abs(var) * Fraction(1, 10**9) + Fraction(1, 10**9):
                            fails.append(f"std_{name}: std() = {float(sd)}, but its square is not the population variance {float(var)}")
            else:
                if st["mean"] is not None:
                    fails.append(f"mean_empty_{name}: weight 0 but mean() = {st['mean']}")

        n = len(vals)
        allidx = list(range(n))
        check("construct", regs[0]["stats"], allidx)
        check("fill", regs[1]["stats"], allidx)
        check("fill_n", regs[2]["stats"], allidx)
        check("add", regs[5]["stats"], allidx)
        check("copy", regs[6]["stats"], allidx)
        sc = Fraction(src["scale"])
        check("scale", regs[7]["stats"], allidx, sc)
        # median after unweighted construction
        st0 = regs[0]["stats"]
        if src["ws"] is None and n > 0 and st0["valid"]:
            s = sorted(vals)
            med = s[n // 2] if n % 2 else (s[n // 2 - 1] + s[n // 2]) / 2
            if st0["median"] is None or Fraction(st0["median"]) != med:
                fails.append(f"median: median after unweighted construction is {st0['median']}, data median is {med}")
        if src["tail"] != "none" and len(regs) > 8 and regs[8] is not None:
            for r in (8, 9, 10):
                if r < len(regs) and regs[r] is not None:
                    st = regs[r]["stats"]
                    what = src["tail"] if r == 8 else ("adding a histogram without statistics" + (" (on the right)" if r == 9 else " (on the left)"))
                    if st["valid"]:
                        fails.append(f"not_invalidated: statistics still read as valid numbers after {what}")
                    elif st.get("_numbers"):
                        fails.append(f"not_invalidated: after {what} the statistics are invalid (weight NaN) but {st['_numbers']} still read as numbers")
        return fails[:6]

    def neighbours(self, case):
        """around a history with refusals: the history cut right after each refused step, the caller then entering one more
        value into every histogram that exists (reading the statistics after the refusal and after the next accepted step)"""
        if case.get("stream") != "refused_mid_history":
            return []
        out = []
        for k, op in enumerate(case["ops"]):
            if not op.get("refusal"):
                continue
            head = copy.deepcopy(case["ops"][:k + 1])
            v = next((o["v"] for o in case["ops"] if o["op"] == "fill"), None)
            tail = [{"op": "fill", "h": r, "v": v, "w": "1", "wk": "pyint"} for r in sorted(self._defined(head))
                    if r in (op.get("h"), op.get("a"))] if v is not None else []
            out.append({**copy.deepcopy({k_: v_ for k_, v_ in case.items() if k_ != "ops"}), "ops": head + tail})
        return out

    def nontrivial(self, case, io):
        if case.get("stream") == "refused_mid_history":
            # a planned refusal really refused, and data entered both before and after it
            ks = [k for k, (op, o) in enumerate(zip(case["ops"], io["outs"])) if op.get("refusal") and o["ret"] == "REFUSED"]
            enters = [k for k, op in enumerate(case["ops"]) if op["op"] in ("fill", "fill_n", "construct", "iadd") and not op.get("refusal")]
            return bool(ks) and any(k < ks[0] for k in enters) and any(k > ks[0] for k in enters)
        if case.get("mixed"):
            return sum(1 for o in case["ops"] if o["op"] in ("fill", "fill_n", "construct")) >= 2
        return len(set(case["src"]["vals"])) >= 2


PROP = C14()

"""C04, stream `refused`: histories in which a call is REFUSED and the caller goes on.

A streaming loop guards each batch with try / except and continues.  Here an adaptive fixed-width histogram (1-D, 2-D, 3-D)
gets contents, then, in the middle of the history, calls that the library refuses:

* `wronglen`   fill_n with weights of another length than the values      (a plain `fill_n` op: the Lean driver models it)
* `shape2d`    fill_n with weights of shape (1, n)
* `bool` / `str`   fill_n with weights of a type that cannot be contents
* `nan_keep`   fill_n(dropna=False) with a NaN among the values
* `inf` / `neginf`   fill_n with a non-finite value among the values
* `fill_big`   fill(v, 1e200): the square of the weight overflows
* `fill_inf`   fill(inf)
* `fill_wrong_dim` / `wrong_cols`   (N-d) a point / rows with one coordinate too many
* `iadd_width` / `iadd_static` / `iadd_dim`   `+=` of a histogram with other bins

the finite values of the refused call lying OUTSIDE the current bins (left, right, both) or inside.  The exception is caught
and the history goes on with accepted fills (inside the range, growing either side) and reads.

The oracle states after every step, on the implementation's own outputs (exact `Fraction` arithmetic):
 * well-formed: as many contents and squared errors as cells (per axis: as bins);
 * the bins are contiguous, rising, consecutive cells of the original grid k*w + shift;
 * every cell holds exactly the weights of the ACCEPTED points inside its half-open intervals (so every recorded content
   still sits on the interval it was recorded for, nothing is lost or moved), squared errors alike;
 * total = weight accepted, nothing under / over / missed; every accepted point is inside the cell find_bin reports;
 * an accepted call after a refused one is not refused (`refused_valid`);
 * the bins reach from the bin of the smallest accepted value - or of a smaller value of a refused call: the unchanged
   library may have grown the bins, with zeros, before refusing (DESIGN 9.5 `C18_refused_fill_n_adaptive`), which the
   property text does not forbid - to the same on the right: no other spare bin.
Whether / with which exception the bad call is refused is not pinned by the property: when the library ACCEPTS one, the
oracle stops at that step.

Model: only `wronglen` is in the driver's op language (a refused fill_n grows the bins of a 1-D histogram and leaves an
N-d one alone); a case with any other refused call is oracle only.
"""
from __future__ import annotations

import copy
from fractions import Fraction as F

import numpy as np

from .. import gen1, impl1, implnd
from ..core import rs
from ..sharing import sharing as _sharing
from .c04_prefilled import _ff, _flat, _locate, _norm

ENABLE_REFUSED = True
REF_EVERY = 10           # case index k with k % REF_EVERY == REF_EVERY - 2 belongs to this stream
WIDTHS = [1.0, 1.0, 0.5, 0.25, 2.5, 10.0, 0.1, 0.3, 0.7]
KINDS_1D = ["wronglen", "wronglen", "wronglen", "shape2d", "bool", "bool", "str", "nan_keep", "inf", "neginf", "fill_big",
            "fill_inf", "iadd_width", "iadd_static", "iadd_dim"]
KINDS_ND = ["wronglen", "wronglen", "shape2d", "bool", "str", "nan_keep", "inf", "fill_big", "fill_inf", "fill_wrong_dim",
            "wrong_cols", "iadd_width", "iadd_dim"]
NO_VALUES = ("iadd_width", "iadd_static", "iadd_dim")
POINT_KINDS = ("fill_big", "fill_inf", "fill_wrong_dim")


def is_ref(case) -> bool:
    return bool((case.get("src") or {}).get("refused"))


def fl(s) -> float:
    return impl1.fl(s)


# ----------------------------------------------------------------------------------------------- generation

def _coord(rng, w, sh, k):
    """a double in cell k of the grid (well inside, or the left edge itself as the library computes it)"""
    if rng.random() < 0.2:
        return float(k * w + sh)
    return float((k + rng.choice([0.5, 0.25, 0.75, 0.125])) * w + sh)


def gen(rng) -> dict:
    d = rng.choice([1, 1, 1, 1, 2, 2, 3])
    ws = [rng.choice(WIDTHS) for _ in range(d)]
    shifts = [0.0 if rng.random() < 0.75 else 0.5 * w for w in ws]
    reach = 12 if d == 1 else (4 if d == 2 else 2)
    lo = [rng.randint(-20, 20) for _ in range(d)]             # cells lo .. hi-1 exist (as far as accepted calls go)
    hi = [l + rng.randint(1, 3 if d < 3 else 2) for l in lo]
    steps = []
    only_wronglen = rng.random() < 0.35        # such a case goes through the Lean model as well

    def point(where):
        """a point: 'in' the cells that exist; 'left' / 'right' / 'any' beyond them on at least one axis"""
        p = []
        out_axis = rng.randrange(d)
        for j in range(d):
            side = where
            if where != "in" and j != out_axis and rng.random() < 0.6:
                side = "in"
            if side == "any":
                side = rng.choice(["left", "right"])
            if side == "in":
                k = rng.randint(lo[j], hi[j] - 1)
            elif side == "left":
                k = lo[j] - rng.randint(1, reach)
            else:
                k = hi[j] - 1 + rng.randint(1, reach)
            p.append(_coord(rng, ws[j], shifts[j], k))
        return p

    def accept(rows):
        for r in rows:
            for j, v in enumerate(r):
                while v < lo[j] * ws[j] + shifts[j]:
                    lo[j] -= 1
                while v >= hi[j] * ws[j] + shifts[j]:
                    hi[j] += 1

    def good(where=None):
        where = where or rng.choice(["in", "in", "left", "right", "any"])
        if rng.random() < 0.45:
            p = point(where)
            wt = rng.choice([1, 1, 2, 0.5])
            accept([p])
            return {"t": "fill", "v": [rs(x) for x in p], "w": rs(wt), "wk": "pyint" if isinstance(wt, int) else "pyfloat"}
        n = rng.choice([1, 2, 3, 5])
        rows = [point(where if i == 0 else rng.choice(["in", where])) for i in range(n)]
        accept(rows)
        wl = [rs(rng.choice([1, 2, 0.5, 0.25, 3])) for _ in rows] if rng.random() < 0.4 else None
        return {"t": "fill_n", "rows": [[rs(x) for x in r] for r in rows], "ws": wl}

    def bad():
        kind = "wronglen" if only_wronglen else rng.choice(KINDS_1D if d == 1 else KINDS_ND)
        where = rng.choice(["left", "left", "left", "right", "right", "both", "both", "in"])
        n = 1 if kind in POINT_KINDS else rng.choice([1, 2, 2, 3, 4])
        if where == "both":
            n = max(n, 2) if kind not in POINT_KINDS else 1
            rows = [point("left"), point("right")][:n] + [point(rng.choice(["in", "any"])) for _ in range(n - 2)]
        else:
            rows = [point(where)] + [point(rng.choice(["in", where])) for _ in range(n - 1)]
        rng.shuffle(rows)
        return {"t": "bad", "what": kind, "rows": [[rs(x) for x in r] for r in rows], "delta": rng.choice([-1, 1, 1, 2]),
                "pos": rng.randrange(n + 1), "axis": rng.randrange(d), "where": where}

    # contents first
    n0 = rng.randint(2, 6)
    rows = [point("in") for _ in range(n0)]
    steps.append({"t": "fill_n", "rows": [[rs(x) for x in r] for r in rows],
                  "ws": [rs(rng.choice([1, 2, 0.5, 3])) for _ in rows] if rng.random() < 0.3 else None})
    if rng.random() < 0.4:
        steps.append(good())
    steps.append(bad())
    for _ in range(rng.randint(1, 5)):
        steps.append(bad() if rng.random() < 0.3 else good())
    if steps[-1]["t"] == "bad" or rng.random() < 0.5:
        steps.append(good(rng.choice(["left", "right", "any", "in"])))
    if rng.random() < 0.4:
        steps.append(good(rng.choice(["left", "right"])))
    return build({"refused": True, "d": d, "ws": [rs(w) for w in ws], "shifts": [rs(s) for s in shifts], "steps": steps,
                  "klass": "HistogramND" if d == 2 and rng.random() < 0.3 else None,
                  "dtype": rng.choice([None, None, "float64"]), "w": rs(ws[0])})


def build(src) -> dict:
    d = src["d"]
    nd = d > 1
    axes = [gen1.fixed_json(fl(w), 0, 0, shift=fl(s), adaptive=True, align=True) for w, s in zip(src["ws"], src["shifts"])]
    first = {"op": "empty", "out": 0, **({"axes": axes} if nd else {"binning": axes[0]})}
    if src.get("dtype"):
        first["dtype"] = src["dtype"]
    if nd and src.get("klass"):
        first["klass"] = src["klass"]
    ops = [first]
    allv = []
    kinds = []
    for s in src["steps"]:
        if s["t"] == "fill":
            ops.append({"op": "fill", "h": 0, "v": s["v"] if nd else s["v"][0], "w": s["w"], "wk": s["wk"]})
            allv.append(s["v"])
        elif s["t"] == "fill_n":
            if nd:
                ops.append({"op": "fill_n", "h": 0, "rows": s["rows"], "ws": s["ws"], "wkind": "float64"})
            else:
                ops.append({"op": "fill_n", "h": 0, "vs": [r[0] for r in s["rows"]], "ws": s["ws"], "wkind": "float64"})
            allv += s["rows"]
        else:
            kinds.append(s["what"])
            rows = s["rows"]
            if s["what"] == "wronglen":
                # an ordinary fill_n op whose weights do not match the values
                n = len(rows) + s["delta"]
                if n < 0 or n == len(rows):
                    n = len(rows) + 1
                wl = [rs([1, 2, 0.5][i % 3]) for i in range(n)]
                if nd:
                    ops.append({"op": "fill_n", "h": 0, "rows": rows, "ws": wl, "wkind": "float64", "bad": "wronglen"})
                else:
                    ops.append({"op": "fill_n", "h": 0, "vs": [r[0] for r in rows], "ws": wl, "wkind": "float64", "bad": "wronglen"})
            else:
                ops.append({"op": "bad", "h": 0, "what": s["what"], "rows": rows, "pos": s["pos"], "axis": s["axis"],
                            "bad": s["what"]})
    for v in allv:
        ops.append({"op": "find_bin", "h": 0, "v": v if nd else v[0]})
    tags = ["stream:refused", f"ref_d:{d}"] + sorted({"ref:" + k for k in kinds})
    tags += sorted({"ref_where:" + s["where"] for s in src["steps"] if s["t"] == "bad" and s["what"] not in NO_VALUES})
    if all(k == "wronglen" for k in kinds):
        tags.append("ref_modelled")
    if src.get("enumerated"):
        tags.append("ref_enumerated")
    return {"kind": "histn" if nd else "hist1", "fuel": 64, "ops": ops, "tags": tags, "src": src}


def shrink(case):
    src = case["src"]
    for i in range(len(src["steps"]) - 1, -1, -1):
        s2 = copy.deepcopy(src)
        del s2["steps"][i]
        if s2["steps"]:
            yield build(s2)
    for i, st in enumerate(src["steps"]):
        if st["t"] in ("fill_n", "bad") and len(st["rows"]) > 1:
            for j in range(len(st["rows"])):
                s2 = copy.deepcopy(src)
                t = s2["steps"][i]
                del t["rows"][j]
                if t.get("ws") is not None:
                    del t["ws"][j]
                if t["t"] == "bad":
                    t["pos"] = min(t["pos"], len(t["rows"]))
                yield build(s2)


def neighbours(case):
    """the same history with every refused call replaced by each other kind of refused call"""
    src = case["src"]
    for kind in sorted(set(KINDS_1D if src["d"] == 1 else KINDS_ND)):
        s2 = copy.deepcopy(src)
        changed = False
        for st in s2["steps"]:
            if st["t"] == "bad" and st["what"] != kind:
                st["what"] = kind
                if kind in POINT_KINDS:
                    st["rows"] = st["rows"][:1]
                    st["pos"] = 0
                changed = True
        if changed:
            s2["enumerated"] = False
            yield build(s2)


def exhaustive(tier) -> list:
    """kind of refused call x side of its values x what follows, width 1 (1-D) and (1, 1/2) (2-D); the same on every seed"""
    out = []
    v = lambda *xs: [rs(float(x)) for x in xs]
    follow = {
        "fill_in": [{"t": "fill", "v": None, "w": "1", "wk": "pyint"}],
        "fill_right_then_both": [{"t": "fill", "v": "R", "w": "1", "wk": "pyint"},
                                 {"t": "fill_n", "rows": "LR", "ws": ["2", "3"]}],
        "fill_left": [{"t": "fill", "v": "L", "w": "1/2", "wk": "pyfloat"}],
        "fill_n_in_then_left": [{"t": "fill_n", "rows": "IN", "ws": None}, {"t": "fill_n", "rows": "L2", "ws": None}],
    }
    for d in ((1, 2) if tier == "thorough" else (1,)):
        kinds = sorted(set(KINDS_1D if d == 1 else KINDS_ND))
        pad = lambda x: v(x) if d == 1 else v(x, 0.25)
        for kind in kinds:
            for where in ("left", "right", "both"):
                if kind in NO_VALUES and where != "left":
                    continue
                for fname, fsteps in follow.items():
                    rows = {"left": [pad(-2.5), pad(0.5)], "right": [pad(0.5), pad(6.5)], "both": [pad(-2.5), pad(6.5)]}[where]
                    if kind in POINT_KINDS:
                        rows = [rows[0] if where != "right" else rows[1]]
                    steps = [{"t": "fill_n", "rows": [pad(0.5), pad(1.5), pad(1.5), pad(2.5), pad(2.5), pad(2.5)], "ws": None},
                             {"t": "bad", "what": kind, "rows": rows, "delta": -1, "pos": 1 if len(rows) > 1 else 0, "axis": 0,
                              "where": where}]
                    for st in copy.deepcopy(fsteps):
                        if st["t"] == "fill":
                            st["v"] = {None: pad(1.5), "R": pad(5.5), "L": pad(-0.5)}[st["v"]]
                        else:
                            st["rows"] = {"LR": [pad(-0.5), pad(7.5)], "IN": [pad(1.5), pad(0.5)], "L2": [pad(-4.5), pad(2.5)]}[st["rows"]]
                        steps.append(st)
                    c = build({"refused": True, "d": d, "ws": ["1", "1/2"][:d], "shifts": ["0", "0"][:d], "steps": steps,
                               "klass": None, "dtype": None, "w": "1", "enumerated": True})
                    c["tags"] = c["tags"] + ["ref_follow:" + fname]
                    out.append(c)
    return out


# ----------------------------------------------------------------------------------------------- the real library

def _bad(s, op, log):
    """one call the library is expected to refuse; everything is prepared outside the `try`"""
    from physt import h1
    from physt.binnings import FixedWidthBinning
    from physt.histogram1d import Histogram1D
    from physt.histogram_nd import Histogram2D, HistogramND
    x = s.get(op["h"])
    d = x.ndim
    what = op["what"]
    data = np.array([[fl(v) for v in r] for r in op["rows"]], dtype=float).reshape(len(op["rows"]), d)
    n = len(data)

    def with_row(val):
        row = data[min(op["pos"], n - 1)].copy() if n else np.zeros(d)
        row[op["axis"]] = val
        return np.insert(data, min(op["pos"], n), row, axis=0)
    flat = (lambda a: a[:, 0]) if d == 1 else (lambda a: a)
    pt = (lambda r: float(r[0])) if d == 1 else (lambda r: [float(v) for v in r])
    if what == "shape2d":
        call = lambda: x.fill_n(flat(data), np.ones((1, n)))
    elif what == "bool":
        call = lambda: x.fill_n(flat(data), np.array([i % 2 == 0 for i in range(n)]))
    elif what == "str":
        call = lambda: x.fill_n(flat(data), np.array(["a"] * n))
    elif what == "nan_keep":
        a = with_row(np.nan)
        call = lambda: x.fill_n(flat(a), dropna=False)
    elif what in ("inf", "neginf"):
        a = with_row(np.inf if what == "inf" else -np.inf)
        call = lambda: x.fill_n(flat(a))
    elif what == "fill_big":
        call = lambda: x.fill(pt(data[0]), 1e200)
    elif what == "fill_inf":
        r = data[0].copy()
        r[op["axis"]] = np.inf
        call = lambda: x.fill(pt(r))
    elif what == "fill_wrong_dim":
        call = lambda: x.fill([float(v) for v in data[0]] + [0.0])
    elif what == "wrong_cols":
        a = np.hstack([data, np.zeros((n, 1))])
        call = lambda: x.fill_n(a)
    elif what in ("iadd_width", "iadd_static", "iadd_dim"):
        bs = [x.binning] if d == 1 else list(x.binnings)
        if what == "iadd_width" or (what == "iadd_static" and d > 1):
            others = [FixedWidthBinning(bin_width=2 * b.bin_width, adaptive=True) for b in bs]
            other = Histogram1D(others[0]) if d == 1 else (Histogram2D if d == 2 else HistogramND)(others)
            other.fill(pt(np.array([0.5 * b.bin_width for b in bs])))
        elif what == "iadd_static":
            other = h1([0.5, 7.0], [0.0, 3.0, 9.0])
        else:
            if d == 1:
                other = Histogram2D([FixedWidthBinning(bin_width=bs[0].bin_width, adaptive=True) for _ in range(2)])
            else:
                other = Histogram1D(FixedWidthBinning(bin_width=bs[0].bin_width, adaptive=True))

        def call():
            y = x
            y += other
            s.set(op["h"], y)
    else:
        raise KeyError(what)
    try:
        import warnings
        with warnings.catch_warnings():
            warnings.simplefilter("ignore")
            call()
        log.append(f"bad:{what} was ACCEPTED")
        return "accepted"
    except KeyError:
        raise
    except Exception as e:
        log.append(f"bad:{what}: {type(e).__name__}: {e}"[:200])
        return impl1.REFUSED


def _run(case, observed=True):
    nd = case["kind"] == "histn"
    step = implnd.step if nd else impl1.step
    snap = implnd.snapn if nd else impl1.snap1
    s = impl1.Store()
    outs, log = [], []
    ret = None

    def state():
        return {"ret": ret, "regs": [None if x is None else snap(x) for x in s.regs], "_sharing": _sharing(s.regs)}
    for op in case["ops"]:
        ret = _bad(s, op, log) if op["op"] == "bad" else step(s, op, log)
        if observed:
            outs.append(state())
    return (outs, log) if observed else state()


def run_impl(case) -> dict:
    outs, log = _run(case)
    io = {"outs": outs, "log": log}
    if len(case["ops"]) >= 2:
        io["unobserved_outs"] = outs[:-1] + [_run(case, observed=False)]
    return io


def model_case(case):
    if any(op["op"] == "bad" for op in case["ops"]):
        return None         # the driver's op language has none of these calls: oracle only
    return case


# ----------------------------------------------------------------------------------------------- the oracle

def oracle(case, io) -> list:
    outs, ops = io["outs"], case["ops"]
    src = case["src"]
    nd = case["kind"] == "histn"
    d = src["d"]
    grid = [(fl(w), fl(s)) for w, s in zip(src["ws"], src["shifts"])]
    fails = []
    entered = []            # accepted (coordinates, weight)
    tried = [[] for _ in range(d)]       # finite coordinates of refused calls, per axis
    last_refused = None
    for k, op in enumerate(ops):
        ret = outs[k]["ret"]
        snap = outs[k]["regs"][0]
        if op.get("bad"):
            if ret != impl1.REFUSED:
                return fails[:6]        # the call was accepted: what it entered is not pinned here
            last_refused = (k, op["bad"])
            rows = op["rows"] if "rows" in op else [[v] for v in op["vs"]]
            if op["bad"] not in NO_VALUES:
                for r in rows:
                    for a in range(d):
                        tried[a].append(F(r[a]))
        elif ret == impl1.REFUSED:
            after = f" (after the refused call {last_refused[1]} at step {last_refused[0]})" if last_refused else ""
            fails.append(f"refused_valid: step {k}, a valid {op['op']}{after}, was refused: " + "; ".join(io["log"][-1:]))
            return fails[:6]
        elif op["op"] == "fill":
            entered.append(([F(x) for x in (op["v"] if nd else [op["v"]])], F(op["w"])))
        elif op["op"] == "fill_n":
            rows = op["rows"] if nd else [[v] for v in op["vs"]]
            for j, r in enumerate(rows):
                entered.append(([F(x) for x in r], F(op["ws"][j]) if op["ws"] is not None else F(1)))
        if k == 0:
            continue
        axes, shape, fq, e2, missed = _norm(snap, nd)
        at_step = f"step {k} ({op.get('bad') and 'refused ' + op['bad'] or op['op']})"
        if op["op"] == "find_bin":
            r = ret if nd else [ret]
            v = [F(x) for x in (op["v"] if nd else [op["v"]])]
            if not (isinstance(r, list) and len(r) == d and all(isinstance(i, int) and 0 <= i < len(B) for i, B in zip(r, axes))):
                fails.append(f"lost_value: find_bin({[_ff(x) for x in v]}) = {ret}: the accepted point is in no cell")
            elif not all(B[i][0] <= x < B[i][1] for i, B, x in zip(r, axes, v)):
                fails.append(f"inside: find_bin({[_ff(x) for x in v]}) = {ret}, but the point is not inside that cell")
            continue
        # well-formed
        cells = 1
        for B in axes:
            cells *= len(B)
        if list(shape) != [len(B) for B in axes] or len(fq) != cells or len(e2) != cells or snap.get("_shape_ok") is False:
            fails.append(f"malformed: {at_step}: {[len(B) for B in axes]} bins, but {len(fq)} contents and {len(e2)} squared "
                         f"errors (shape {shape})")
            if len(fails) >= 6:
                break
            continue
        if any(not B for B in axes):
            if entered:
                fails.append(f"no_bins: {at_step}: an axis has no bins although values were accepted")
            continue
        tot = sum((w for _, w in entered), F(0))
        if F(snap["total"]) != tot:
            fails.append(f"total: {at_step}: total is {snap['total']}, weight accepted is {tot}")
        if any(x != "0" for x in missed):
            fails.append(f"missed_nonzero: {at_step}: underflow / overflow / missed = {missed}")
        for a, B in enumerate(axes):
            at = f"axis {a}: " if nd else ""
            if any(B[i][1] != B[i + 1][0] for i in range(len(B) - 1)) or not all(l < r for l, r in B):
                fails.append(f"not_contiguous: {at_step}: {at}bins are not contiguous and rising")
            gw, gs = grid[a]
            edges = [float(b[0]) for b in B] + [float(B[-1][1])]
            k0 = round((edges[0] - gs) / gw)
            if any(F((k0 + i) * gw + gs) != F(x) for i, x in enumerate(edges)):
                fails.append(f"off_grid: {at_step}: {at}the edges are not shift + k*width for consecutive k")
            xs = [p[a] for p, _ in entered]
            if not xs:
                if not any(B[0][0] <= c for c in tried[a]) or not any(c < B[-1][1] for c in tried[a]):
                    fails.append(f"span: {at_step}: {at}bins beyond every value of any call")
                continue
            lo, hi = min(xs), max(xs)
            if not any(B[0][0] <= c < B[0][1] for c in [lo] + [t for t in tried[a] if t < lo]):
                fails.append(f"span_low: {at_step}: {at}the first bin [{_ff(B[0][0])}, {_ff(B[0][1])}) holds neither the smallest "
                             f"accepted value {_ff(lo)} nor a smaller value of a refused call")
            if not any(B[-1][0] <= c < B[-1][1] for c in [hi] + [t for t in tried[a] if t > hi]):
                fails.append(f"span_high: {at_step}: {at}the last bin [{_ff(B[-1][0])}, {_ff(B[-1][1])}) holds neither the largest "
                             f"accepted value {_ff(hi)} nor a larger value of a refused call")
        # every cell holds exactly what accepted calls entered inside its intervals
        lefts = [[b[0] for b in B] for B in axes]
        exp_f, exp_e = {}, {}
        lost = None
        for p, w in entered:
            ix = [_locate(B, L, x) for B, L, x in zip(axes, lefts, p)]
            if any(i is None for i in ix):
                lost = lost or p
                continue
            pos = _flat(ix, shape)
            exp_f[pos] = exp_f.get(pos, F(0)) + w
            exp_e[pos] = exp_e.get(pos, F(0)) + w * w
        if lost is not None:
            fails.append(f"lost_value: {at_step}: the accepted point {[_ff(x) for x in lost]} is in no cell")
        for pos in range(len(fq)):
            if F(fq[pos]) != exp_f.get(pos, F(0)):
                ix, rem = [], pos
                for nn in reversed(shape):
                    ix.insert(0, rem % nn)
                    rem //= nn
                iv = [[_ff(B[i][0]), _ff(B[i][1])] for i, B in zip(ix, axes)]
                fails.append(f"content: {at_step}: the cell {iv} holds {fq[pos]}; accepted calls entered {exp_f.get(pos, F(0))} "
                             f"inside it (contents moved away from their interval)")
                break
            if F(e2[pos]) != exp_e.get(pos, F(0)):
                fails.append(f"errors2: {at_step}: cell {pos} of shape {shape} holds {e2[pos]}; squares accepted inside it: "
                             f"{exp_e.get(pos, F(0))}")
                break
        if len(fails) >= 6:
            break
    return fails[:6]


def nontrivial(case, io) -> bool:
    rets = [o["ret"] for o, op in zip(io["outs"], case["ops"]) if op["op"] != "find_bin"]
    if impl1.REFUSED not in rets:
        return False
    i = rets.index(impl1.REFUSED)
    return any(r != impl1.REFUSED for r in rets[i + 1:])

"""C05 companion, stream `bins_vs_params`: operands that agree in every SUMMARY of their binning but not in their bins.

The refusal clause of C05 ("operands with incompatible bins, without adaptivity, are refused") was exercised only with a
right operand that has a different NUMBER of bins.  Here the two operands are built so that everything one might compare
instead of the bins agrees -- bin width, bin count, grid index of the first bin, number of edges, class of the binning --
while the bins themselves differ (fixed-width grids shifted against each other), or the other way round: the bins are the
same and the descriptions differ (static / numpy / fixed-width objects, arrays of pairs / edges over one set of edges; a grid
offset that differs by a whole period; only `includes_right_edge` differs).  Edges that differ by one ulp / by less than /
by more than numpy's allclose tolerance are generated too; the tolerance itself is not judged (DESIGN 9.4).

For every pair (a over data A, b over data B):  a + b,  b + a,  c = a.copy(); c += b,  sum([a, b])  and (1-D)
HistogramCollection(a, b).sum(),  HistogramCollection(a).add(b) + .sum();  and h(A and B together) over a's and b's bins.

Oracle (what the property text pins, on the implementation's own observations):
  * bins differ clearly (some edge by more than 2 x the allclose tolerance, or another number of bins) and no operand is
    adaptive (or the operands are adaptive but on grids that cannot be united)  =>  every one of the calls is refused;
  * bins exactly equal  =>  `+`, `+=`, sum() are not refused (collections: only demanded for identical binning objects);
  * whatever was accepted (bins equal or within the band) is over the bins of one of the operands (of both, when equal) and
    holds the pointwise sums of contents, squared errors, missed weight, total, statistics; dtype = numpy promotion;
    with equal bins it equals h(A and B together) over those bins and does not depend on the order;
  * the operands (and the left operand of a refused `+=`) read the same before and after every call.

Register layout:   0 a   1 b   2 a+b   3 b+a   4 a.copy() then += b   5 sum([a, b])
    1-D: 6 HistogramCollection(a, b).sum()   7 HistogramCollection(a).add(b) -> sum()   8 / 9 h(A and B) over a's / b's bins
    N-d: 6 / 7 h(A and B) over a's / b's bins
The equivalent op list of the 1-D / N-d op language goes to the Lean driver (collection sums as `sum`, the N-d sum() as `add`);
binnings the library derives from the data (`h1(A, "fixed_width", bin_width=w, align=False)`, `FixedWidthBinning(min=...)`)
reach the model as the parameters the implementation reports for them (the derivation is C07's subject, not C05's).
Pairs in the tolerance band are not sent to the model (it compares bins exactly).
"""
from __future__ import annotations

import copy
from fractions import Fraction

import numpy as np

from .. import gen1, impl1
from ..core import rs
from ..runner import diff_outputs

STREAM = "stream:bins_vs_params"
WIDTHS = [1.0, 0.5, 0.25, 2.0, 0.1, 2.5]
FRACS = [0.0, 0.1, 0.25, 0.35, 0.5, 0.75]
RELS = ["shifted"] * 6 + ["class"] * 2 + ["near"] * 2 + ["ire", "identical"]
ATOL, RTOL = Fraction(1, 10**8), Fraction(1, 10**5)          # numpy.allclose defaults (has_same_bins)
T9 = Fraction(1, 10**9)
CALLS_1D = ["a+b", "b+a", "a+=b", "sum", "coll", "coll_add"]
CALLS_ND = ["a+b", "b+a", "a+=b", "sum"]
REG = {"a+b": 2, "b+a": 3, "a+=b": 4, "sum": 5, "coll": 6, "coll_add": 7}
SPOKEN = {"a+b": "a + b", "b+a": "b + a", "a+=b": "a += b", "sum": "sum([a, b])", "coll": "HistogramCollection(a, b).sum()",
          "coll_add": "HistogramCollection(a).add(b) / .sum()"}


def tol(x: Fraction, y: Fraction) -> Fraction:
    return ATOL + RTOL * max(abs(x), abs(y))


def ftol(x: float) -> float:
    return 1e-8 + 1e-5 * abs(x)


# ---------------------------------------------------------------------------------------------- binning pairs
def fixed_edges(w, tmin, count, shift):
    """the edges of a fixed-width binning, computed as FixedWidthBinning.numpy_bins computes them"""
    return [(tmin + i) * w + shift for i in range(count + 1)]


def edges_of(j):
    if j["t"] == "fixed":
        return fixed_edges(impl1.fl(j["w"]), j["tmin"], j["count"], impl1.fl(j["shift"]))
    return [impl1.fl(j["bins"][0][0])] + [impl1.fl(p[1]) for p in j["bins"]]


def _of_form(form, w, tmin, count, shift, ire):
    if form == "fixed":
        return gen1.fixed_json(w, tmin, count, shift=shift, ire=ire)
    e = fixed_edges(w, tmin, count, shift)
    return gen1.binning_json([[e[i], e[i + 1]] for i in range(count)], ire=ire, form=form)


def gen_pair(rng, rel, allow_adaptive=True):
    """two binnings (gen1 JSON) in the relation `rel`, and how exactly they are related"""
    w = rng.choice(WIDTHS)
    tmin, count = rng.randint(-6, 6), rng.randint(1, 5)
    if rel == "shifted":
        fa, fb = rng.sample(FRACS, 2)
        sa, sb = fa * w, fb * w
        tb, cb = tmin, count
        how = rng.choice(["clear"] * 8 + ["tiny", "ulp", "period", "count", "tmin"])
        if how == "tiny":
            sb = sa + 1e-7 * w
        elif how == "ulp":
            sb = gen1.nxt(sa, True)
        elif how == "period":                      # the offset differs by a whole bin width, the first index by one: same bins
            sb, tb = sa + w, tmin - 1
        elif how == "count":
            cb = count + 1
        elif how == "tmin":
            tb = tmin + 1
        ad_a = ad_b = False
        if allow_adaptive and how == "clear" and rng.random() < 0.25:
            ad_a = rng.random() < 0.7
            ad_b = (not ad_a) or rng.random() < 0.5
        ire = rng.random() < 0.2 and not (ad_a or ad_b)      # (physt refuses adaptivity together with right-edge inclusion)
        return (gen1.fixed_json(w, tmin, count, shift=sa, adaptive=ad_a, ire=ire),
                gen1.fixed_json(w, tb, cb, shift=sb, adaptive=ad_b, ire=ire), how)
    shift = rng.choice(FRACS) * w
    if rel == "class":
        fa, fb = rng.sample(["fixed", "static_obj", "numpy_obj", "pairs", "edges"], 2)
        return _of_form(fa, w, tmin, count, shift, True), _of_form(fb, w, tmin, count, shift, True), f"{fa}/{fb}"
    if rel == "ire":
        fa, fb = rng.choice(["fixed", "static_obj", "numpy_obj"]), rng.choice(["fixed", "static_obj", "numpy_obj"])
        ia = rng.random() < 0.5
        return _of_form(fa, w, tmin, count, shift, ia), _of_form(fb, w, tmin, count, shift, not ia), f"{fa}/{fb}"
    if rel == "identical":
        f = rng.choice(["fixed", "fixed", "static_obj", "numpy_obj", "pairs", "edges"])
        j = _of_form(f, w, tmin, count, shift, True if f in ("pairs", "edges") else rng.random() < 0.5)
        return j, copy.deepcopy(j), f
    # "near": explicit edges (moderate size, so that the tolerance stays far below the bin widths); b's edges are a's, one or
    # all of them moved by one ulp / a tenth of the allclose tolerance / 30 x the tolerance / a quarter of the smallest bin
    n = rng.randint(1, 5)
    e = [rng.randint(-20, 20) * 0.25]
    for _ in range(n):
        e.append(e[-1] + rng.choice([0.25, 0.5, 1.0, 1.5, 0.1, 0.7]))
    e = [e[0]] + [x for i, x in enumerate(e[1:]) if x > e[i]]
    how = rng.choice(["ulp", "within", "beyond", "beyond", "far"])
    which = None if rng.random() < 0.3 else rng.randrange(len(e))
    step = min(e[i + 1] - e[i] for i in range(len(e) - 1))

    def moved(x):
        if how == "ulp":
            return gen1.nxt(x, True)
        if how == "within":
            return x + 0.1 * ftol(x)
        if how == "beyond":
            return x + 30 * ftol(x)
        return x + 0.25 * step
    e2 = [moved(x) if which in (None, i) else x for i, x in enumerate(e)]
    if not all(e2[i] < e2[i + 1] for i in range(len(e2) - 1)):
        e2 = e[:-1] + [e[-1] + 0.25 * step]
        how = "far"
    forms = ["static_obj", "numpy_obj", "pairs", "edges"]
    mk = lambda ee, f: gen1.binning_json([[ee[i], ee[i + 1]] for i in range(len(ee) - 1)], ire=True, form=f)
    return mk(e, rng.choice(forms)), mk(e2, rng.choice(forms)), how


def respell(rng, j, force=None):
    """how the binning is handed to the library: as the object made from the JSON, or (fixed-width) one of the other spellings"""
    if j["t"] != "fixed":
        return {"spell": "json", "json": j}
    s = force or rng.choice(["json", "json", "min", "noalign", "shiftkw"])
    w, shift = impl1.fl(j["w"]), impl1.fl(j["shift"])
    if s != "json" and not 0 <= shift < w:
        s = "json"
    if s in ("noalign", "shiftkw") and j["ire"]:
        s = "min"
    return {"spell": s, "json": j}


def values_for(rng, spec, other_edges, n, on_last_edge=True):
    """values for an operand: on / beside its own edges and the other operand's, inside, outside; for the spellings that take
    the bins from the data: the smallest value fixes the first bin and the largest lies in the last one"""
    j = spec["json"]
    e = edges_of(j)
    w = min(e[i + 1] - e[i] for i in range(len(e) - 1))
    mids = [e[i] + (e[i + 1] - e[i]) * q for i in range(len(e) - 1) for q in (0.25, 0.5, 0.75)]
    if spec["spell"] in ("noalign", "shiftkw"):
        lo = e[0] if spec["spell"] == "noalign" else e[0] + 0.25 * w
        hi = e[-2] + 0.5 * (e[-1] - e[-2])
        if hi < lo:
            hi = lo
        pool = [x for x in e[:-1] + mids + list(other_edges) if lo <= x <= hi]
        return [lo, hi] + [rng.choice(pool) for _ in range(max(0, n - 2))]
    if j["t"] == "fixed" and j.get("adaptive"):
        return [rng.choice(mids) for _ in range(n)]            # strictly inside: the construction does not extend the bins
    pool = e[:-1] * 2 + mids * 2 + list(other_edges) + [gen1.nxt(rng.choice(e), rng.random() < 0.5), e[0] - 0.5 * w, e[-1] + 0.5 * w,
                                                        e[0] - 7.0, e[-1] + 7.0]
    if on_last_edge:
        pool += [e[-1]] * 2
    return [rng.choice(pool) for _ in range(n)]


def weights_for(rng, n):
    kind = rng.choice(["none", "none", "int", "dyadic"])
    if kind == "none":
        return None, None
    if kind == "int":
        return [rs(rng.randint(0, 5)) for _ in range(n)], "int64"
    return [rs(rng.randint(0, 24) / 4) for _ in range(n)], "float64"


# ---------------------------------------------------------------------------------------------- generation
def gen(rng):
    rel = rng.choice(RELS)
    if rng.random() < 0.25:
        return gen_nd(rng, rel)
    ja, jb, how = gen_pair(rng, rel)
    force = rng.choice(["json", "min", "noalign", "shiftkw"]) if rel == "identical" else None
    sa = respell(rng, ja, force)
    sb = respell(rng, jb, sa["spell"] if rel == "identical" else None)
    ea, eb = edges_of(ja), edges_of(jb)
    if rel == "identical" and sa["spell"] in ("noalign", "shiftkw"):
        sb = copy.deepcopy(sa)
    opnds = []
    for spec, other in ((sa, eb), (sb, ea)):
        n = rng.choice([0, 1, 2, 4, 6])
        if spec["spell"] in ("noalign", "shiftkw"):
            n = max(n, 2)
        vals = values_for(rng, spec, other, n)
        ws, wk = weights_for(rng, len(vals))
        opnds.append({"b": spec, "vals": gen1.enc_vals(vals), "ws": ws, "wkind": wk})
    src = {"nd": False, "rel": rel, "how": how, "a": opnds[0], "b": opnds[1]}
    return build(src)


def gen_nd(rng, rel):
    d = rng.choice([2, 2, 3])
    k = rng.randrange(d)
    if rel == "ire":
        rel = "shifted"
    if d == 2 and rel == "shifted" and rng.random() < 0.3:
        # both axes taken from the data by the facade: h2(x, y, "fixed_width", bin_width=w, align=False); the x values of both
        # operands span the same bins, the y values start at different offsets
        w = rng.choice(WIDTHS)
        fa, fb = rng.sample(FRACS, 2)
        tmin, count = rng.randint(-6, 6), rng.randint(1, 4)
        shared = gen1.fixed_json(w, rng.randint(-6, 6), rng.randint(1, 4), shift=rng.choice(FRACS) * w)
        axes_a, axes_b = [None, None], [None, None]
        axes_a[1 - k] = axes_b[1 - k] = shared
        axes_a[k] = gen1.fixed_json(w, tmin, count, shift=fa * w)
        axes_b[k] = gen1.fixed_json(w, tmin, count, shift=fb * w)
        opnds = []
        for axes, others in ((axes_a, axes_b), (axes_b, axes_a)):
            n = rng.choice([2, 3, 5])
            cols = [values_for(rng, {"spell": "noalign", "json": axes[i]}, edges_of(others[i]), n) for i in range(2)]
            for c in cols:
                rng.shuffle(c)
            rows = [[cols[0][r], cols[1][r]] for r in range(n)]
            ws, wk = weights_for(rng, n)
            opnds.append({"spell": "h2_noalign", "w": rs(w), "axes": copy.deepcopy(axes), "rows": [gen1.enc_vals(r) for r in rows], "ws": ws, "wkind": wk})
        return build({"nd": True, "d": 2, "rel": rel, "how": "clear", "axis": k, "a": opnds[0], "b": opnds[1]})
    ja, jb, how = gen_pair(rng, rel, allow_adaptive=False)
    axes_a, axes_b = [], []
    for i in range(d):
        if i == k:
            axes_a.append(ja); axes_b.append(jb)
        else:
            j, j2, _ = gen_pair(rng, "identical")
            axes_a.append(j); axes_b.append(j2)
    opnds = []
    for axes, others in ((axes_a, axes_b), (axes_b, axes_a)):
        n = rng.choice([0, 1, 3, 5])
        cols = [values_for(rng, {"spell": "json", "json": axes[i]}, edges_of(others[i]), n, on_last_edge=False) for i in range(d)]
        rows = [[cols[i][r] for i in range(d)] for r in range(n)]
        ws, wk = weights_for(rng, n)
        opnds.append({"spell": "objs", "axes": axes, "rows": [gen1.enc_vals(r) for r in rows], "ws": ws, "wkind": wk})
    return build({"nd": True, "d": d, "rel": rel, "how": how, "axis": k, "a": opnds[0], "b": opnds[1]})


def concat(x, y, key):
    """values / rows, weights (or None) and the weight type of both operands' data together (absent weights are 1)"""
    vals = x[key] + y[key]
    if x["ws"] is None and y["ws"] is None:
        return vals, None, None
    ws = (x["ws"] if x["ws"] is not None else ["1"] * len(x[key])) + (y["ws"] if y["ws"] is not None else ["1"] * len(y[key]))
    kinds = {o["wkind"] for o in (x, y) if o["ws"] is not None}
    return vals, ws, "float64" if "float64" in kinds else "int64"


def _derived(o, nd):
    """is the operand's binning computed by the library from the data / from `min` (then the model gets the reported parameters)"""
    return (o["spell"] == "h2_noalign") if nd else (o["b"]["spell"] != "json")


def _adaptive(o, nd):
    js = o["axes"] if nd else [o["b"]["json"]]
    return any(j["t"] == "fixed" and j.get("adaptive") for j in js)


def build(src):
    nd = src["nd"]
    a, b = src["a"], src["b"]
    ops, stages = [], []

    def stage(name):
        stages.append([name, len(ops) - 1])

    def construct(out, o, who, data=None):
        vals, ws, wk = data if data is not None else (o["rows" if nd else "vals"], o["ws"], o["wkind"])
        if nd:
            axes = {"from_impl": who} if _derived(o, nd) else o["axes"]
            ops.append({"op": "construct", "out": out, "axes": axes, "rows": vals, "weights": ws, "wkind": wk})
        else:
            binning = {"from_impl": who} if _derived(o, nd) else o["b"]["json"]
            ops.append({"op": "construct", "out": out, "binning": binning, "data": vals, "weights": ws, "wkind": wk})

    construct(0, a, 0)
    construct(1, b, 1)
    stage("build")
    ops.append({"op": "add", "a": 0, "b": 1, "out": 2}); stage("a+b")
    ops.append({"op": "add", "a": 1, "b": 0, "out": 3}); stage("b+a")
    ops.append({"op": "copy", "h": 0, "out": 4}); stage("copy")
    ops.append({"op": "iadd", "h": 4, "o": 1}); stage("a+=b")
    if nd:
        ops.append({"op": "add", "a": 0, "b": 1, "out": 5}); stage("sum")
        first_ref = 6
    else:
        ops.append({"op": "sum", "hs": [0, 1], "out": 5}); stage("sum")
        ops.append({"op": "sum", "hs": [0, 1], "out": 6}); stage("coll")
        ops.append({"op": "sum", "hs": [0, 1], "out": 7}); stage("coll_add")
        first_ref = 8
    refs = not (_adaptive(a, nd) or _adaptive(b, nd))
    if refs:
        both = concat(a, b, "rows" if nd else "vals")
        construct(first_ref, a, 0, both); stage("ref_a")
        construct(first_ref + 1, b, 1, both); stage("ref_b")
    spells = sorted({o["spell"] if nd else o["b"]["spell"] for o in (a, b)})
    # ("stream:..." tags are always listed in the evidence, the finer "bv:..." ones when they are among the most frequent)
    tags = [STREAM, f"{STREAM}/{'nd' if nd else '1d'}", f"{STREAM}/rel:{src['rel']}", f"bv:how:{src['rel']}:{src['how']}"]
    tags += [f"bv:spell:{s}" for s in spells]
    tags += [f"{STREAM}/adaptive_operand"] if not refs else []
    case = {"kind": "histn" if nd else "hist1", "sub": "binsvs", "ops": ops, "stages": stages, "tags": tags, "src": src,
            "first_ref": first_ref if refs else None}
    if nd:
        case["fuel"] = 64
    return case


# ---------------------------------------------------------------------------------------------- implementation
def _weights(o):
    return None if o["ws"] is None else impl1.arr(o["ws"], np.dtype(o["wkind"] or "float64"))


def _make1(o):
    from physt import h1
    from physt.binnings import FixedWidthBinning
    spec = o["b"]
    j = spec["json"]
    data, w = impl1.arr(o["vals"]), _weights(o)
    s = spec["spell"]
    if s == "json":
        return h1(data, impl1.mk_binning(j), weights=w)
    bw = impl1.fl(j["w"])
    if s == "min":
        first = j["tmin"] * bw + impl1.fl(j["shift"])
        return h1(data, FixedWidthBinning(bin_width=bw, bin_count=j["count"], min=first, adaptive=j.get("adaptive", False),
                                          includes_right_edge=j.get("ire", False)), weights=w)
    if s == "noalign":
        return h1(data, "fixed_width", bin_width=bw, align=False, adaptive=j.get("adaptive", False), weights=w)
    if s == "shiftkw":
        return h1(data, "fixed_width", bin_width=bw, bin_shift=impl1.fl(j["shift"]), adaptive=j.get("adaptive", False), weights=w)
    raise KeyError(s)


def _maken(o, d):
    from physt import h, h2
    from .. import implnd
    rows, w = implnd.rows_arr(o["rows"], d), _weights(o)
    if o["spell"] == "h2_noalign":
        return h2(rows[:, 0], rows[:, 1], "fixed_width", bin_width=impl1.fl(o["w"]), align=False, weights=w)
    return h(rows, [impl1.mk_binning(j) for j in o["axes"]], weights=w)


def run_impl(case):
    from physt import h, h1
    from physt.histogram_collection import HistogramCollection
    from .. import implnd

    src = case["src"]
    nd = src["nd"]
    a_src, b_src = src["a"], src["b"]
    names = [n for n, _ in case["stages"]]
    s = impl1.Store()
    log: list = []
    outs: list = []
    io = {"outs": outs, "log": log}
    snapf = implnd.snapn if nd else impl1.snap1

    def snap(name, ret="ok"):
        outs.append({"stage": name, "ret": ret, "regs": [None if x is None else snapf(x) for x in s.regs]})

    def attempt(name, f, reg=None):
        try:
            r = f()
            if reg is not None:
                s.set(reg, r)
            snap(name)
            return True
        except Exception as e:
            log.append(f"{name}: {type(e).__name__}: {e}"[:200])
            snap(name, impl1.REFUSED)
            return False

    mk = (lambda o: _maken(o, src["d"])) if nd else _make1
    try:
        a, b = mk(a_src), mk(b_src)
    except Exception as e:
        log.append(f"build: {type(e).__name__}: {e}"[:200])
        snap("build", impl1.REFUSED)
        return io
    s.set(0, a); s.set(1, b)
    binnings = lambda x: list(x.binnings) if nd else [x.binning]
    io["meta"] = [[impl1.binning_meta(q) for q in binnings(x)] for x in (a, b)]
    snap("build")
    attempt("a+b", lambda: a + b, 2)
    attempt("b+a", lambda: b + a, 3)
    attempt("copy", lambda: a.copy(), 4)

    def iadd():
        x = s.get(4)
        x += b
        return x
    attempt("a+=b", iadd, 4)
    attempt("sum", lambda: sum([a, b]), 5)
    if not nd:
        attempt("coll", lambda: HistogramCollection(a, b).sum(), 6)

        def coll_add():
            c = HistogramCollection(a)
            c.add(b)
            return c.sum()
        attempt("coll_add", coll_add, 7)
    if "ref_a" in names:
        key = "rows" if nd else "vals"
        vals, ws, wk = concat(a_src, b_src, key)
        w = None if ws is None else impl1.arr(ws, np.dtype(wk))
        for name, o, x, reg in (("ref_a", a_src, a, case["first_ref"]), ("ref_b", b_src, b, case["first_ref"] + 1)):
            if nd:
                data = implnd.rows_arr(vals, src["d"])
                over = [q.copy() for q in x.binnings] if _derived(o, nd) else [impl1.mk_binning(j) for j in o["axes"]]
                attempt(name, lambda: h(data, over, weights=w), reg)
            else:
                data = impl1.arr(vals)
                over = x.binning.copy() if _derived(o, nd) else impl1.mk_binning(o["b"]["json"])
                attempt(name, lambda: h1(data, over, weights=w), reg)
    return io


# ---------------------------------------------------------------------------------------------- classification
def axes_bins(snap, nd):
    return snap["bins"] if nd else [snap["bins"]]


def classify(x, y, nd):
    """`same`: every bin edge exactly equal; `differ`: another number of bins or some edge differing by more than twice numpy's
    allclose tolerance; `band`: in between (whether such bins count as equal is not pinned by the property)"""
    bx, by = axes_bins(x, nd), axes_bins(y, nd)
    if bx == by:
        return "same"
    if len(bx) != len(by) or any(len(p) != len(q) for p, q in zip(bx, by)):
        return "differ"
    for p, q in zip(bx, by):
        for (l1, r1), (l2, r2) in zip(p, q):
            for u, v in ((Fraction(l1), Fraction(l2)), (Fraction(r1), Fraction(r2))):
                if abs(u - v) > 2 * tol(u, v):
                    return "differ"
    return "band"


def params_equal_bins_differ(meta):
    """some axis: two fixed-width binnings equal in width, count and first grid index, different in their offset"""
    for p, q in zip(*meta):
        if p["t"] == q["t"] == "fixed" and (p["w"], p["count"], p["tmin"]) == (q["w"], q["count"], q["tmin"]) and p["shift"] != q["shift"]:
            return True
    return False


def grids_cannot_unite(meta, x, y, nd):
    """adaptive operands: is there an axis on which the two are not fixed-width binnings of one grid (different width, or offsets
    that differ clearly, also modulo the width)"""
    for i, (p, q) in enumerate(zip(*meta)):
        if axes_bins(x, nd)[i] == axes_bins(y, nd)[i]:
            continue
        if not (p["t"] == q["t"] == "fixed"):
            return True
        wp, wq = Fraction(p["w"]), Fraction(q["w"])
        if wp != wq:
            if abs(wp - wq) > wp / 1000:
                return True
            continue
        dlt = (Fraction(p["shift"]) - Fraction(q["shift"])) % wp
        if min(dlt, wp - dlt) > wp / 100:
            return True
    return False


def dynamic_tags(case, io):
    outs = io["outs"]
    if not outs or outs[0]["ret"] != "ok":
        return [f"{STREAM}/build_refused"]
    nd = case["src"]["nd"]
    regs = outs[0]["regs"]
    cls = classify(regs[0], regs[1], nd)
    t = [f"{STREAM}/bins:{cls}"]
    if cls == "differ" and params_equal_bins_differ(io["meta"]):
        t.append(f"{STREAM}/params_equal_bins_differ")
    st = {o["stage"]: o["ret"] for o in outs}
    t.append(f"{STREAM}/{'accepted' if st.get('a+b') == 'ok' else 'refused'}")
    return t


# ---------------------------------------------------------------------------------------------- model
def model_case(case, io):
    outs = io["outs"]
    if outs[0]["ret"] != "ok":
        return None                      # nothing was built
    nd = case["src"]["nd"]
    if classify(outs[0]["regs"][0], outs[0]["regs"][1], nd) == "band":
        return None                      # the model compares bins exactly; the tolerance is not the property's subject
    ops = copy.deepcopy(case["ops"])
    for op in ops:
        if op["op"] != "construct":
            continue
        if nd and isinstance(op["axes"], dict):
            op["axes"] = [dict(m, align=True) for m in io["meta"][op["axes"]["from_impl"]]]
        elif not nd and "from_impl" in op["binning"]:
            op["binning"] = dict(io["meta"][op["binning"]["from_impl"]][0], align=True)
    mc = {"kind": case["kind"], "ops": ops}
    if nd:
        mc["fuel"] = case.get("fuel", 64)
    return mc


def diff(case, model_ok, io, keep):
    outs = io["outs"]
    nreg = 10
    skipped: set = set()
    msel, isel = [], []
    for (name, k), o in zip(case["stages"], outs):
        mo = model_ok[k]
        mret, iret = mo["ret"], o["ret"]
        if name in ("coll", "coll_add") and iret != "ok":
            # a collection may refuse members whose binning objects differ although the bins are equal (another class,
            # another includes_right_edge): the op language has no such call, and the property does not pin it
            skipped.add(REG[name])
            mret = iret = "not compared"
        if name == "copy":
            mret = iret = "ok"
        pad = lambda regs: [None if (i in skipped or i >= len(regs)) else regs[i] for i in range(nreg)]
        msel.append({"stage": name, "ret": mret, "regs": pad(mo["regs"])})
        isel.append({"stage": name, "ret": iret, "regs": pad(o["regs"])})
    return diff_outputs(msel, isel, keep, None)


# ---------------------------------------------------------------------------------------------- oracle
def _num(x):
    return None if x is None else Fraction(x)


def _public(snap):
    return None if snap is None else {k: v for k, v in snap.items() if not k.startswith("_")}


def _changed(x, y):
    x, y = _public(x), _public(y)
    return [] if x == y else [f for f in x if x[f] != y.get(f)]


def _missed_fields(nd):
    return ("missed",) if nd else ("under", "over", "inner")


def _pointwise(r, x, y, nd):
    """fields of r that are not the sum of the same fields of x and y"""
    bad = []
    for f in ("freq", "err2"):
        if len(r[f]) != len(x[f]) or len(r[f]) != len(y[f]) or any(
                _num(c) is None or _num(c) != _num(p) + _num(q) for c, p, q in zip(r[f], x[f], y[f])):
            bad.append(f)
    for f in _missed_fields(nd) + ("total",):
        c, p, q = _num(r[f]), _num(x[f]), _num(y[f])
        if (c is None) != (p is None or q is None) or (c is not None and c != p + q):
            bad.append(f)
    return bad


def _stats_sum(r, x, y):
    """statistics of the sum: weight, sum, sum2 add; min / max are the extremes (1-D)"""
    a, b, c = x["stats"], y["stats"], r["stats"]
    if not (a["valid"] and b["valid"]):
        return []
    if not c["valid"]:
        return ["valid"]
    bad = []
    mag = max([abs(Fraction(s[f])) for s in (a, b) for f in ("min", "max") if s[f] is not None] + [Fraction(1)])
    wt = max(abs(Fraction(a["weight"])), abs(Fraction(b["weight"])), 1)
    for f in ("weight", "sum", "sum2"):
        slack = T9 * wt * (mag if f == "sum" else mag * mag if f == "sum2" else 1)
        if abs(Fraction(c[f]) - Fraction(a[f]) - Fraction(b[f])) > slack:
            bad.append(f)
    for f, pick in (("min", min), ("max", max)):
        have = [Fraction(s[f]) for s in (a, b) if s[f] is not None]
        want = pick(have) if have else None
        if (c[f] is None) != (want is None) or (want is not None and Fraction(c[f]) != want):
            bad.append(f)
    return bad


def _same_hist(r, ref, nd):
    bad = [f for f in ("bins", "freq", "err2") + _missed_fields(nd) + ("total",)
           if (r[f] != ref[f] if f == "bins" else
               ([_num(v) for v in r[f]] != [_num(v) for v in ref[f]] if isinstance(r[f], list) else _num(r[f]) != _num(ref[f])))]
    return bad


def _on_last_edge(case, regs, nd):
    """does some value of either data set lie exactly on the last edge of its axis in one of the operands (there
    includes_right_edge and the class of the binning decide where it is counted)"""
    src = case["src"]
    lasts = []
    for i in range(len(axes_bins(regs[0], nd))):
        lasts.append({Fraction(axes_bins(regs[q], nd)[i][-1][1]) for q in (0, 1) if axes_bins(regs[q], nd)[i]})
    for o in (src["a"], src["b"]):
        for row in (o["rows"] if nd else [[v] for v in o["vals"]]):
            if any(v is not None and Fraction(v) in lasts[i] for i, v in enumerate(row)):
                return True
    return False


def oracle(case, io):
    outs = io["outs"]
    src = case["src"]
    nd = src["nd"]
    why = "; ".join(io["log"][:2])
    st = {o["stage"]: o for o in outs}
    if st["build"]["ret"] != "ok":
        return [f"refused_valid: setup refused: {why}"]
    if len(outs) != len(case["stages"]):
        return [f"refused_valid: the history stopped after stage {outs[-1]['stage']}: {why}"]
    for name in ("copy", "ref_a", "ref_b"):
        if name in st and st[name]["ret"] != "ok":
            return [f"refused_valid: stage {name} was refused: {why}"]
    fails = []
    r0 = st["build"]["regs"]
    A, B = r0[0], r0[1]
    cls = classify(A, B, nd)
    adaptive = A["adaptive"] or B["adaptive"]
    must_refuse = cls == "differ" and (not adaptive or grids_cannot_unite(io["meta"], A, B, nd))
    final = outs[-1]["regs"]
    ref = {0: final[case["first_ref"]], 1: final[case["first_ref"] + 1]} if case.get("first_ref") is not None else None
    what = (f"a over {_describe(io['meta'][0], A, nd)}, b over {_describe(io['meta'][1], B, nd)}")
    # a value on the last edge is counted by each operand as its own binning object says (includes_right_edge, class)
    compare_ref = ref is not None and cls == "same" and (src["rel"] == "identical" or not _on_last_edge(case, r0, nd))
    prev = st["build"]
    results = {}
    for o in outs[1:]:
        name = o["stage"]
        regs = o["regs"]
        # ---- the operands read the same after every call, accepted or refused
        for i, who in ((0, "a"), (1, "b")):
            ch = _changed(prev["regs"][i], regs[i])
            if ch:
                fails.append(f"operand_modified: operand {who} changed by {SPOKEN.get(name, name)} ({o['ret']}): fields {ch}")
        if name not in REG:
            prev = o
            continue
        call = SPOKEN[name]
        if o["ret"] != "ok":
            if name == "a+=b":
                ch = _changed(prev["regs"][4], regs[4])
                if ch == ["dtype"] and np.can_cast(np.dtype(prev["regs"][4]["dtype"]), np.dtype(regs[4]["dtype"])):
                    ch = []       # a lossless widening of the type with every number unchanged (the adaptive branch coerces
                    #               the type before it finds the grids incompatible); C18 does not call that a change either
                if ch:
                    fails.append(f"refused_changed: the refused a += b changed its left operand: fields {ch}")
            if cls == "same" and (name not in ("coll", "coll_add") or src["rel"] == "identical"):
                fails.append(f"refused_valid: {call} was refused although both operands have exactly the same bins ({what}): {why}")
            prev = o
            continue
        r = regs[REG[name]]
        results[name] = r
        if must_refuse:
            extra = ""
            if ref is not None:
                side = 0 if r["bins"] == A["bins"] else 1 if r["bins"] == B["bins"] else None
                if side is not None:
                    extra = (f"; the result is over {'ab'[side]}'s bins with contents {r['freq'][:8]}, the histogram of both data sets "
                             f"over those bins has {ref[side]['freq'][:8]}")
            fails.append(f"accepted_incompatible: {call} was accepted although the bins differ ({what}){extra}")
        elif cls != "differ":
            if r["bins"] != A["bins"] and r["bins"] != B["bins"]:
                fails.append(f"sum_bins: {call} is over bins that are neither a's nor b's ({what})")
            bad = _pointwise(r, A, B, nd)
            if bad:
                fails.append(f"sum_differs: {call}: {bad} are not the sums of the operands': {[r[f] for f in bad]} vs "
                             f"{[A[f] for f in bad]} + {[B[f] for f in bad]}")
            want = str(np.promote_types(A["dtype"], B["dtype"]))
            if r["dtype"] != want:
                fails.append(f"dtype_promotion: ({call}).dtype = {r['dtype']}, numpy promotion of {A['dtype']} and {B['dtype']} is {want}")
            if not nd:
                sb = _stats_sum(r, A, B)
                if sb:
                    fails.append(f"stats_differ: {call}: statistics {sb} are not the operands' combined: {[r['stats'].get(f) for f in sb]} "
                                 f"vs {[A['stats'].get(f) for f in sb]} and {[B['stats'].get(f) for f in sb]}")
            if compare_ref:
                for side in (0, 1):
                    bad = _same_hist(r, ref[side], nd)
                    if bad:
                        fails.append(f"sum_differs: {call} vs the histogram of both data sets over {'ab'[side]}'s bins: {bad} differ: "
                                     f"{[r[f] for f in bad]} vs {[ref[side][f] for f in bad]}")
        prev = o
    if cls == "same" and "a+b" in results:
        for name, r in results.items():
            bad = _same_hist(r, results["a+b"], nd)
            if bad:
                fails.append(f"sum_differs: {SPOKEN[name]} vs a + b: {bad} differ: {[r[f] for f in bad]} vs {[results['a+b'][f] for f in bad]}")
            elif r["dtype"] != results["a+b"]["dtype"]:
                fails.append(f"dtype_differs: {SPOKEN[name]} vs a + b: {r['dtype']} vs {results['a+b']['dtype']}")
    return fails[:6]


def _describe(meta, snap, nd):
    parts = []
    for m, ax in zip(meta, axes_bins(snap, nd)):
        edges = ([float(Fraction(ax[0][0]))] + [float(Fraction(p[1])) for p in ax]) if ax else []
        if m["t"] == "fixed":
            parts.append(f"fixed-width(width {float(Fraction(m['w']))}, {m['count']} bins, first index {m['tmin']}, offset "
                         f"{float(Fraction(m['shift']))}{', adaptive' if m['adaptive'] else ''}) = {edges[:7]}")
        else:
            parts.append(f"edges {edges[:7]}")
    return " x ".join(parts)


# ---------------------------------------------------------------------------------------------- shrinking, neighbours
def shrink_candidates(case):
    src = case["src"]
    nd = src["nd"]
    key = "rows" if nd else "vals"
    for who in ("a", "b"):
        o = src[who]
        from_data = o["spell"] == "h2_noalign" if nd else o["b"]["spell"] in ("noalign", "shiftkw")
        if from_data and not nd:
            vs = [Fraction(v) for v in o[key]]
            keepers = {vs.index(min(vs)), vs.index(max(vs))}      # the values that decide the bins stay
        elif from_data:
            continue
        else:
            keepers = set()
        for j in range(len(o[key])):
            if j in keepers:
                continue
            s2 = copy.deepcopy(src)
            del s2[who][key][j]
            if s2[who]["ws"] is not None:
                del s2[who]["ws"][j]
            yield build(s2)
        if o["ws"] is not None:
            s2 = copy.deepcopy(src)
            s2[who]["ws"], s2[who]["wkind"] = None, None
            yield build(s2)
    if not nd:
        for who in ("a", "b"):
            if src[who]["b"]["spell"] == "min":
                s2 = copy.deepcopy(src)
                s2[who]["b"]["spell"] = "json"
                yield build(s2)


def neighbours(case):
    """the same pair with the operands exchanged, and (fixed-width binnings given by their parameters) with other offsets"""
    src = case["src"]
    s2 = copy.deepcopy(src)
    s2["a"], s2["b"] = s2["b"], s2["a"]
    yield build(s2)
    if src["nd"]:
        return
    jb = src["b"]["b"]
    if jb["spell"] in ("json", "min") and jb["json"]["t"] == "fixed":
        w = impl1.fl(jb["json"]["w"])
        for f in FRACS:
            s3 = copy.deepcopy(src)
            s3["b"]["b"]["json"]["shift"] = rs(f * w)
            yield build(s3)


def nontrivial(case, io):
    src = case["src"]
    key = "rows" if src["nd"] else "vals"
    return len(src["a"][key]) > 0 and len(src["b"][key]) > 0 and len(io["outs"]) == len(case["stages"])

"""C05 — adding histograms equals histogramming the combined data (1-D; ND/dask parts in c05 extras)."""
from __future__ import annotations

import copy
from fractions import Fraction

import numpy as np

from .. import gen1
from ..core import Rng, case_hash, rs
from . import c05_bins, c05_share, coll_parts
from .base1 import Hist1Prop
from .c04 import values as grid_values

CMP = ("bins", "freq", "err2", "under", "over")


def same(a, b, fields=CMP):
    out = []
    for f in fields:
        x, y = a[f], b[f]
        if f in ("under", "over"):
            if (x is None) != (y is None) or (x is not None and Fraction(x) != Fraction(y)):
                out.append(f)
        elif f == "bins":
            if x != y:
                out.append(f)
        else:
            if [Fraction(v) for v in x] != [Fraction(v) for v in y]:
                out.append(f)
    return out


def stats_same(a, b):
    if a["valid"] != b["valid"]:
        return ["valid"]
    if not a["valid"]:
        return []
    out = []
    mag = max([abs(Fraction(x[f])) for x in (a, b) for f in ("min", "max") if x[f] is not None] + [Fraction(1)])
    wt = max(abs(Fraction(a["weight"])), abs(Fraction(b["weight"])), 1)
    for f in ("sum", "sum2", "weight", "min", "max"):
        if (a[f] is None) != (b[f] is None):
            out.append(f)
        elif a[f] is not None:
            x, y = Fraction(a[f]), Fraction(b[f])
            tol = 0 if f in ("min", "max") else Fraction(1, 10**9) * wt * (mag if f == "sum" else mag * mag if f == "sum2" else 1)
            if abs(x - y) > tol:
                out.append(f)
    return out


# ======================================================================================================================
# Sequence streams: operands whose state can only be reached by a SEQUENCE of public calls
# ----------------------------------------------------------------------------------------------------------------------
# An adaptive histogram never misses a value, so an ADAPTIVE operand that carries missed weight (underflow / overflow /
# N-d missed) exists only after a history: built with a fixed range (outliers are missed) and THEN switched to adaptive
# (`h.set_adaptive(True)`, `h.adaptive = True`, `h.binning.set_adaptive(True)`), optionally filled further; or made by the
# raw constructor (`Histogram1D(adaptive_binning, frequencies, overflow=...)`), or read back from JSON.  Neighbouring
# states: keep_missed toggled after filling, a slice of an adaptive histogram (the cut-off weight sits in its
# underflow / overflow) added to its parent.  Such an operand meets a left operand that is adaptive on the same grid with
# other bins / adaptive with equal bins / not adaptive, through `a + b`, `b + a`, `sum([a, b])`, `sum([b, a])`, `a += b`,
# `b += a` (the in-place forms on copies).
#
# What the property pins there (SEQ oracle, stated on the snapshots only, exact Fractions):
#   * an accepted addition holds everything both operands held: every bin (cell) of the result carries the sum of the
#     operands' contents / squared errors of that very bin, no operand bin with a content is missing, the result spans
#     exactly the union of both ranges on the common grid, and total + missed of the result equals the operands' totals +
#     missed -- weight never silently disappears.  A REFUSAL of an operand with missed weight in the adaptive branch is
#     just as acceptable (that is what physt does); a result that lost weight is not;
#   * equal bins: the addition is accepted and underflow / overflow / inner (N-d: missed) add slot by slot;
#   * two adaptive operands on one grid without any missed weight: accepted;
#   * no register other than the target of an in-place addition changes (operands are never modified);
#   * where both orders (and the in-place form) are accepted they give the same histogram;
#   * dtype of the sum = numpy promotion; statistics add when both operands carry valid statistics.
# Nothing is demanded of: exception classes, the keep_missed / adaptive flag of a result, the slots of operands whose
# keep_missed is off (they read NaN), which slot (under / over) an adaptive result keeps an operand's missed weight in.
SEQ_STREAM_1D = "stream:seq_missed_adaptive_1d"
SEQ_STREAM_ND = "stream:seq_missed_adaptive_nd"
SEQ_LEFT_MODES = ("adaptive_other", "adaptive_other", "adaptive_other", "adaptive_equal", "static_equal", "static_other")
SEQ_WIDTHS = (1.0, 0.5, 0.25, 2.0)


def _seq_weights(rng, n):
    kind = rng.choice(["none", "none", "int", "dyadic"])
    if kind == "none":
        return None, None
    if kind == "int":
        return [rs(rng.randint(0, 4)) for _ in range(n)], "int64"
    return [rs(rng.randint(0, 12) / 4) for _ in range(n)], "float64"


def _seq_keep(rng, p):
    """(keep_missed at creation, values assigned to keep_missed after filling)"""
    if rng.random() >= p:
        return True, []
    return rng.choice([(True, [False]), (True, [False, True]), (False, [True]), (False, [])])


# ---------------------------------------------------------------------------------------------------------------- 1-D
def _seq1_operand(rng, w, shift, route, tmin, count, adaptive_end, with_missed, keep_p=0.0, allow_more=True):
    """one operand description; positions are (cell + quarter / 4) * w + shift: exact doubles"""
    pos = lambda cell: rs((cell + rng.choice([0, 1, 2, 3]) / 4) * w + shift)
    sp = {"route": route, "tmin": tmin, "count": count, "adaptive_end": adaptive_end,
          "via": rng.choice(["method", "property", "binning"]), "more": [], "roundtrip": False}
    sp["keep0"], sp["keep_ops"] = _seq_keep(rng, keep_p)
    if route == "raw":
        isint = rng.random() < 0.6
        num = (lambda hi: rs(rng.randint(0, hi))) if isint else (lambda hi: rs(rng.randint(0, 4 * hi) / 4))
        sp["dtype"] = "int64" if isint else "float64"
        sp["freq"] = [num(5) for _ in range(count)]
        sp["under"] = num(3) if with_missed and rng.random() < 0.6 else "0"
        sp["over"] = num(3) if with_missed and (sp["under"] == "0" or rng.random() < 0.5) else "0"
        if with_missed and sp["under"] == "0" and sp["over"] == "0":
            sp["over"] = "2"
        return sp
    n = rng.choice([1, 2, 3, 5])
    cells = [rng.randint(tmin, tmin + count - 1) for _ in range(n)]
    if route == "range" and with_missed:
        for _ in range(rng.choice([1, 1, 2, 3])):
            cells.append(rng.choice([tmin - rng.randint(1, 4), tmin + count - 1 + rng.randint(1, 4)]))
        rng.shuffle(cells)
    sp["vals"] = [pos(c) for c in cells]
    sp["ws"], sp["wk"] = _seq_weights(rng, len(cells))
    if route == "range" and adaptive_end and allow_more and rng.random() < 0.4:
        sp["more"] = [pos(rng.randint(tmin - 4, tmin + count + 3)) for _ in range(rng.choice([1, 2, 3]))]
    return sp


def _seq1_span(sp, w, shift):
    """(first cell, one past the last cell) of the operand's bins once its history has run"""
    cell = lambda v: int((Fraction(v) - Fraction(shift)) // Fraction(w))
    if sp["route"] == "grown":
        cs = [cell(v) for v in sp["vals"]]
        return min(cs), max(cs) + 1
    lo, hi = sp["tmin"], sp["tmin"] + sp["count"]
    for v in sp["more"]:
        lo, hi = min(lo, cell(v)), max(hi, cell(v) + 1)
    return lo, hi


def seq1_gen(rng, left=None, keep_b=None):
    w = rng.choice(SEQ_WIDTHS)
    shift = rng.choice([0.0, 0.0, 0.5 * w])
    # ---- the right operand: the state reachable by a sequence only
    if keep_b is not None:
        w, shift, b = float(Fraction(keep_b["w"])), float(Fraction(keep_b["shift"])), copy.deepcopy(keep_b["b"])
    else:
        route = rng.choice(["range"] * 6 + ["raw"] * 3 + ["grown"])
        tmin, count = rng.randint(-6, 6), rng.randint(1, 4)
        b = _seq1_operand(rng, w, shift, route, tmin, count, adaptive_end=rng.random() < 0.9,
                          with_missed=rng.random() < 0.8, keep_p=0.15)
        if route == "grown":
            b["adaptive_end"] = True
        if not b["keep_ops"] and b["keep0"] and rng.random() < 0.2:
            b["roundtrip"] = True
    lo, hi = _seq1_span(b, w, shift)
    # ---- the left operand
    mode = left or rng.choice(SEQ_LEFT_MODES)
    slice_of = None
    if left is None and keep_b is None and rng.random() < 0.12:
        # neighbouring class: b is a SLICE of the adaptive parent a (what is cut off sits in b's underflow / overflow)
        mode = "parent_of_slice"
        ta = rng.randint(-6, 4)
        a = _seq1_operand(rng, w, shift, "grown", ta, rng.randint(3, 5), True, False)
        a["vals"] += [rs((ta + i + 0.5) * w + shift) for i in (0, a["count"] - 1)]      # the whole range is really there
        if a["ws"] is not None:
            a["ws"] += ["1", "1"]
        n = a["count"]
        start = rng.randint(0, n - 1)
        slice_of = [rng.choice([None, start]) if start == 0 else start, rng.choice([None, rng.randint(start + 1, n)])]
        b = {"route": "slice", "adaptive_end": rng.random() < 0.3, "via": "method", "more": [], "roundtrip": False,
             "keep0": True, "keep_ops": []}
    elif mode == "adaptive_other":
        off = rng.choice([-7, -5, -3, -2, -1, 1, 2, 3, 5, 7])
        ta, ca = lo + off, rng.randint(1, 4)
        r = rng.random()
        if r < 0.7:
            a = _seq1_operand(rng, w, shift, "grown", ta, ca, True, False, keep_p=0.1)
        elif r < 0.9:
            a = _seq1_operand(rng, w, shift, "range", ta, ca, True, rng.random() < 0.7, keep_p=0.1)
        else:
            a = _seq1_operand(rng, w, shift, "raw", ta, ca, True, rng.random() < 0.3)
    elif mode in ("adaptive_equal", "static_equal"):
        a = _seq1_operand(rng, w, shift, rng.choice(["range", "raw"]), lo, hi - lo, mode == "adaptive_equal",
                          rng.random() < 0.5, keep_p=0.1, allow_more=False)
    else:
        a = _seq1_operand(rng, w, shift, rng.choice(["range", "range", "raw"]), lo + rng.choice([-5, -2, -1, 1, 2, 4]),
                          rng.randint(1, 4), False, rng.random() < 0.4)
    src = {"w": rs(w), "shift": rs(shift), "a": a, "b": b, "slice": slice_of, "left": mode}
    return seq1_build(src)


def _seq1_setup(ops, sp, reg, w, shift, parent=None, slice_of=None):
    fixed = lambda count, tmin, adaptive: gen1.fixed_json(w, tmin, count, shift=shift, adaptive=adaptive)
    route = sp["route"]
    if route == "slice":
        ops.append({"op": "slice", "h": parent, "start": slice_of[0], "stop": slice_of[1], "out": reg, "setup": True})
        if sp["adaptive_end"]:      # a slice has static bins: physt refuses to make them adaptive (either way is fine)
            ops.append({"op": "set_adaptive", "h": reg, "value": True, "via": "method", "setup": True, "maybe": True})
        return
    if route == "grown":
        ops.append({"op": "empty", "out": reg, "binning": fixed(0, 0, True), "keep": sp["keep0"], "setup": True})
        ops.append({"op": "fill_n", "h": reg, "vs": sp["vals"], "ws": sp["ws"], "wkind": sp["wk"], "setup": True})
        if not sp["adaptive_end"]:
            ops.append({"op": "set_adaptive", "h": reg, "value": False, "via": sp["via"], "on_binning": sp["via"] == "binning",
                        "setup": True})
    elif route == "range":
        ops.append({"op": "construct", "out": reg, "binning": fixed(sp["count"], sp["tmin"], False), "data": sp["vals"],
                    "weights": sp["ws"], "wkind": sp["wk"], "keep": sp["keep0"], "setup": True})
        if sp["adaptive_end"]:
            ops.append({"op": "set_adaptive", "h": reg, "value": True, "via": sp["via"], "on_binning": sp["via"] == "binning",
                        "setup": True})
            if sp["more"]:
                ops.append({"op": "fill_n", "h": reg, "vs": sp["more"], "ws": None, "wkind": None, "setup": True})
    else:
        ops.append({"op": "of_arrays", "out": reg, "binning": fixed(sp["count"], sp["tmin"], sp["adaptive_end"]),
                    "freq": sp["freq"], "err2": None, "under": sp["under"], "over": sp["over"], "inner": "0",
                    "dtype": sp["dtype"], "keep": sp["keep0"], "setup": True})
    if sp["roundtrip"]:
        ops.append({"op": "roundtrip", "h": reg, "out": reg, "setup": True})
    for v in sp["keep_ops"]:
        ops.append({"op": "set_keep", "h": reg, "value": v, "setup": True})


def _seq_binary_ops(ops):
    """a = register 0, b = register 1: both orders of +, of sum(), and of += (on copies)"""
    base = len(ops)
    ops.append({"op": "add", "a": 0, "b": 1, "out": 2})
    ops.append({"op": "add", "a": 1, "b": 0, "out": 3})
    ops.append({"op": "sum", "hs": [0, 1], "out": 4})
    ops.append({"op": "sum", "hs": [1, 0], "out": 5})
    ops.append({"op": "copy", "h": 0, "out": 6})
    ops.append({"op": "iadd", "h": 6, "o": 1})
    ops.append({"op": "copy", "h": 1, "out": 7})
    ops.append({"op": "iadd", "h": 7, "o": 0})
    # op indices whose results must be the same histogram whenever both are accepted
    return [[base, base + 1], [base + 2, base + 3], [base, base + 2], [base, base + 5], [base + 1, base + 7]]


def _seq_tags(src, stream, extra=()):
    a, b = src["a"], src["b"]
    t = [stream, *extra, "seq_left:" + src["left"], "seq_right:" + b["route"] + ("" if b["adaptive_end"] else "_nonadaptive")]
    for who, sp in (("a", a), ("b", b)):
        if sp["route"] in ("range", "grown") and (sp["adaptive_end"] != (sp["route"] == "grown")):
            t.append(f"seq_{who}_switched_via:" + sp["via"])
        if sp["more"]:
            t.append(f"seq_{who}_filled_after_switch")
        if sp["roundtrip"]:
            t.append(f"seq_{who}_json_roundtrip")
        if sp["keep_ops"] or not sp["keep0"]:
            t.append(f"seq_{who}_keep_missed_toggled")
    return t


def seq1_build(src):
    w, shift = float(Fraction(src["w"])), float(Fraction(src["shift"]))
    ops = []
    _seq1_setup(ops, src["a"], 0, w, shift)
    _seq1_setup(ops, src["b"], 1, w, shift, parent=0, slice_of=src.get("slice"))
    same = _seq_binary_ops(ops)
    return {"kind": "hist1", "sub": "seq", "ops": ops, "same": same, "tags": _seq_tags(src, SEQ_STREAM_1D), "src": src}


# ---------------------------------------------------------------------------------------------------------------- N-d
def _seqn_operand(rng, ws, route, tmin, count, adaptive_end, with_missed, keep_p=0.0):
    d = len(ws)
    row = lambda cells: [rs((c + rng.choice([0, 1, 2, 3]) / 4) * ws[i]) for i, c in enumerate(cells)]
    sp = {"route": route, "tmin": tmin, "count": count, "adaptive_end": adaptive_end,
          "via": rng.choice(["method", "property", "axes", "axes", "one_axis"]) if route != "raw" else "method",
          "axis": rng.randrange(d), "more": [], "roundtrip": False}
    sp["keep0"], sp["keep_ops"] = _seq_keep(rng, keep_p)
    if not sp["keep0"] and route == "raw":
        sp["keep0"] = True
    if route == "raw":
        isint = rng.random() < 0.6
        num = (lambda hi: rs(rng.randint(0, hi))) if isint else (lambda hi: rs(rng.randint(0, 4 * hi) / 4))
        n = 1
        for c in count:
            n *= c
        sp["dtype"] = "int64" if isint else "float64"
        sp["freq"] = [num(4) for _ in range(n)]
        sp["missed"] = (num(4) if rng.random() < 0.7 else "3") if with_missed else "0"
        if with_missed and sp["missed"] == "0":
            sp["missed"] = "2"
        return sp
    inside = lambda: [rng.randint(tmin[i], tmin[i] + count[i] - 1) for i in range(d)]
    cells = [inside() for _ in range(rng.choice([1, 2, 4, 6]))]
    if route == "range" and with_missed:
        for _ in range(rng.choice([1, 2, 3])):
            c = inside()
            i = rng.randrange(d)
            c[i] = rng.choice([tmin[i] - rng.randint(1, 3), tmin[i] + count[i] - 1 + rng.randint(1, 3)])
            cells.append(c)
        rng.shuffle(cells)
    sp["rows"] = [row(c) for c in cells]
    sp["ws"], sp["wk"] = _seq_weights(rng, len(cells))
    if route == "range" and adaptive_end and sp["via"] != "one_axis" and rng.random() < 0.35:
        sp["more"] = [row([rng.randint(tmin[i] - 3, tmin[i] + count[i] + 2) for i in range(d)]) for _ in range(rng.choice([1, 2]))]
    return sp


def _seqn_span(sp, ws):
    d = len(ws)
    cell = lambda v, i: int(Fraction(v) // Fraction(ws[i]))
    if sp["route"] == "grown":
        cols = [[cell(r[i], i) for r in sp["rows"]] for i in range(d)]
        return [(min(c), max(c) + 1) for c in cols]
    out = []
    for i in range(d):
        lo, hi = sp["tmin"][i], sp["tmin"][i] + sp["count"][i]
        for r in sp["more"]:
            lo, hi = min(lo, cell(r[i], i)), max(hi, cell(r[i], i) + 1)
        out.append((lo, hi))
    return out


def seqn_gen(rng, left=None, keep_b=None):
    d = rng.choice([2, 2, 2, 3])
    ws = [rng.choice([1.0, 0.5, 2.0]) for _ in range(d)]
    if keep_b is not None:
        ws, b = [float(Fraction(x)) for x in keep_b["ws"]], copy.deepcopy(keep_b["b"])
        d = len(ws)
    else:
        route = rng.choice(["range"] * 6 + ["raw"] * 3 + ["grown"])
        tmin = [rng.randint(-4, 4) for _ in range(d)]
        count = [rng.randint(1, 3) for _ in range(d)]
        b = _seqn_operand(rng, ws, route, tmin, count, adaptive_end=rng.random() < 0.9, with_missed=rng.random() < 0.8,
                          keep_p=0.12)
        if route == "grown":
            b["adaptive_end"], b["via"] = True, "method"
        if not b["keep_ops"] and b["keep0"] and rng.random() < 0.2:
            b["roundtrip"] = True
    span = _seqn_span(b, ws)
    mode = left or rng.choice(SEQ_LEFT_MODES)
    if mode == "adaptive_other":
        ta = [lo + rng.choice([-4, -2, -1, 0, 1, 2, 4]) for lo, _ in span]
        if all(x == lo for x, (lo, _) in zip(ta, span)):
            ta[0] += 2
        ca = [rng.randint(1, 3) for _ in range(d)]
        r = rng.random()
        a = _seqn_operand(rng, ws, "grown" if r < 0.7 else "range" if r < 0.9 else "raw", ta, ca, True,
                          r >= 0.7 and rng.random() < 0.5, keep_p=0.08)
        if a["route"] != "raw":
            a["via"] = rng.choice(["method", "property", "axes"])
    elif mode in ("adaptive_equal", "static_equal"):
        a = _seqn_operand(rng, ws, rng.choice(["range", "raw"]), [lo for lo, _ in span], [hi - lo for lo, hi in span],
                          mode == "adaptive_equal", rng.random() < 0.5, keep_p=0.08)
        a["more"] = []
        if a["route"] != "raw":
            a["via"] = rng.choice(["method", "property", "axes"])
    else:
        a = _seqn_operand(rng, ws, rng.choice(["range", "range", "raw"]), [lo + rng.choice([-3, -1, 1, 2]) for lo, _ in span],
                          [rng.randint(1, 3) for _ in range(d)], False, rng.random() < 0.4)
    src = {"d": d, "ws": [rs(x) for x in ws], "a": a, "b": b, "left": mode}
    return seqn_build(src)


def _seqn_setup(ops, sp, reg, ws):
    d = len(ws)
    axes = lambda adaptive, empty=False: [gen1.fixed_json(ws[i], 0 if empty else sp["tmin"][i], 0 if empty else sp["count"][i],
                                                          adaptive=adaptive) for i in range(d)]
    route = sp["route"]

    def switch(value):
        if sp["via"] in ("axes", "one_axis"):
            for i in (range(d) if sp["via"] == "axes" else [sp["axis"]]):
                ops.append({"op": "set_adaptive", "h": reg, "value": value, "axis": i, "setup": True})
        else:
            ops.append({"op": "set_adaptive", "h": reg, "value": value, "via": sp["via"], "setup": True})
    if route == "grown":
        ops.append({"op": "empty", "out": reg, "axes": axes(True, empty=True), "keep": sp["keep0"], "setup": True})
        ops.append({"op": "fill_n", "h": reg, "rows": sp["rows"], "ws": sp["ws"], "wkind": sp["wk"], "setup": True})
        if not sp["adaptive_end"]:
            switch(False)
    elif route == "range":
        if sp["keep0"]:
            ops.append({"op": "construct", "out": reg, "axes": axes(False), "rows": sp["rows"], "weights": sp["ws"],
                        "wkind": sp["wk"], "setup": True})
        else:       # the facades always keep the missed weight: a histogram that does not is an empty one, filled
            ops.append({"op": "empty", "out": reg, "axes": axes(False), "keep": False, "setup": True})
            ops.append({"op": "fill_n", "h": reg, "rows": sp["rows"], "ws": sp["ws"], "wkind": sp["wk"], "setup": True})
        if sp["adaptive_end"]:
            switch(True)
            if sp["more"]:
                ops.append({"op": "fill_n", "h": reg, "rows": sp["more"], "ws": None, "wkind": None, "setup": True})
    else:
        ops.append({"op": "of_arrays", "out": reg, "axes": axes(sp["adaptive_end"]), "freq": sp["freq"], "err2": None,
                    "missed": sp["missed"], "dtype": sp["dtype"], "keep": sp["keep0"], "setup": True})
    if sp["roundtrip"]:
        ops.append({"op": "roundtrip", "h": reg, "out": reg, "setup": True})
    for v in sp["keep_ops"]:
        ops.append({"op": "set_keep", "h": reg, "value": v, "setup": True})


def seqn_build(src):
    ws = [float(Fraction(x)) for x in src["ws"]]
    ops = []
    _seqn_setup(ops, src["a"], 0, ws)
    _seqn_setup(ops, src["b"], 1, ws)
    same = _seq_binary_ops(ops)
    return {"kind": "histn", "sub": "seq", "fuel": 64, "ops": ops, "same": same,
            "tags": _seq_tags(src, SEQ_STREAM_ND, ("nd", f"d:{src['d']}")), "src": src}


# ------------------------------------------------------------------------------------ running the sequences on physt
def _seq_extra_step(s, op, log):
    """the ops of the sequence streams that the shared runners (impl1 / implnd) do not have, through the public API"""
    name = op["op"]
    if not (name in ("set_keep", "roundtrip", "sum") or (name == "set_adaptive" and op.get("axis") is None)):
        return NotImplemented
    from ..impl1 import REFUSED
    try:
        if name == "sum":
            s.set(op["out"], sum(s.get(i) for i in op["hs"]))
            return "ok"
        h = s.get(op["h"])
        if name == "set_adaptive":
            v, via = bool(op.get("value", True)), op.get("via", "method")
            if via == "property":
                h.adaptive = v
            elif via == "binning":
                h.binning.set_adaptive(v)
            else:
                h.set_adaptive(v)
        elif name == "set_keep":
            h.keep_missed = bool(op["value"])
        else:
            from physt.io import parse_json
            s.set(op["out"], parse_json(h.to_json()))
        return "ok"
    except Exception as e:      # a refused call: the class is recorded, never compared
        log.append(f"{name}: {type(e).__name__}: {e}"[:200])
        return REFUSED


def seq_run_impl(case):
    from .. import impl1, implnd
    nd = case["kind"] == "histn"
    step, snap = (implnd.step, implnd.snapn) if nd else (impl1.step, impl1.snap1)

    def run(observe):
        s, log, outs, ret = impl1.Store(), [], [], None
        for op in case["ops"]:
            ret = _seq_extra_step(s, op, log)
            if ret is NotImplemented:
                ret = step(s, op, log)
            if observe:
                outs.append({"ret": ret, "regs": [None if h is None else snap(h) for h in s.regs]})
        if observe:
            return outs, log
        return {"ret": ret, "regs": [None if h is None else snap(h) for h in s.regs]}
    outs, log = run(True)
    # the same history again without reading anything between the operations (runner.oracle_of)
    return {"outs": outs, "log": log, "unobserved_outs": outs[:-1] + [run(False)]}


# ------------------------------------------------------------------------------------------------------- the oracle
def _seq_view(snap, nd):
    """a histogram as the property sees it: non-zero cells keyed by their edges, range per axis, missed slots"""
    if nd:
        from .nd_parts import _cells
        cells = _cells(snap)
        axes = snap["bins"]
        slots = [snap["missed"]]
    else:
        cells = {}
        for (l, r), f, e in zip(snap["bins"], snap["freq"], snap["err2"]):
            if Fraction(f) != 0 or Fraction(e) != 0:
                cells[((l, r),)] = (Fraction(f), Fraction(e))
        axes = [snap["bins"]]
        slots = [snap["under"], snap["over"], snap["inner"]]
    spans = [(Fraction(b[0][0]), Fraction(b[-1][1])) if b else None for b in axes]
    return {"cells": cells, "axes": axes, "spans": spans, "slots": slots, "total": Fraction(snap["total"]),
            "known": all(x is not None for x in slots)}


def _seq_missed(v):
    return sum((Fraction(x) for x in v["slots"]), Fraction(0))


def _seq_operands(op):
    if op["op"] == "add":
        return op["a"], op["b"], op["out"]
    if op["op"] == "sum":
        return op["hs"][0], op["hs"][1], op["out"]
    return op["h"], op["o"], op["h"]


def _seq_call(op):
    x, y, _ = _seq_operands(op)
    n = lambda i: {0: "a", 1: "b", 6: "copy(a)", 7: "copy(b)"}.get(i, f"r{i}")
    return {"add": f"{n(x)} + {n(y)}", "sum": f"sum([{n(x)}, {n(y)}])", "iadd": f"{n(x)} += {n(y)}"}[op["op"]]


def seq_oracle(case, io):
    outs, ops = io["outs"], case["ops"]
    nd = case["kind"] == "histn"
    src = case["src"]
    fails = []
    for k, op in enumerate(ops):
        if op.get("setup") and outs[k]["ret"] == "REFUSED" and not op.get("maybe"):
            return [f"refused_valid: setup step {k} ({op['op']}) was refused: " + "; ".join(io["log"][:2])]
    grid = [(Fraction(w), Fraction(src.get("shift", "0"))) for w in ([src["w"]] if not nd else src["ws"])]
    results = {}
    for k, op in enumerate(ops):
        if op["op"] not in ("add", "sum", "iadd") or k == 0:
            continue
        xi, yi, ri = _seq_operands(op)
        prev, now = outs[k - 1]["regs"], outs[k]["regs"]
        if max(xi, yi) >= len(prev) or prev[xi] is None or prev[yi] is None:
            continue
        call = _seq_call(op)
        # operands (every register but the target of +=) are never modified
        for i, p in enumerate(prev):
            if i != ri and p is not None and (i >= len(now) or p != now[i]):
                diffs = [f for f in p if i >= len(now) or now[i] is None or p[f] != now[i].get(f)]
                fails.append(f"operand_modified: {call} changed register {i} ({'a' if i == 0 else 'b' if i == 1 else 'a result'}): "
                             f"fields {diffs}")
        sx, sy = prev[xi], prev[yi]
        x, y = _seq_view(sx, nd), _seq_view(sy, nd)
        same_bins = sx["bins"] == sy["bins"]
        if outs[k]["ret"] == "REFUSED":
            if same_bins:
                fails.append(f"refused_valid: {call} was refused although both operands have the same bins: " + "; ".join(io["log"][-2:]))
            elif (sx["adaptive"] and sy["adaptive"] and x["known"] and y["known"] and _seq_missed(x) == 0 and _seq_missed(y) == 0
                  and (nd or (sx["binning"]["t"] == sy["binning"]["t"] == "fixed" and sx["binning"]["w"] == sy["binning"]["w"]))):
                fails.append(f"refused_valid: {call} was refused although both operands are adaptive on one grid and neither has "
                             f"missed weight: " + "; ".join(io["log"][-2:]))
            continue
        if outs[k]["ret"] != "ok" or ri >= len(now) or now[ri] is None:
            continue
        sr = now[ri]
        r = _seq_view(sr, nd)
        results[k] = (sr, r, x, y)
        # every bin of the result holds what both operands held in that very bin; no filled operand bin is missing
        exp = dict(x["cells"])
        for key, (f, e) in y["cells"].items():
            f0, e0 = exp.get(key, (Fraction(0), Fraction(0)))
            exp[key] = (f0 + f, e0 + e)
        exp = {key: v for key, v in exp.items() if v != (0, 0)}
        if exp != r["cells"]:
            bad = [key for key in sorted(set(exp) | set(r["cells"])) if exp.get(key) != r["cells"].get(key)][:3]
            show = lambda v: None if v is None else (rs(v[0]), rs(v[1]))
            fails.append(f"sum_differs: {call}: bins {bad}: content / squared error {[show(r['cells'].get(b)) for b in bad]} in the "
                         f"result, the operands hold {[show(exp.get(b)) for b in bad]} there")
        # the union of both ranges, on the common grid
        for ax, (w, sh) in enumerate(grid):
            have = [v["spans"][ax] for v in (x, y) if v["spans"][ax] is not None]
            if have and r["spans"][ax] != (min(s[0] for s in have), max(s[1] for s in have)):
                fails.append(f"union_span: {call}: axis {ax} of the result spans {r['spans'][ax]}, the operands "
                             f"{[v['spans'][ax] for v in (x, y)]}")
            edges = [Fraction(e) for b in r["axes"][ax] for e in b]
            if any(((e - sh) / w).denominator != 1 for e in edges) or any(
                    r["axes"][ax][i][1] != r["axes"][ax][i + 1][0] for i in range(len(r["axes"][ax]) - 1)):
                fails.append(f"off_grid: {call}: the bins of axis {ax} of the result are not consecutive cells of the common grid")
        # nothing is lost: contents + missed
        if x["known"] and y["known"]:
            if not r["known"]:
                if sx["keep"] and sy["keep"]:
                    fails.append(f"missed_unknown: {call}: both operands report their missed weight, the result reports NaN")
            else:
                kept, entered = r["total"] + _seq_missed(r), x["total"] + _seq_missed(x) + y["total"] + _seq_missed(y)
                if kept != entered:
                    fails.append(f"weight_lost: {call} was accepted and accounts for {kept} (contents {r['total']} + missed "
                                 f"{r['slots']}) of the {entered} both operands hold (contents {x['total']} + missed {x['slots']}, "
                                 f"contents {y['total']} + missed {y['slots']})")
                elif same_bins and [Fraction(p) + Fraction(q) for p, q in zip(x["slots"], y["slots"])] != [Fraction(z) for z in r["slots"]]:
                    fails.append(f"missed_differs: {call} (equal bins): missed slots {r['slots']}, the operands' are {x['slots']} and "
                                 f"{y['slots']}")
        exp_dt = str(np.promote_types(sx["dtype"], sy["dtype"]))
        if sr["dtype"] != exp_dt:
            fails.append(f"dtype_promotion: ({call}).dtype = {sr['dtype']}, numpy promotion of {sx['dtype']} and {sy['dtype']} is {exp_dt}")
        if not nd and sx["stats"]["valid"] and sy["stats"]["valid"]:
            a, b = sx["stats"], sy["stats"]
            mm = lambda f, pick: (lambda v: None if not v else rs(pick(v)))([Fraction(s[f]) for s in (a, b) if s[f] is not None])
            want = {"valid": True, "sum": rs(Fraction(a["sum"]) + Fraction(b["sum"])), "sum2": rs(Fraction(a["sum2"]) + Fraction(b["sum2"])),
                    "weight": rs(Fraction(a["weight"]) + Fraction(b["weight"])), "min": mm("min", min), "max": mm("max", max)}
            sd = stats_same(sr["stats"], want)
            if sd:
                fails.append(f"stats_differ: {call}: statistics {sd} of the result are {[sr['stats'].get(f) for f in sd]}, the operands' "
                             f"add up to {[want.get(f) for f in sd]}")
    # both orders / the in-place form: the same histogram wherever both are accepted
    for k1, k2 in case.get("same", []):
        if k1 in results and k2 in results:
            (s1, r1, x1, y1), (s2, r2, _, _) = results[k1], results[k2]
            d = [f for f in ("bins", "freq", "err2", "dtype") if s1[f] != s2[f]]
            if x1["known"] and y1["known"] and r1["known"] and r2["known"] and [Fraction(z) for z in r1["slots"]] != [Fraction(z) for z in r2["slots"]]:
                d.append("missed")
            if d:
                fails.append(f"order_differs: {_seq_call(ops[k1])} and {_seq_call(ops[k2])} were both accepted and differ in {d}: "
                             f"{[s1.get(f, r1['slots']) for f in d]} vs {[s2.get(f, r2['slots']) for f in d]}"[:700])
    return fails[:6]


def seq_shrink(case):
    """drop one value / row, one optional stage of a history; the case is rebuilt from its description"""
    src = case["src"]
    nd = case["kind"] == "histn"
    rebuild = seqn_build if nd else seq1_build
    vkey = "rows" if nd else "vals"
    for who in ("a", "b"):
        sp = src[who]
        for key, val in (("roundtrip", False), ("keep_ops", []), ("more", []), ("keep0", True)):
            if sp.get(key) not in (val, None):
                s2 = copy.deepcopy(src)
                s2[who][key] = val
                yield rebuild(s2)
        for j in range(len(sp.get("more", []))):
            s2 = copy.deepcopy(src)
            del s2[who]["more"][j]
            yield rebuild(s2)
        if len(sp.get(vkey, [])) > 1:
            for j in range(len(sp[vkey])):
                s2 = copy.deepcopy(src)
                del s2[who][vkey][j]
                if s2[who]["ws"] is not None:
                    del s2[who]["ws"][j]
                if not nd and src.get("slice") is not None and who == "a" and len({v for v in s2["a"]["vals"]}) < 2:
                    continue
                yield rebuild(s2)
        if sp.get(vkey) is not None and sp.get("ws") is not None:
            s2 = copy.deepcopy(src)
            s2[who]["ws"], s2[who]["wk"] = None, None
            yield rebuild(s2)
        if sp["route"] == "raw":
            for key in (("under", "over") if not nd else ("missed",)):
                if sp[key] not in ("0", "1"):
                    s2 = copy.deepcopy(src)
                    s2[who][key] = "1"
                    yield rebuild(s2)


def seq_neighbours(case):
    """the same right operand against every kind of left operand, and fresh sequences (after a broken correspondence)"""
    nd = case["kind"] == "histn"
    rng = Rng("C05:seq-neighbours:" + case_hash(case))
    src = case["src"]
    for mode in ("adaptive_other", "adaptive_other", "adaptive_equal", "static_equal", "static_other"):
        if src["b"]["route"] != "slice":
            yield (seqn_gen if nd else seq1_gen)(rng, left=mode, keep_b=src)
    for _ in range(12):
        yield (seqn_gen if nd else seq1_gen)(rng, left="adaptive_other")


class C05(Hist1Prop):
    ID = "C05"
    N_QUICK = 300
    N_THOROUGH = 8000
    RULE = ("three data sets A, B, C over the same bins (static, gapped, or adaptive fixed-width histograms on one grid with "
            "different ranges) with independent weight kinds / dtypes: A+B vs h(A++B), B+A, (A+B)+C vs A+(B+C), sum([A,B,C]), "
            "sum([A]); operand snapshots before/after; an operand with different bins / a non-histogram operand must be "
            "refused. One case in eight: a HistogramCollection over explicit bins (static / gapped / fixed-width) whose 1-4 "
            "members are created (create / multi_h1) from a random partition of one data set (NaN, empty members, int / float "
            "weights): sum() vs h1(all data) and vs another member order, members vs h1(part), look-ups, add() of the same / "
            "another binning, normalize_all, sum() of an empty collection, copy() independence; members snapshotted around "
            "every call. One case in eight (stream:bins_vs_params, c05_bins.py): two operands (1-D, or N-d with one such axis) "
            "whose binnings agree in every summary -- width, bin count, first grid index, class, number of edges -- but not in "
            "their bins (shifted fixed-width grids in every spelling, edges one ulp / less / more than the allclose tolerance "
            "apart), or the other way round (static / numpy / fixed-width objects and arrays over the same edges, offsets a whole "
            "period apart, only includes_right_edge differs): a + b, b + a, a += b, sum([a, b]), HistogramCollection(a, b) / "
            ".add / .sum() must be refused when the bins clearly differ and hold the pointwise sums (= h of both data sets) when "
            "they are equal; operands unchanged either way. "
            "One case in eight (1-D) / sixteen (N-d): SEQUENCE operands -- an adaptive operand that carries missed "
            "weight (fixed range with outliers, THEN set_adaptive / .adaptive = True / binning.set_adaptive, optionally filled "
            "further; the raw constructor with underflow / overflow; a JSON round trip of such), keep_missed toggled after "
            "filling, a slice of an adaptive parent -- against a left operand that is adaptive with other bins / adaptive with "
            "equal bins / not adaptive, through a + b, b + a, sum() in both orders and += on copies: an accepted addition "
            "holds, bin by bin and in total + missed, everything both operands held (a refusal is fine, lost weight is not), "
            "equal bins add their missed slots, operands unchanged, both orders agree. "
            "One case in sixteen each (c05_share.py, oracle only): stream:shared_memory -- operands built FROM another live "
            "histogram's arrays (constructor, views, from_xarray(to_xarray()), frequencies and errors2 one array), a + b / sum / "
            "in-place += on the live objects, every live histogram snapshotted around every call: nothing but the target of += "
            "changes and the result holds the pointwise sums of what the operands reported before; stream:near_equal_widths -- "
            "adaptive fixed-width operands (1-D / one axis of 2-d) of different ranges and bin counts whose widths differ by a "
            "relative 0 .. 1e-3, far from / near the origin: refused, or else every value of both data sets sits in the bin of the "
            "result that contains it (exact), no weight lost, a + b == b + a. "
            "non-trivial = both operands non-empty; distinct = hash of the op list")
    FIELDS = {"bins", "freq", "err2", "under", "over", "total", "dtype", "keep"}

    def fields_for(self, case):
        if case.get("kind") == "histn":
            return {"bins", "shape", "freq", "err2", "missed", "total", "dtype"}
        if "tiny_gap" in case.get("tags", []):
            return self.FIELDS - {"under", "over"}
        return self.FIELDS

    # ---- HistogramCollection cases (coll_parts): dispatched on case["sub"] == "coll"
    def run_impl(self, case):
        if case.get("sub") in ("share", "nearw"):
            return c05_share.run_impl(case)
        if case.get("sub") == "binsvs":
            return c05_bins.run_impl(case)
        if case.get("sub") == "coll":
            return coll_parts.run_impl(case)
        if case.get("sub") == "seq":
            return seq_run_impl(case)
        return super().run_impl(case)

    def model_case(self, case, io):
        if case.get("sub") in ("share", "nearw"):
            return None         # oracle only: the op language has neither shared arrays nor binnings of nearly equal width
        if case.get("sub") == "binsvs":
            return c05_bins.model_case(case, io)
        if case.get("sub") == "coll":
            return coll_parts.model_case(case, io)
        if case.get("sub") == "seq" and case["kind"] == "histn":
            # the N-d driver has no `sum` op: sum([x, y]) is 0 + x + y = x.copy() + y, the fold the 1-D driver's `sum` computes
            return dict(case, ops=[{"op": "add", "a": op["hs"][0], "b": op["hs"][1], "out": op["out"]} if op["op"] == "sum" else op
                                   for op in case["ops"]])
        return super().model_case(case, io)

    def diff(self, case, model_ok, io):
        if case.get("sub") == "binsvs":
            return c05_bins.diff(case, model_ok, io, self.fields_for(case))
        if case.get("sub") == "coll":
            return coll_parts.diff(case, model_ok, io, self.fields_for(case))
        if case.get("sub") == "seq" and isinstance(model_ok, list):
            # the driver answers a JSON round trip with the document it wrote; the addition property does not look at it
            model_ok = [dict(o, ret="ok") if op["op"] == "roundtrip" and isinstance(o, dict) and isinstance(o.get("ret"), dict) else o
                        for o, op in zip(model_ok, case["ops"])]
        return super().diff(case, model_ok, io)

    def tags(self, case, io):
        t = super().tags(case, io)
        if case.get("sub") == "seq":
            nd = case["kind"] == "histn"
            for k, op in enumerate(case["ops"]):
                if op["op"] in ("add", "sum", "iadd") and k > 0:
                    xi, yi, _ = _seq_operands(op)
                    prev = io["outs"][k - 1]["regs"]
                    if max(xi, yi) < len(prev) and prev[yi] is not None and prev[xi] is not None:
                        y = _seq_view(prev[yi], nd)
                        if prev[yi]["adaptive"] and y["known"] and _seq_missed(y) > 0 and prev[xi]["bins"] != prev[yi]["bins"]:
                            t.append("seq:adaptive_right_operand_with_missed_weight:" + ("refused" if io["outs"][k]["ret"] == "REFUSED" else "accepted"))
        return t

    def neighbours(self, case):
        if case.get("sub") == "seq":
            yield from seq_neighbours(case)

    def gen_case(self, rng, k, tier):
        if k % 16 == 7:
            return c05_share.share_gen(rng)     # stream:shared_memory
        if k % 16 == 15:
            return c05_share.nearw_gen(rng)     # stream:near_equal_widths
        if k % 8 == 3:
            return c05_bins.gen(rng)       # stream:bins_vs_params
        if k % 8 == 1:
            return seq1_gen(rng)
        if k % 16 == 14:
            return seqn_gen(rng)
        if k % 8 == 5:
            return coll_parts.gen(rng)
        if k % 4 == 2:
            from . import nd_parts
            return nd_parts.c05_gen(rng)
        adaptive = rng.random() < 0.35
        tags = []
        if adaptive:
            w = rng.choice([1.0, 0.5, 0.25, 0.1, 2.5])
            b = gen1.fixed_json(w, 0, 0, shift=rng.choice([0.0, 0.0, 0.5 * w]), adaptive=True)
            sets = []
            for _ in range(3):
                n = rng.choice([0, 1, 2, 4, 7])
                off = rng.randint(-20, 20) * w
                sets.append([off + v * 0.2 for v in grid_values(rng, w, n)])
            pairs = None
            tags.append("adaptive")
        else:
            pairs, t = gen1.rising_bins(rng)
            tags += [x for x in ("gapped", "tiny_gap") if t[x]]
            b = gen1.binning_json(pairs, rng=rng, form=rng.choice(["pairs", "static_obj"]))
            sets = [[v for v in gen1.values_for(rng, pairs, rng.choice([0, 1, 2, 4, 7, 12]), nan_share=0.05)] for _ in range(3)]
        wsets = []
        for s in sets:
            ws, wk = gen1.weights_for(rng, len(s), kinds=["none", "none", "int", "dyadic", "zeros", "f32"])
            wsets.append((None if ws is None else [rs(x) for x in ws], wk))
        # clearly different bins (a different number of bins: no tolerance can call them equal)
        npairs = len(pairs) if pairs else 3
        base = rng.randint(-4, 4)
        other_pairs = [[float(base + i), float(base + i + 1)] for i in range(npairs + 1)]
        src = {"binning": b, "sets": [gen1.enc_vals(s) for s in sets], "wsets": wsets, "adaptive": adaptive,
               "other": gen1.binning_json(other_pairs, form="pairs"),
               "invalid": rng.choice(["add_array", "add_scalar", "add_none", "add_list"])}
        if adaptive and rng.random() < 0.5:
            if rng.random() < 0.6:
                w2 = w * rng.choice([2, 3, 10, 0.5])
                ob = gen1.fixed_json(w2, 0, 0, shift=0.0, adaptive=True)
            else:
                w2 = w
                sh = float(Fraction(b["shift"])) if "shift" in b else 0.0
                ob = gen1.fixed_json(w, 0, 0, shift=sh + 0.25 * w, adaptive=True)
            m = rng.choice([0, 1, 3])
            src["offgrid"] = {"binning": ob, "vals": gen1.enc_vals([rng.randint(-10, 10) * w2 + 0.3 * w2 for _ in range(m)])}
            tags.append("offgrid_operand")
        return self.build(src, tags)

    @staticmethod
    def build(src, tags):
        b = src["binning"]
        ops = []

        def mk(out, idxs):
            vals, ws, wk = [], [], None
            anyw = any(src["wsets"][i][0] is not None for i in idxs)
            kinds = {src["wsets"][i][1] for i in idxs if src["wsets"][i][0] is not None}
            for i in idxs:
                vals += src["sets"][i]
                w, k = src["wsets"][i]
                ws += (w if w is not None else ["1"] * len(src["sets"][i]))
            wk = None
            if anyw:
                wk = "float64" if ("float64" in kinds or ("float32" in kinds and len(kinds) > 1)) else (kinds.pop() if len(kinds) == 1 else "int64")
            if src["adaptive"]:
                ops.append({"op": "empty", "out": out, "binning": b})
                ops.append({"op": "fill_n", "h": out, "vs": vals, "ws": ws if anyw else None, "wkind": wk})
            else:
                ops.append({"op": "construct", "out": out, "binning": b, "data": vals, "weights": ws if anyw else None, "wkind": wk})

        mk(0, [0]); mk(1, [1]); mk(2, [2]); mk(3, [0, 1]); mk(10, [0, 1, 2])
        ops.append({"op": "add", "a": 0, "b": 1, "out": 4})
        ops.append({"op": "add", "a": 1, "b": 0, "out": 5})
        ops.append({"op": "add", "a": 4, "b": 2, "out": 6})
        ops.append({"op": "add", "a": 1, "b": 2, "out": 7})
        ops.append({"op": "add", "a": 0, "b": 7, "out": 8})
        ops.append({"op": "sum", "hs": [0, 1, 2], "out": 9})
        ops.append({"op": "sum", "hs": [0], "out": 11})
        ops.append({"op": "construct", "out": 12, "binning": src["other"], "data": [], "weights": None})
        ops.append({"op": "add", "a": 0, "b": 12, "out": 13})
        if src["adaptive"] and src.get("offgrid") is not None:
            # adaptive operands on ANOTHER grid (different width, or same width and another origin), filled or still without
            # bins, against A and against a still empty histogram of A's grid, in both orders: never grid-compatible
            og = src["offgrid"]
            ops.append({"op": "empty", "out": 14, "binning": og["binning"]})
            ops.append({"op": "fill_n", "h": 14, "vs": og["vals"], "ws": None})
            ops.append({"op": "empty", "out": 15, "binning": b})
            ops.append({"op": "empty", "out": 16, "binning": og["binning"]})
            for n, (x, y) in enumerate([(0, 14), (14, 0), (15, 14), (14, 15), (0, 16), (16, 0), (15, 16)]):
                ops.append({"op": "add", "a": x, "b": y, "out": 20 + n, "offgrid": True})
            ops.append({"op": "iadd", "h": 15, "o": 14, "offgrid": True})
        ops.append({"op": "invalid", "what": src["invalid"], "h": 0})
        return {"kind": "hist1", "ops": ops, "tags": tags, "src": src}

    def tags(self, case, io):
        t = super().tags(case, io)
        if case.get("sub") == "binsvs":
            t += c05_bins.dynamic_tags(case, io)
        return t

    def neighbours(self, case):
        if case.get("sub") in ("share", "nearw"):
            return list(c05_share.neighbours(case))
        if case.get("sub") == "binsvs":
            return list(c05_bins.neighbours(case))
        return super().neighbours(case)

    def shrink_candidates(self, case):
        if case.get("sub") in ("share", "nearw"):
            yield from c05_share.shrink_candidates(case)
            return
        if case.get("sub") == "binsvs":
            yield from c05_bins.shrink_candidates(case)
            return
        if case.get("sub") == "coll":
            yield from coll_parts.shrink_candidates(case)
            return
        if case.get("sub") == "seq":
            yield from seq_shrink(case)
            return
        if case.get("kind") == "histn":
            from . import nd_parts
            yield from nd_parts.c05_shrink(case)
            return
        src = case["src"]
        for i in range(3):
            for j in range(len(src["sets"][i])):
                s2 = copy.deepcopy(src)
                del s2["sets"][i][j]
                if s2["wsets"][i][0] is not None:
                    del s2["wsets"][i][0][j]
                yield self.build(s2, case.get("tags", []))

    def oracle(self, case, io):
        if case.get("sub") in ("share", "nearw"):
            return c05_share.oracle(case, io)
        if case.get("sub") == "binsvs":
            return c05_bins.oracle(case, io)
        if case.get("sub") == "coll":
            return coll_parts.oracle(case, io)
        if case.get("sub") == "seq":
            return seq_oracle(case, io)
        if case.get("kind") == "histn":
            from . import nd_parts
            return nd_parts.c05_oracle(case, io)
        outs, ops = io["outs"], case["ops"]
        fails = []
        src = case["src"]
        by_out = {}
        for k, op in enumerate(ops):
            if op["op"] in ("add", "sum") and op["out"] != 13 and not op.get("offgrid"):
                if outs[k]["ret"] == "REFUSED":
                    fails.append(f"refused_valid: {op} was refused: " + "; ".join(io["log"][:2]))
            if op["op"] in ("construct", "fill_n", "empty") and outs[k]["ret"] == "REFUSED" and op.get("out") != 12:
                return ["refused_valid: setup refused: " + "; ".join(io["log"][:2])]
        if fails:
            return fails
        regs = outs[-1]["regs"]
        R = lambda i: regs[i] if i < len(regs) else None
        gapped = "gapped" in case.get("tags", [])
        fields = tuple(f for f in CMP if not (gapped and f in ("under", "over")))
        for name, x, y in (("A+B vs h(A and B)", 4, 3), ("B+A vs A+B", 5, 4), ("(A+B)+C vs A+(B+C)", 6, 8),
                           ("sum([A,B,C]) vs h(all)", 9, 10), ("(A+B)+C vs h(all)", 6, 10), ("sum([A]) vs A", 11, 0)):
            d = same(R(x), R(y), fields)
            if d:
                fails.append(f"sum_differs: {name}: {d} differ: {[R(x)[f] for f in d]} vs {[R(y)[f] for f in d]}")
            sd = stats_same(R(x)["stats"], R(y)["stats"])
            # statistics of a construction count every value (also outside the bins); compare like with like
            if sd and name in ("B+A vs A+B", "(A+B)+C vs A+(B+C)", "sum([A]) vs A", "A+B vs h(A and B)", "sum([A,B,C]) vs h(all)", "(A+B)+C vs h(all)"):
                fails.append(f"stats_differ: {name}: statistics {sd} differ: {[R(x)['stats'][f] for f in sd]} vs {[R(y)['stats'][f] for f in sd]}")
            if R(x)["dtype"] != R(y)["dtype"] and name in ("B+A vs A+B", "(A+B)+C vs A+(B+C)"):
                fails.append(f"dtype_differs: {name}: {R(x)['dtype']} vs {R(y)['dtype']}")
        exp_dt = str(np.promote_types(R(0)["dtype"], R(1)["dtype"]))
        if R(4)["dtype"] != exp_dt:
            fails.append(f"dtype_promotion: (A+B).dtype = {R(4)['dtype']}, numpy promotion of {R(0)['dtype']} and {R(1)['dtype']} is {exp_dt}")
        # operands are never modified
        first_add = next(k for k, op in enumerate(ops) if op["op"] == "add")
        before = outs[first_add - 1]["regs"]
        for i in (0, 1, 2):
            if before[i] != regs[i]:
                diffs = [f for f in before[i] if before[i][f] != regs[i][f]]
                fails.append(f"operand_modified: operand {i} changed by the additions: fields {diffs}")
        # refusals
        k13 = next(k for k, op in enumerate(ops) if op.get("out") == 13 and op["op"] == "add")
        if not src["adaptive"] and outs[k13]["ret"] != "REFUSED":
            if R(0)["bins"] != R(12)["bins"]:
                fails.append("accepted_incompatible: histograms with different bins were added")
        if outs[-1]["ret"] != "REFUSED":
            fails.append(f"accepted_invalid: {src['invalid']} accepted outside free arithmetics")
        for k, op in enumerate(ops):
            if op.get("offgrid") and outs[k]["ret"] != "REFUSED":
                who = (op.get("a"), op.get("b")) if op["op"] == "add" else (op.get("h"), op.get("o"))
                prev = outs[k - 1]["regs"]
                if not any(prev[i]["bins"] for i in who):
                    continue      # two histograms without any bins have the same (no) bins: the property does not say they are refused
                fails.append(f"accepted_incompatible: adaptive histograms on different grids were added (registers {who}: "
                             f"{src['binning'].get('w')} / shift {src['binning'].get('shift')} and {src['offgrid']['binning'].get('w')} / "
                             f"shift {src['offgrid']['binning'].get('shift')}) instead of being refused")
                break
        if src["adaptive"] and R(4)["bins"]:
            # union of both ranges on the common grid
            lo = min(x[0][0] for x in (R(0)["bins"], R(1)["bins"]) if x)
            lo = min((Fraction(x[0][0]) for x in (R(0)["bins"], R(1)["bins"]) if x))
            hi = max((Fraction(x[-1][1]) for x in (R(0)["bins"], R(1)["bins"]) if x))
            if Fraction(R(4)["bins"][0][0]) != lo or Fraction(R(4)["bins"][-1][1]) != hi:
                fails.append("union_span: the sum does not span exactly the union of both ranges")
            if Fraction(R(4)["total"]) != Fraction(R(0)["total"]) + Fraction(R(1)["total"]):
                fails.append("union_total: weight lost when adapting")
        return fails[:6]

    def nontrivial(self, case, io):
        if case.get("sub") in ("share", "nearw"):
            return c05_share.nontrivial(case, io)
        if case.get("sub") == "binsvs":
            return c05_bins.nontrivial(case, io)
        if case.get("sub") == "coll":
            return coll_parts.nontrivial(case, io)
        if case.get("sub") == "seq":
            regs = io["outs"][-1]["regs"]
            return all(r is not None and Fraction(r["total"]) > 0 for r in regs[:2])
        if case.get("kind") == "histn":
            return len(case["src"]["sets"][0]) > 0 and len(case["src"]["sets"][1]) > 0
        s = case["src"]["sets"]
        return len(s[0]) > 0 and len(s[1]) > 0


PROP = C05()

"""C05 — adding histograms equals histogramming the combined data (1-D; ND/dask parts in c05 extras)."""
from __future__ import annotations

import copy
from fractions import Fraction

import numpy as np

from .. import gen1
from ..core import rs
from . import c05_bins, coll_parts
from .base1 import Hist1Prop
from .c04 import values as grid_values

CMP = ("bins", "freq", "err2", "under", "over")


def same(a, b, fields=CMP):
    out = []
    for f in fields:
        x, y = a[f], b[f]
        if f in ("under", "over"):
            if (x is None) != (y is None) or (x is not None and Fraction(x) != Fraction(y)):
                out.append(f)
        elif f == "bins":
            if x != y:
                out.append(f)
        else:
            if [Fraction(v) for v in x] != [Fraction(v) for v in y]:
                out.append(f)
    return out


def stats_same(a, b):
    if a["valid"] != b["valid"]:
        return ["valid"]
    if not a["valid"]:
        return []
    out = []
    mag = max([abs(Fraction(x[f])) for x in (a, b) for f in ("min", "max") if x[f] is not None] + [Fraction(1)])
    wt = max(abs(Fraction(a["weight"])), abs(Fraction(b["weight"])), 1)
    for f in ("sum", "sum2", "weight", "min", "max"):
        if (a[f] is None) != (b[f] is None):
            out.append(f)
        elif a[f] is not None:
            x, y = Fraction(a[f]), Fraction(b[f])
            tol = 0 if f in ("min", "max") else Fraction(1, 10**9) * wt * (mag if f == "sum" else mag * mag if f == "sum2" else 1)
            if abs(x - y) > tol:
                out.append(f)
    return out


class C05(Hist1Prop):
    ID = "C05"
    N_QUICK = 300
    N_THOROUGH = 8000
    RULE = ("three data sets A, B, C over the same bins (static, gapped, or adaptive fixed-width histograms on one grid with "
            "different ranges) with independent weight kinds / dtypes: A+B vs h(A++B), B+A, (A+B)+C vs A+(B+C), sum([A,B,C]), "
            "sum([A]); operand snapshots before/after; an operand with different bins / a non-histogram operand must be "
            "refused. One case in eight: a HistogramCollection over explicit bins (static / gapped / fixed-width) whose 1-4 "
            "members are created (create / multi_h1) from a random partition of one data set (NaN, empty members, int / float "
            "weights): sum() vs h1(all data) and vs another member order, members vs h1(part), look-ups, add() of the same / "
            "another binning, normalize_all, sum() of an empty collection, copy() independence; members snapshotted around "
            "every call. One case in eight (stream:bins_vs_params, c05_bins.py): two operands (1-D, or N-d with one such axis) "
            "whose binnings agree in every summary -- width, bin count, first grid index, class, number of edges -- but not in "
            "their bins (shifted fixed-width grids in every spelling, edges one ulp / less / more than the allclose tolerance "
            "apart), or the other way round (static / numpy / fixed-width objects and arrays over the same edges, offsets a whole "
            "period apart, only includes_right_edge differs): a + b, b + a, a += b, sum([a, b]), HistogramCollection(a, b) / "
            ".add / .sum() must be refused when the bins clearly differ and hold the pointwise sums (= h of both data sets) when "
            "they are equal; operands unchanged either way. non-trivial = both operands non-empty; distinct = hash of the op list")
    FIELDS = {"bins", "freq", "err2", "under", "over", "total", "dtype", "keep"}

    def fields_for(self, case):
        if case.get("kind") == "histn":
            return {"bins", "shape", "freq", "err2", "missed", "total", "dtype"}
        if "tiny_gap" in case.get("tags", []):
            return self.FIELDS - {"under", "over"}
        return self.FIELDS

    # ---- HistogramCollection cases (coll_parts): dispatched on case["sub"] == "coll"
    def run_impl(self, case):
        if case.get("sub") == "binsvs":
            return c05_bins.run_impl(case)
        if case.get("sub") == "coll":
            return coll_parts.run_impl(case)
        return super().run_impl(case)

    def model_case(self, case, io):
        if case.get("sub") == "binsvs":
            return c05_bins.model_case(case, io)
        if case.get("sub") == "coll":
            return coll_parts.model_case(case, io)
        return super().model_case(case, io)

    def diff(self, case, model_ok, io):
        if case.get("sub") == "binsvs":
            return c05_bins.diff(case, model_ok, io, self.fields_for(case))
        if case.get("sub") == "coll":
            return coll_parts.diff(case, model_ok, io, self.fields_for(case))
        return super().diff(case, model_ok, io)

    def gen_case(self, rng, k, tier):
        if k % 8 == 3:
            return c05_bins.gen(rng)       # stream:bins_vs_params
        if k % 8 == 5:
            return coll_parts.gen(rng)
        if k % 4 == 2:
            from . import nd_parts
            return nd_parts.c05_gen(rng)
        adaptive = rng.random() < 0.35
        tags = []
        if adaptive:
            w = rng.choice([1.0, 0.5, 0.25, 0.1, 2.5])
            b = gen1.fixed_json(w, 0, 0, shift=rng.choice([0.0, 0.0, 0.5 * w]), adaptive=True)
            sets = []
            for _ in range(3):
                n = rng.choice([0, 1, 2, 4, 7])
                off = rng.randint(-20, 20) * w
                sets.append([off + v * 0.2 for v in grid_values(rng, w, n)])
            pairs = None
            tags.append("adaptive")
        else:
            pairs, t = gen1.rising_bins(rng)
            tags += [x for x in ("gapped", "tiny_gap") if t[x]]
            b = gen1.binning_json(pairs, rng=rng, form=rng.choice(["pairs", "static_obj"]))
            sets = [[v for v in gen1.values_for(rng, pairs, rng.choice([0, 1, 2, 4, 7, 12]), nan_share=0.05)] for _ in range(3)]
        wsets = []
        for s in sets:
            ws, wk = gen1.weights_for(rng, len(s), kinds=["none", "none", "int", "dyadic", "zeros", "f32"])
            wsets.append((None if ws is None else [rs(x) for x in ws], wk))
        # clearly different bins (a different number of bins: no tolerance can call them equal)
        npairs = len(pairs) if pairs else 3
        base = rng.randint(-4, 4)
        other_pairs = [[float(base + i), float(base + i + 1)] for i in range(npairs + 1)]
        src = {"binning": b, "sets": [gen1.enc_vals(s) for s in sets], "wsets": wsets, "adaptive": adaptive,
               "other": gen1.binning_json(other_pairs, form="pairs"),
               "invalid": rng.choice(["add_array", "add_scalar", "add_none", "add_list"])}
        if adaptive and rng.random() < 0.5:
            if rng.random() < 0.6:
                w2 = w * rng.choice([2, 3, 10, 0.5])
                ob = gen1.fixed_json(w2, 0, 0, shift=0.0, adaptive=True)
            else:
                w2 = w
                sh = float(Fraction(b["shift"])) if "shift" in b else 0.0
                ob = gen1.fixed_json(w, 0, 0, shift=sh + 0.25 * w, adaptive=True)
            m = rng.choice([0, 1, 3])
            src["offgrid"] = {"binning": ob, "vals": gen1.enc_vals([rng.randint(-10, 10) * w2 + 0.3 * w2 for _ in range(m)])}
            tags.append("offgrid_operand")
        return self.build(src, tags)

    @staticmethod
    def build(src, tags):
        b = src["binning"]
        ops = []

        def mk(out, idxs):
            vals, ws, wk = [], [], None
            anyw = any(src["wsets"][i][0] is not None for i in idxs)
            kinds = {src["wsets"][i][1] for i in idxs if src["wsets"][i][0] is not None}
            for i in idxs:
                vals += src["sets"][i]
                w, k = src["wsets"][i]
                ws += (w if w is not None else ["1"] * len(src["sets"][i]))
            wk = None
            if anyw:
                wk = "float64" if ("float64" in kinds or ("float32" in kinds and len(kinds) > 1)) else (kinds.pop() if len(kinds) == 1 else "int64")
            if src["adaptive"]:
                ops.append({"op": "empty", "out": out, "binning": b})
                ops.append({"op": "fill_n", "h": out, "vs": vals, "ws": ws if anyw else None, "wkind": wk})
            else:
                ops.append({"op": "construct", "out": out, "binning": b, "data": vals, "weights": ws if anyw else None, "wkind": wk})

        mk(0, [0]); mk(1, [1]); mk(2, [2]); mk(3, [0, 1]); mk(10, [0, 1, 2])
        ops.append({"op": "add", "a": 0, "b": 1, "out": 4})
        ops.append({"op": "add", "a": 1, "b": 0, "out": 5})
        ops.append({"op": "add", "a": 4, "b": 2, "out": 6})
        ops.append({"op": "add", "a": 1, "b": 2, "out": 7})
        ops.append({"op": "add", "a": 0, "b": 7, "out": 8})
        ops.append({"op": "sum", "hs": [0, 1, 2], "out": 9})
        ops.append({"op": "sum", "hs": [0], "out": 11})
        ops.append({"op": "construct", "out": 12, "binning": src["other"], "data": [], "weights": None})
        ops.append({"op": "add", "a": 0, "b": 12, "out": 13})
        if src["adaptive"] and src.get("offgrid") is not None:
            # adaptive operands on ANOTHER grid (different width, or same width and another origin), filled or still without
            # bins, against A and against a still empty histogram of A's grid, in both orders: never grid-compatible
            og = src["offgrid"]
            ops.append({"op": "empty", "out": 14, "binning": og["binning"]})
            ops.append({"op": "fill_n", "h": 14, "vs": og["vals"], "ws": None})
            ops.append({"op": "empty", "out": 15, "binning": b})
            ops.append({"op": "empty", "out": 16, "binning": og["binning"]})
            for n, (x, y) in enumerate([(0, 14), (14, 0), (15, 14), (14, 15), (0, 16), (16, 0), (15, 16)]):
                ops.append({"op": "add", "a": x, "b": y, "out": 20 + n, "offgrid": True})
            ops.append({"op": "iadd", "h": 15, "o": 14, "offgrid": True})
        ops.append({"op": "invalid", "what": src["invalid"], "h": 0})
        return {"kind": "hist1", "ops": ops, "tags": tags, "src": src}

    def tags(self, case, io):
        t = super().tags(case, io)
        if case.get("sub") == "binsvs":
            t += c05_bins.dynamic_tags(case, io)
        return t

    def neighbours(self, case):
        if case.get("sub") == "binsvs":
            return list(c05_bins.neighbours(case))
        return super().neighbours(case)

    def shrink_candidates(self, case):
        if case.get("sub") == "binsvs":
            yield from c05_bins.shrink_candidates(case)
            return
        if case.get("sub") == "coll":
            yield from coll_parts.shrink_candidates(case)
            return
        if case.get("kind") == "histn":
            from . import nd_parts
            yield from nd_parts.c05_shrink(case)
            return
        src = case["src"]
        for i in range(3):
            for j in range(len(src["sets"][i])):
                s2 = copy.deepcopy(src)
                del s2["sets"][i][j]
                if s2["wsets"][i][0] is not None:
                    del s2["wsets"][i][0][j]
                yield self.build(s2, case.get("tags", []))

    def oracle(self, case, io):
        if case.get("sub") == "binsvs":
            return c05_bins.oracle(case, io)
        if case.get("sub") == "coll":
            return coll_parts.oracle(case, io)
        if case.get("kind") == "histn":
            from . import nd_parts
            return nd_parts.c05_oracle(case, io)
        outs, ops = io["outs"], case["ops"]
        fails = []
        src = case["src"]
        by_out = {}
        for k, op in enumerate(ops):
            if op["op"] in ("add", "sum") and op["out"] != 13 and not op.get("offgrid"):
                if outs[k]["ret"] == "REFUSED":
                    fails.append(f"refused_valid: {op} was refused: " + "; ".join(io["log"][:2]))
            if op["op"] in ("construct", "fill_n", "empty") and outs[k]["ret"] == "REFUSED" and op.get("out") != 12:
                return ["refused_valid: setup refused: " + "; ".join(io["log"][:2])]
        if fails:
            return fails
        regs = outs[-1]["regs"]
        R = lambda i: regs[i] if i < len(regs) else None
        gapped = "gapped" in case.get("tags", [])
        fields = tuple(f for f in CMP if not (gapped and f in ("under", "over")))
        for name, x, y in (("A+B vs h(A and B)", 4, 3), ("B+A vs A+B", 5, 4), ("(A+B)+C vs A+(B+C)", 6, 8),
                           ("sum([A,B,C]) vs h(all)", 9, 10), ("(A+B)+C vs h(all)", 6, 10), ("sum([A]) vs A", 11, 0)):
            d = same(R(x), R(y), fields)
            if d:
                fails.append(f"sum_differs: {name}: {d} differ: {[R(x)[f] for f in d]} vs {[R(y)[f] for f in d]}")
            sd = stats_same(R(x)["stats"], R(y)["stats"])
            # statistics of a construction count every value (also outside the bins); compare like with like
            if sd and name in ("B+A vs A+B", "(A+B)+C vs A+(B+C)", "sum([A]) vs A", "A+B vs h(A and B)", "sum([A,B,C]) vs h(all)", "(A+B)+C vs h(all)"):
                fails.append(f"stats_differ: {name}: statistics {sd} differ: {[R(x)['stats'][f] for f in sd]} vs {[R(y)['stats'][f] for f in sd]}")
            if R(x)["dtype"] != R(y)["dtype"] and name in ("B+A vs A+B", "(A+B)+C vs A+(B+C)"):
                fails.append(f"dtype_differs: {name}: {R(x)['dtype']} vs {R(y)['dtype']}")
        exp_dt = str(np.promote_types(R(0)["dtype"], R(1)["dtype"]))
        if R(4)["dtype"] != exp_dt:
            fails.append(f"dtype_promotion: (A+B).dtype = {R(4)['dtype']}, numpy promotion of {R(0)['dtype']} and {R(1)['dtype']} is {exp_dt}")
        # operands are never modified
        first_add = next(k for k, op in enumerate(ops) if op["op"] == "add")
        before = outs[first_add - 1]["regs"]
        for i in (0, 1, 2):
            if before[i] != regs[i]:
                diffs = [f for f in before[i] if before[i][f] != regs[i][f]]
                fails.append(f"operand_modified: operand {i} changed by the additions: fields {diffs}")
        # refusals
        k13 = next(k for k, op in enumerate(ops) if op.get("out") == 13 and op["op"] == "add")
        if not src["adaptive"] and outs[k13]["ret"] != "REFUSED":
            if R(0)["bins"] != R(12)["bins"]:
                fails.append("accepted_incompatible: histograms with different bins were added")
        if outs[-1]["ret"] != "REFUSED":
            fails.append(f"accepted_invalid: {src['invalid']} accepted outside free arithmetics")
        for k, op in enumerate(ops):
            if op.get("offgrid") and outs[k]["ret"] != "REFUSED":
                who = (op.get("a"), op.get("b")) if op["op"] == "add" else (op.get("h"), op.get("o"))
                prev = outs[k - 1]["regs"]
                if not any(prev[i]["bins"] for i in who):
                    continue      # two histograms without any bins have the same (no) bins: the property does not say they are refused
                fails.append(f"accepted_incompatible: adaptive histograms on different grids were added (registers {who}: "
                             f"{src['binning'].get('w')} / shift {src['binning'].get('shift')} and {src['offgrid']['binning'].get('w')} / "
                             f"shift {src['offgrid']['binning'].get('shift')}) instead of being refused")
                break
        if src["adaptive"] and R(4)["bins"]:
            # union of both ranges on the common grid
            lo = min(x[0][0] for x in (R(0)["bins"], R(1)["bins"]) if x)
            lo = min((Fraction(x[0][0]) for x in (R(0)["bins"], R(1)["bins"]) if x))
            hi = max((Fraction(x[-1][1]) for x in (R(0)["bins"], R(1)["bins"]) if x))
            if Fraction(R(4)["bins"][0][0]) != lo or Fraction(R(4)["bins"][-1][1]) != hi:
                fails.append("union_span: the sum does not span exactly the union of both ranges")
            if Fraction(R(4)["total"]) != Fraction(R(0)["total"]) + Fraction(R(1)["total"]):
                fails.append("union_total: weight lost when adapting")
        return fails[:6]

    def nontrivial(self, case, io):
        if case.get("sub") == "binsvs":
            return c05_bins.nontrivial(case, io)
        if case.get("sub") == "coll":
            return coll_parts.nontrivial(case, io)
        if case.get("kind") == "histn":
            return len(case["src"]["sets"][0]) > 0 and len(case["src"]["sets"][1]) > 0
        s = case["src"]["sets"]
        return len(s[0]) > 0 and len(s[1]) > 0


PROP = C05()

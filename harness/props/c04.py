"""C04 — adaptive fixed-width histograms never lose a value when bins grow (1-D; ND part in c04nd)."""
from __future__ import annotations

import copy
from fractions import Fraction

import numpy as np

from .. import gen1
from ..core import rs
from .base1 import Hist1Prop

WIDTHS = [1.0, 10.0, 0.5, 0.25, 0.1, 0.3, 0.7, 1 / 3, 2.5, 1e-3, 1e3, 0.05]


def values(rng, w, n):
    out = []
    for _ in range(n):
        r = rng.random()
        if r < 0.35:   # decimal literal with 0-3 digits
            out.append(round(rng.uniform(-30, 30) * rng.choice([w, 3 * w, 10 * w]), rng.choice([0, 1, 2, 3])))
        elif r < 0.6:  # exact multiple of the width
            out.append(rng.randint(-40, 40) * w)
        elif r < 0.75:  # one ulp beside a multiple
            x = rng.randint(-40, 40) * w
            out.append(gen1.nxt(x, rng.random() < 0.5))
        elif r < 0.85 and out:
            out.append(rng.choice(out))
        elif r < 0.88:
            out.append(rng.choice([-1, 1]) * rng.randint(45, 160) * w)   # far away (a few hundred bins)
        else:
            out.append(rng.uniform(-20, 20) * w)
    return [float(v) for v in out]


class C04(Hist1Prop):
    ID = "C04"
    N_QUICK = 250
    N_THOROUGH = 10000
    RULE = ("histories of fill / fill_n (empty batches, NaNs, weights) on adaptive fixed-width 1-D histograms started empty "
            "(bin_shift / align options) or pre-filled; widths {1,10,.5,.25,.1,.3,.7,1/3,2.5,1e-3,1e3,.05}; values = decimal "
            "literals, exact multiples of the width, one-ulp neighbours of multiples, far values, duplicates; a find_bin for "
            "every entered value at the end; plus the non-adaptive fixed_width / integer / pretty factories on the same data. "
            "non-trivial = the bins grew at least twice; distinct = hash of the op list")
    FIELDS = {"bins", "freq", "err2", "under", "over", "total", "keep", "binning"}
    EXTRA_TRUST = ["grid edges and cell estimates are floating-point computations: the theorems hold for every FloatOps "
                   "instance with strictly increasing edges; the driver uses IEEE doubles and the oracle checks the "
                   "implementation's own edges"]

    def gen_case(self, rng, k, tier):
        if rng.random() < 0.3:
            from . import nd_parts
            return nd_parts.c04_gen(rng)
        w = rng.choice(WIDTHS)
        kw = {"align": True, "shift": 0.0}
        if rng.random() < 0.25:
            kw["align"] = False
        if rng.random() < 0.3:
            kw["shift"] = rng.choice([0.5, 0.25, 0.05]) * w
        b = gen1.fixed_json(w, 0, 0, shift=kw["shift"], adaptive=True, align=kw["align"])
        nsteps = rng.randint(1, 8)
        steps = []
        seen = []
        import math

        def on_edge():
            """a value exactly on (or one ulp beside) the current outer edges of the bins grown so far"""
            sh = kw["shift"] if kw["align"] else 0.0
            hi = (math.floor((max(seen) - sh) / w) + 1) * w + sh
            lo = math.floor((min(seen) - sh) / w) * w + sh
            x = rng.choice([hi, hi, lo, hi + w, lo - w])
            return rng.choice([x, x, gen1.nxt(x, True), gen1.nxt(x, False)])

        if not kw["align"] and rng.random() < 0.6:
            # an unaligned grid is anchored at its first value: a decimal fraction of the width on either side of 0 makes
            # `value - times_min * width` round, so the first edge may land one ulp beside the value
            v = rng.choice([-1, -1, 1]) * rng.choice([0.1, 0.3, 0.7, 0.9, 0.05, 1 / 3, 0.6]) * w
            seen.append(v)
            if rng.random() < 0.6:
                steps.append({"t": "fill", "v": rs(v), "w": "1", "wk": "pyint"})
            else:
                steps.append({"t": "fill_n", "vs": gen1.enc_vals([v]), "ws": None})
        for _ in range(nsteps):
            if rng.random() < 0.5:
                v = on_edge() if seen and rng.random() < 0.3 else values(rng, w, 1)[0]
                seen.append(v)
                wt = rng.choice([1, 1, 2, 0.5])
                steps.append({"t": "fill", "v": rs(v), "w": rs(wt), "wk": "pyint" if isinstance(wt, int) else "pyfloat"})
            else:
                n = rng.choice([0, 1, 2, 3, 6])
                vs = values(rng, w, n)
                if seen and vs and rng.random() < 0.3:
                    vs[rng.randrange(len(vs))] = on_edge()
                seen += vs
                if rng.random() < 0.15:
                    vs.insert(rng.randint(0, len(vs)), None)
                ws = None
                if rng.random() < 0.3:
                    ws = [rs(rng.choice([1, 2, 0.5, 0.25])) for _ in vs]
                steps.append({"t": "fill_n", "vs": gen1.enc_vals(vs), "ws": ws})
        src = {"binning": b, "steps": steps, "w": rs(w)}
        if rng.random() < 0.2:
            # the same history with float32 data (numpy scalars for fill, float32 arrays for fill_n): every value is first
            # rounded to float32, so that it is the same number on both sides; physt must locate it with double precision
            vk = "float32"
            for s in steps:
                if s["t"] == "fill":
                    s["v"] = rs(float(np.float32(float(Fraction(s["v"])))))
                else:
                    s["vs"] = gen1.enc_vals([None if v is None else float(np.float32(float(Fraction(v)))) for v in s["vs"]])
                s["vk"] = vk
            src["vk"] = vk
        return self.build(src)

    @staticmethod
    def build(src):
        ops = [{"op": "empty", "out": 0, "binning": src["binning"]}]
        allv = []
        for s in src["steps"]:
            if s["t"] == "fill":
                ops.append({"op": "fill", "h": 0, "v": s["v"], "w": s["w"], "wk": s["wk"]})
                allv.append(s["v"])
            else:
                ops.append({"op": "fill_n", "h": 0, "vs": s["vs"], "ws": s["ws"], "wkind": "float64"})
                allv += [v for v in s["vs"] if v is not None]
            if s.get("vk"):
                ops[-1]["vk"] = s["vk"]
        for v in allv:
            ops.append({"op": "find_bin", "h": 0, "v": v})
            if src.get("vk"):
                ops[-1]["vk"] = src["vk"]
        return {"kind": "hist1", "fuel": 64, "ops": ops, "tags": [], "src": src}

    def shrink_candidates(self, case):
        if case.get("kind") == "histn":
            from . import nd_parts
            yield from nd_parts.c04_shrink(case)
            return
        src = case["src"]
        for i in range(len(src["steps"]) - 1, -1, -1):
            s2 = copy.deepcopy(src)
            del s2["steps"][i]
            yield self.build(s2)
        for i, st in enumerate(src["steps"]):
            if st["t"] == "fill_n":
                for j in range(len(st["vs"])):
                    s2 = copy.deepcopy(src)
                    del s2["steps"][i]["vs"][j]
                    if s2["steps"][i]["ws"] is not None:
                        del s2["steps"][i]["ws"][j]
                    yield self.build(s2)

    def oracle(self, case, io):
        if case.get("kind") == "histn":
            from . import nd_parts
            return nd_parts.c04_oracle(case, io)
        outs, ops = io["outs"], case["ops"]
        fails = []
        if any(o["ret"] == "REFUSED" for o in outs):
            return ["refused_valid: a valid call was refused: " + "; ".join(io["log"][:2])]
        entered = []   # (value, weight)
        prev = None
        w = float(Fraction(case["src"]["w"]))
        for k, op in enumerate(ops):
            snap = outs[k]["regs"][0]
            if op["op"] == "fill":
                if op["v"] is not None:
                    entered.append((Fraction(op["v"]), Fraction(op["w"])))
            elif op["op"] == "fill_n":
                for j, v in enumerate(op["vs"]):
                    if v is not None:
                        entered.append((Fraction(v), Fraction(op["ws"][j]) if op["ws"] is not None else Fraction(1)))
            elif op["op"] == "find_bin":
                r = outs[k]["ret"]
                if not (isinstance(r, int) and 0 <= r < len(snap["bins"])):
                    fails.append(f"lost_value: find_bin({op['v']}) = {r}: the value entered is in no bin")
                continue
            bins = [(Fraction(l), Fraction(r)) for l, r in snap["bins"]]
            tot = sum((x for _, x in entered), Fraction(0))
            if Fraction(snap["total"]) != tot:
                fails.append(f"total: total is {snap['total']}, weight entered is {tot}")
            if snap["under"] != "0" or snap["over"] != "0":
                fails.append(f"missed_nonzero: underflow/overflow = {snap['under']}/{snap['over']}")
            # contiguous, on the grid: every edge = (tmin + i) * width + shift as the library computes it
            m = snap["binning"]
            if bins:
                sh = float(Fraction(m["shift"]))
                exp = [((m["tmin"] + i) * w + sh, (m["tmin"] + i + 1) * w + sh) for i in range(len(bins))]
                if [(Fraction(a), Fraction(b)) for a, b in exp] != bins:
                    fails.append("off_grid: the bins are not origin + k*width")
                if not all(a < b for a, b in bins):
                    fails.append("not_rising: bins are not rising")
                # exact span: the lowest and the highest bin are needed
                vs = [v for v, _ in entered]
                if vs and not (bins[0][0] <= min(vs) < bins[0][1]):
                    fails.append("span_low: the first bin does not contain the smallest value entered")
                if vs and not (bins[-1][0] <= max(vs) < bins[-1][1]):
                    fails.append("span_high: the last bin does not contain the largest value entered")
                # equals the fixed-bin histogram of the same data over the final bins
                for i, (l, r) in enumerate(bins):
                    c = sum((x for v, x in entered if l <= v < r), Fraction(0))
                    if Fraction(snap["freq"][i]) != c:
                        fails.append(f"content: bin {i} [{float(l)},{float(r)}) holds {snap['freq'][i]}, data give {c}")
                        break
                    e2 = sum((x * x for v, x in entered if l <= v < r), Fraction(0))
                    if Fraction(snap["err2"][i]) != e2:
                        fails.append(f"errors2: bin {i} holds {snap['err2'][i]}, data give {e2}")
                        break
            # contents recorded earlier stay attached to the same interval
            if prev is not None:
                old = {tuple(b): (f, e) for b, f, e in zip(prev["bins"], prev["freq"], prev["err2"])}
                new = {tuple(b): (f, e) for b, f, e in zip(snap["bins"], snap["freq"], snap["err2"])}
                for b, (f, e) in old.items():
                    if b not in new:
                        if Fraction(f) != 0:
                            fails.append(f"detached: bin {b} with content {f} disappeared")
                    elif Fraction(new[b][0]) < Fraction(f):
                        fails.append(f"detached: content of bin {b} decreased from {f} to {new[b][0]}")
            prev = snap
        return fails[:6]

    def nontrivial(self, case, io):
        if case.get("kind") == "histn":
            return len({tuple(o["regs"][0]["shape"]) for o in io["outs"] if o["regs"] and o["regs"][0]}) >= 3
        sizes = {len(o["regs"][0]["bins"]) for o in io["outs"] if o["regs"] and o["regs"][0]}
        return len(sizes) >= 3

    def tags(self, case, io):
        t = super().tags(case, io)
        if case.get("kind") == "histn":
            return t
        t.append("width:" + str(float(Fraction(case["src"]["w"]))))
        t.append("bins_final:" + str(min(len(io["outs"][-1]["regs"][0]["bins"]) // 100 * 100, 2000)))
        return t


PROP = C04()

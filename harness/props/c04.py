"""C04 — adaptive fixed-width histograms never lose a value when bins grow (1-D; ND part in c04nd)."""
from __future__ import annotations

import copy
from fractions import Fraction

import numpy as np

from .. import gen1
from ..core import rs
from . import c04_prefilled as pre
from . import c04_refused as ref
from .base1 import Hist1Prop

WIDTHS = [1.0, 10.0, 0.5, 0.25, 0.1, 0.3, 0.7, 1 / 3, 2.5, 1e-3, 1e3, 0.05]


def values(rng, w, n):
    out = []
    for _ in range(n):
        r = rng.random()
        if r < 0.35:   # decimal literal with 0-3 digits
            out.append(round(rng.uniform(-30, 30) * rng.choice([w, 3 * w, 10 * w]), rng.choice([0, 1, 2, 3])))
        elif r < 0.6:  # exact multiple of the width
            out.append(rng.randint(-40, 40) * w)
        elif r < 0.75:  # one ulp beside a multiple
            x = rng.randint(-40, 40) * w
            out.append(gen1.nxt(x, rng.random() < 0.5))
        elif r < 0.85 and out:
            out.append(rng.choice(out))
        elif r < 0.88:
            out.append(rng.choice([-1, 1]) * rng.randint(45, 160) * w)   # far away (a few hundred bins)
        else:
            out.append(rng.uniform(-20, 20) * w)
    return [float(v) for v in out]


# ------------------------------------------------------------------------------ narrow value carriers entering N-d histograms
# N-d adaptive histograms that ALREADY have bins receive fill_n batches (fill points) carried by float32 / float16 / narrow
# integer arrays; one row holds, on one axis, a number of that type lying just below / just above (or on) an existing outer
# edge k*w + shift -- which is a double, usually not representable in the narrow type. The value entered is the exact value
# of the narrow number (every number of these types is a double), so the exact oracle and the model know its cell.
NARROW_WIDTHS = [0.1, 0.1, 0.1, 0.2, 0.3, 0.3, 0.7, 0.7, 0.05, 0.6, 1 / 3, 1e-3, 2.5]
INT_WIDTHS = [0.1, 0.2, 0.25, 0.5, 1.0, 1 / 3]          # integers are (nearly) edges of these grids
FLOAT_KINDS = ["float32"] * 6 + ["float16"] * 2
INT_KINDS = ["int8", "int16", "uint8", "int32"]
TRANSFORMED = {2: ["PolarHistogram"], 3: ["CylindricalHistogram", "SphericalHistogram"]}
ENABLE_ND_NARROW = True


def to_kind(x: float, vk: str) -> float:
    """x rounded to the nearest number of the numpy type vk, as a double"""
    return float(np.dtype(vk).type(x))


def beside(e: float, vk: str, above: bool) -> float:
    """the largest number of type vk below the double e (above=False) / the smallest one that is >= e, i.e. on the edge when
    the edge is a number of that type, else just above it (above=True)"""
    t = np.dtype(vk).type
    if np.dtype(vk).kind in "iu":
        import math
        n = math.ceil(e)
        return float(n if above else n - 1)
    x = t(e)
    if float(x) < e:
        lo, hi = x, np.nextafter(x, t(np.inf))
    else:
        lo, hi = np.nextafter(x, t(-np.inf)), x
    return float(hi if above else lo)


def narrow_params(rng):
    """the random choices of one case of the stream (plain JSON; narrow_case builds the case from them without the rng)"""
    d = rng.choice([2, 2, 3])
    integer = rng.random() < 0.15
    vk = rng.choice(INT_KINDS if integer else FLOAT_KINDS)
    klass = None
    r = rng.random()
    if r < 0.12:
        klass = rng.choice(TRANSFORMED[d])
    elif r < 0.3 and d == 2:
        klass = "HistogramND"
    ws, shifts, ks, ms = [], [], [], []
    for _ in range(d):
        if integer:
            # cells from the one starting at (about) the integer n to the one after n + 1: n sits on / just below the first
            # edge, n + 1 is inside
            w = rng.choice(INT_WIDTHS if d == 2 else INT_WIDTHS[2:])
            n = rng.randint(2 if vk == "uint8" else -6, 6)
            ws.append(w); shifts.append(0.0)
            ks.append(round(n / w)); ms.append(round((n + 1) / w) + 1 - round(n / w))
        else:
            w = rng.choice(NARROW_WIDTHS)
            ws.append(w); shifts.append(0.0 if rng.random() < 0.75 else rng.choice([0.5, 0.25]) * w)
            ks.append(rng.choice([-1, 1]) * rng.randint(1, 40) if rng.random() < 0.85 else 0)
            ms.append(rng.randint(1, 3 if d == 2 else 2))
    n = rng.choice([1, 2, 2, 3, 4])
    mode = "single" if n == 1 else rng.choice(["fits", "fits", "fits", "other_side", "other_side", "other_axes"])
    return {"d": d, "vk": vk, "klass": klass, "ws": ws, "shifts": shifts, "ks": ks, "ms": ms,
            "axis": rng.randrange(d), "side": rng.choice(["low", "low", "high"]), "near": rng.choice(["below", "above"]),
            "n": n, "pos": rng.randrange(n), "mode": mode, "gap": rng.randint(0, 2), "other_dir": rng.choice([-1, 1]),
            "probe": "fill_n" if n > 1 or rng.random() < 0.6 else "fill",
            "vform": rng.choice(["array", "scalars"]),
            "layout": rng.choice(["", "", "", "F", "readonly", "F,readonly", "strided"]),
            "weights": rng.choice([None, None, None, "float64", "float32", "float32"]),
            "wvals": [rng.choice([1, 2, 0.5, 0.25]) for _ in range(4)],
            "pre": "fill_n64" if integer else rng.choice(["fill_n64", "fill_n64", "fill_nvk", "fills64", "fillsvk"]),
            "also": [[j, rng.choice(["low", "high"]), rng.choice(["below", "above"])] for j in range(d) if rng.random() < 0.15],
            "again": rng.random() < 0.3, "far": rng.choice([None, None, -1, 1]), "picks": [rng.randrange(6) for _ in range(16)]}


def narrow_case(par):
    import math
    from . import nd_parts
    d, vk, ws, shifts, a = par["d"], par["vk"], par["ws"], par["shifts"], par["axis"]
    integer = np.dtype(vk).kind in "iu"
    edge = lambda j, k: k * ws[j] + shifts[j]                  # as the library computes its edges (doubles)
    lo = list(par["ks"])                                        # cells lo[j] .. hi[j]-1 exist on axis j
    hi = [k + m for k, m in zip(par["ks"], par["ms"])]
    mid = lambda j, k: (k + 0.5) * ws[j] + shifts[j]

    def beyond(j, k):
        """a number of type vk in cell k of axis j (k outside the cells that exist; integer types: in or beyond that cell)"""
        if not integer:
            return to_kind(mid(j, k), vk)
        return float(math.ceil(edge(j, k)) if k >= hi[j] else math.ceil(edge(j, k + 1)) - 1)
    # numbers well inside every cell (prefill) / numbers of type vk that fit into the cells
    if integer:
        pre_pools = [[mid(j, k) for k in range(lo[j], hi[j])] for j in range(d)]
        fit_pools = [[float(math.ceil(edge(j, hi[j] - 2)))] for j in range(d)]          # the integer n + 1
    else:
        pre_pools = fit_pools = [[to_kind(mid(j, k), vk) for k in range(lo[j], hi[j])] for j in range(d)]
    picks = list(par["picks"])

    def pick(j):
        picks.append(picks.pop(0))
        return fit_pools[j][picks[-1] % len(fit_pools[j])]
    tr = {"transformed": True} if par["klass"] in sum(TRANSFORMED.values(), []) else {}
    steps = []
    # 1. the bins: every cell of the ranges is hit once
    rows = [[pre_pools[j][i % len(pre_pools[j])] for j in range(d)] for i in range(max(len(p) for p in pre_pools))]
    enc = lambda r: [rs(x) for x in r]
    pvk = {"vk": vk} if par["pre"].endswith("vk") else {}
    if par["pre"].startswith("fill_n"):
        steps.append({"t": "fill_n", "rows": [enc(r) for r in rows], "ws": None, **pvk, **tr})
    else:
        steps += [{"t": "fill", "v": enc(r), "w": "1", **pvk, **tr} for r in rows]

    def put(batch, i, j, x):
        if not integer or np.iinfo(vk).min <= x <= np.iinfo(vk).max:     # (an unsigned type has nothing below zero)
            batch[i][j] = x

    def probe(side, near, n, pos, mode):
        e = edge(a, lo[a] if side == "low" else hi[a])
        batch = [[pick(j) for j in range(d)] for _ in range(n)]
        put(batch, pos, a, beside(e, vk, near == "above"))
        for j, sd, nr in par["also"]:                           # near-edge coordinates on other axes in the same row
            if j != a:
                put(batch, pos, j, beside(edge(j, lo[j] if sd == "low" else hi[j]), vk, nr == "above"))
        if mode in ("other_side", "other_axes") and n > 1:
            j = a if mode == "other_side" else (a + 1) % d
            dirn = (1 if side == "low" else -1) if mode == "other_side" else par["other_dir"]
            put(batch, (pos + 1) % n, j, beyond(j, hi[j] + par["gap"] if dirn > 0 else lo[j] - 1 - par["gap"]))
        wk = par["weights"]
        if par["probe"] == "fill" and n == 1:
            w = par["wvals"][0] if wk else 1
            steps.append({"t": "fill", "v": enc(batch[0]), "w": rs(w), "vk": vk, "vform": par["vform"],
                          "wk": ("float32" if wk == "float32" else "pyfloat") if wk else "pyint", **tr})
        else:
            steps.append({"t": "fill_n", "rows": [enc(r) for r in batch], "vk": vk, "layout": par["layout"],
                          "ws": [rs(par["wvals"][i % 4]) for i in range(n)] if wk else None, "wkind": wk, **tr})
        for r in batch:                                         # the cells needed now (exact comparisons of doubles)
            for j, v in enumerate(r):
                while v < edge(j, lo[j]):
                    lo[j] -= 1
                while v >= edge(j, hi[j]):
                    hi[j] += 1
    probe(par["side"], par["near"], par["n"], par["pos"], par["mode"])
    if par["far"] is not None:                                  # a double far on one side of that axis
        k = hi[a] + 3 if par["far"] > 0 else lo[a] - 4
        v = [pick(j) for j in range(d)]
        v[a] = mid(a, k)
        steps.append({"t": "fill", "v": enc(v), "w": "1", **tr})
        lo[a], hi[a] = min(lo[a], k), max(hi[a], k + 1)
    if par["again"]:                                            # the same probe at the outer edge as it is now
        probe(par["side"], par["near"], par["n"], par["pos"], "fits" if par["n"] > 1 else "single")
    axes = [gen1.fixed_json(w, 0, 0, shift=sh, adaptive=True, align=True) for w, sh in zip(ws, shifts)]
    tags = ["stream:nd_narrow_enumerated" if par.get("enumerated") else "stream:nd_narrow", "vk:" + vk,
            "probe:" + ("fill" if par["probe"] == "fill" and par["n"] == 1 else "fill_n"), f"near:{par['side']}_{par['near']}",
            "mode:" + par["mode"], f"probe_axis:{a}", "class:" + (par["klass"] or "default")]
    if par["layout"] and tags[2] == "probe:fill_n":
        tags.append("layout:" + par["layout"])
    if par["weights"]:
        tags.append("weights:" + par["weights"])
    src = {"axes": axes, "steps": steps, "ws": [rs(w) for w in ws], "share": False, "klass": par["klass"],
           "grid": [[rs(w), rs(sh)] for w, sh in zip(ws, shifts)], "tags": tags, "narrow": par}
    return nd_parts.c04_build(src)


def narrow_neighbours(par):
    """the same situation with the near-edge value on the other side of the edge / at the other end / on every axis /
    in the other narrow types / as a fill_n batch of two rows that fit"""
    out = []
    for side in ("low", "high"):
        for near in ("below", "above"):
            for a in range(par["d"]):
                for vk in ("float32", "float16") if np.dtype(par["vk"]).kind == "f" else (par["vk"],):
                    p = copy.deepcopy(par)
                    p.update(side=side, near=near, axis=a, vk=vk, probe="fill_n", n=2, pos=0, mode="fits", enumerated=False)
                    out.append(narrow_case(p))
    return out


def narrow_exhaustive(tier):
    """width x edge index (both signs) x end x side of the edge x dimension x axis position x type, two-row batches that fit
    (and fill points in the thorough tier)"""
    wide = tier == "thorough"
    for w in ([0.1, 0.3, 0.7] + ([0.2, 0.05] if wide else [])):
        for k in ([-19, -7, 7, 19] + ([-13, -3, 3, 13] if wide else [])):
            for side in ("low", "high"):
                for near in ("below", "above"):
                    for d in (2, 3):
                        for a in range(d):
                            for vk in (("float32", "float16") if wide else ("float32",)):
                                for n, probe in (((2, "fill_n"), (1, "fill")) if wide else ((2, "fill_n"),)):
                                    ks = [3 + j for j in range(d)]
                                    ks[a] = k if side == "low" else k - 2
                                    ms = [1] * d
                                    ms[a] = 2
                                    yield narrow_case({
                                        "d": d, "vk": vk, "klass": None, "ws": [w] * d, "shifts": [0.0] * d, "ks": ks, "ms": ms,
                                        "axis": a, "side": side, "near": near, "n": n, "pos": n - 1,
                                        "mode": "fits" if n > 1 else "single", "gap": 0, "other_dir": 1, "probe": probe,
                                        "vform": "array", "layout": "", "weights": None, "wvals": [1, 1, 1, 1], "pre": "fill_n64",
                                        "also": [], "again": False, "far": None, "picks": [0, 1, 2, 3], "enumerated": True})


class C04(Hist1Prop):
    ID = "C04"
    N_QUICK = 385        # stream:prefilled takes every fifth case, stream:nd_narrow every eighth, stream:refused every tenth; the older streams keep about 250 cases
    N_THOROUGH = 10000
    RULE = ("histories of fill / fill_n (empty batches, NaNs, weights) on adaptive fixed-width 1-D histograms started empty "
            "(bin_shift / align options) or pre-filled; widths {1,10,.5,.25,.1,.3,.7,1/3,2.5,1e-3,1e3,.05}; values = decimal "
            "literals, exact multiples of the width, one-ulp neighbours of multiples, far values, duplicates; a find_bin for "
            "every entered value at the end; plus the non-adaptive fixed_width / integer / pretty factories on the same data. "
            "stream:nd_narrow (one case in eight, and an enumerated sub-space): 2-D / 3-D (Histogram2D, HistogramND, polar / "
            "cylindrical / spherical with transformed=True) adaptive histograms that already have bins, then fill_n batches / "
            "fill points carried by float32 / float16 / int8..int32 arrays (C- / F-ordered, strided, read-only; float32 weights) "
            "in which one row holds, on one axis, the number of that type just below / just above an outer edge k*w+shift, the "
            "rest fitting or growing the other side / another axis. "
            "stream:prefilled (one case in five): histograms that exist WITH contents before the first fill, their bins described "
            "by FixedWidthBinning(min=, bin_width=, bin_count=) / (bin_times_min=, bin_shift=) / as_fixed_width() of numpy and "
            "static binnings / h1|h(data, 'fixed_width', adaptive=True[, align=False]), 1-3 dimensions, minima k*w in floating "
            "point, decimal literals and their one-ulp neighbours; values = the minimum, its neighbours, the multiple of the "
            "width beside it, the last edge, far values; the first edge must be the minimum asked for, earlier edges stay edges "
            "bit for bit, each cell holds its starting content plus what was entered inside its intervals, no spare bin. "
            "stream:refused (one case in ten, and an enumerated sub-space; c04_refused.py): 1-D / 2-D / 3-D adaptive histograms with "
            "contents, then calls the library refuses (fill_n with weights of another length / shape / bool / str type, NaN with "
            "dropna=False, a non-finite value, fill with weight 1e200, fill(inf), a point / rows with a coordinate too many, += of "
            "a histogram with other bins) whose values lie left / right / on both sides of the bins or inside, followed by accepted "
            "fills (inside, growing either side) and reads: after every step the arrays have the shape of the bins, the bins are "
            "consecutive cells of the grid, each cell holds exactly what ACCEPTED calls entered inside its intervals, no valid "
            "call is refused; bins grown (with zeros) by the refused call are tolerated. "
            "non-trivial = the bins grew at least twice; distinct = hash of the op list")
    FIELDS = {"bins", "freq", "err2", "under", "over", "total", "keep", "binning"}
    EXTRA_TRUST = ["grid edges and cell estimates are floating-point computations: the theorems hold for every FloatOps "
                   "instance with strictly increasing edges; the driver uses IEEE doubles and the oracle checks the "
                   "implementation's own edges"]

    def gen_case(self, rng, k, tier):
        if pre.ENABLE_PREFILLED and k % pre.PRE_EVERY == pre.PRE_EVERY - 1:
            return pre.gen(rng)
        if ENABLE_ND_NARROW and k % 8 == 7:
            # one case in eight (chosen by the case number, so that the older streams keep the cases they had)
            return narrow_case(narrow_params(rng))
        if ref.ENABLE_REFUSED and k % ref.REF_EVERY == ref.REF_EVERY - 2:
            return ref.gen(rng)
        if rng.random() < 0.3:
            from . import nd_parts
            return nd_parts.c04_gen(rng)
        w = rng.choice(WIDTHS)
        kw = {"align": True, "shift": 0.0}
        if rng.random() < 0.25:
            kw["align"] = False
        if rng.random() < 0.3:
            kw["shift"] = rng.choice([0.5, 0.25, 0.05]) * w
        b = gen1.fixed_json(w, 0, 0, shift=kw["shift"], adaptive=True, align=kw["align"])
        nsteps = rng.randint(1, 8)
        steps = []
        seen = []
        import math

        def on_edge():
            """a value exactly on (or one ulp beside) the current outer edges of the bins grown so far"""
            sh = kw["shift"] if kw["align"] else 0.0
            hi = (math.floor((max(seen) - sh) / w) + 1) * w + sh
            lo = math.floor((min(seen) - sh) / w) * w + sh
            x = rng.choice([hi, hi, lo, hi + w, lo - w])
            return rng.choice([x, x, gen1.nxt(x, True), gen1.nxt(x, False)])

        if not kw["align"] and rng.random() < 0.6:
            # an unaligned grid is anchored at its first value: a decimal fraction of the width on either side of 0 makes
            # `value - times_min * width` round, so the first edge may land one ulp beside the value
            v = rng.choice([-1, -1, 1]) * rng.choice([0.1, 0.3, 0.7, 0.9, 0.05, 1 / 3, 0.6]) * w
            seen.append(v)
            if rng.random() < 0.6:
                steps.append({"t": "fill", "v": rs(v), "w": "1", "wk": "pyint"})
            else:
                steps.append({"t": "fill_n", "vs": gen1.enc_vals([v]), "ws": None})
        for _ in range(nsteps):
            if rng.random() < 0.5:
                v = on_edge() if seen and rng.random() < 0.3 else values(rng, w, 1)[0]
                seen.append(v)
                wt = rng.choice([1, 1, 2, 0.5])
                steps.append({"t": "fill", "v": rs(v), "w": rs(wt), "wk": "pyint" if isinstance(wt, int) else "pyfloat"})
            else:
                n = rng.choice([0, 1, 2, 3, 6])
                vs = values(rng, w, n)
                if seen and vs and rng.random() < 0.3:
                    vs[rng.randrange(len(vs))] = on_edge()
                seen += vs
                if rng.random() < 0.15:
                    vs.insert(rng.randint(0, len(vs)), None)
                ws = None
                if rng.random() < 0.3:
                    ws = [rs(rng.choice([1, 2, 0.5, 0.25])) for _ in vs]
                steps.append({"t": "fill_n", "vs": gen1.enc_vals(vs), "ws": ws})
        src = {"binning": b, "steps": steps, "w": rs(w)}
        if rng.random() < 0.2:
            # the same history with float32 data (numpy scalars for fill, float32 arrays for fill_n): every value is first
            # rounded to float32, so that it is the same number on both sides; physt must locate it with double precision
            vk = "float32"
            for s in steps:
                if s["t"] == "fill":
                    s["v"] = rs(float(np.float32(float(Fraction(s["v"])))))
                else:
                    s["vs"] = gen1.enc_vals([None if v is None else float(np.float32(float(Fraction(v)))) for v in s["vs"]])
                s["vk"] = vk
            src["vk"] = vk
        return self.build(src)

    @staticmethod
    def build(src):
        ops = [{"op": "empty", "out": 0, "binning": src["binning"]}]
        allv = []
        for s in src["steps"]:
            if s["t"] == "fill":
                ops.append({"op": "fill", "h": 0, "v": s["v"], "w": s["w"], "wk": s["wk"]})
                allv.append(s["v"])
            else:
                ops.append({"op": "fill_n", "h": 0, "vs": s["vs"], "ws": s["ws"], "wkind": "float64"})
                allv += [v for v in s["vs"] if v is not None]
            if s.get("vk"):
                ops[-1]["vk"] = s["vk"]
        for v in allv:
            ops.append({"op": "find_bin", "h": 0, "v": v})
            if src.get("vk"):
                ops[-1]["vk"] = src["vk"]
        return {"kind": "hist1", "fuel": 64, "ops": ops, "tags": [], "src": src}

    # ---- stream:prefilled (c04_prefilled.py): its own start operation on the implementation, its own model translation
    def run_impl(self, case):
        if pre.is_pre(case):
            return pre.run_impl(case)
        if ref.is_ref(case):
            return ref.run_impl(case)
        return super().run_impl(case)

    def model_case(self, case, io):
        if pre.is_pre(case):
            return pre.model_case(case)
        if ref.is_ref(case):
            return ref.model_case(case)
        if case.get("kind") == "histn" and case["src"].get("klass") not in (None, "HistogramND"):
            return None         # the driver has no transformed classes in its op language: oracle only
        return case

    def diff(self, case, model_ok, io):
        if pre.is_pre(case):
            model_ok = pre.model_outs(case, model_ok)
        return super().diff(case, model_ok, io)

    def exhaustive_cases(self, tier):
        """stream:prefilled, enumerated (every minimum k*w of a window) and stream:nd_narrow, enumerated"""
        return ((pre.small_scope(tier) if pre.ENABLE_PREFILLED else []) + (list(narrow_exhaustive(tier)) if ENABLE_ND_NARROW else [])
                + (ref.exhaustive(tier) if ref.ENABLE_REFUSED else []))

    def neighbours(self, case):
        if pre.is_pre(case):
            return list(pre.neighbours(case))
        if ref.is_ref(case):
            return list(ref.neighbours(case))
        if case.get("kind") == "histn" and case["src"].get("narrow"):
            return narrow_neighbours(case["src"]["narrow"])
        return []


    def shrink_candidates(self, case):
        if pre.is_pre(case):
            yield from pre.shrink(case)
            return
        if ref.is_ref(case):
            yield from ref.shrink(case)
            return
        if case.get("kind") == "histn":
            from . import nd_parts
            yield from nd_parts.c04_shrink(case)
            return
        src = case["src"]
        for i in range(len(src["steps"]) - 1, -1, -1):
            s2 = copy.deepcopy(src)
            del s2["steps"][i]
            yield self.build(s2)
        for i, st in enumerate(src["steps"]):
            if st["t"] == "fill_n":
                for j in range(len(st["vs"])):
                    s2 = copy.deepcopy(src)
                    del s2["steps"][i]["vs"][j]
                    if s2["steps"][i]["ws"] is not None:
                        del s2["steps"][i]["ws"][j]
                    yield self.build(s2)

    def oracle(self, case, io):
        if pre.is_pre(case):
            return pre.oracle(case, io)
        if ref.is_ref(case):
            return ref.oracle(case, io)
        if case.get("kind") == "histn":
            from . import nd_parts
            return nd_parts.c04_oracle(case, io)
        outs, ops = io["outs"], case["ops"]
        fails = []
        if any(o["ret"] == "REFUSED" for o in outs):
            return ["refused_valid: a valid call was refused: " + "; ".join(io["log"][:2])]
        entered = []   # (value, weight)
        prev = None
        w = float(Fraction(case["src"]["w"]))
        for k, op in enumerate(ops):
            snap = outs[k]["regs"][0]
            if op["op"] == "fill":
                if op["v"] is not None:
                    entered.append((Fraction(op["v"]), Fraction(op["w"])))
            elif op["op"] == "fill_n":
                for j, v in enumerate(op["vs"]):
                    if v is not None:
                        entered.append((Fraction(v), Fraction(op["ws"][j]) if op["ws"] is not None else Fraction(1)))
            elif op["op"] == "find_bin":
                r = outs[k]["ret"]
                if not (isinstance(r, int) and 0 <= r < len(snap["bins"])):
                    fails.append(f"lost_value: find_bin({op['v']}) = {r}: the value entered is in no bin")
                continue
            bins = [(Fraction(l), Fraction(r)) for l, r in snap["bins"]]
            tot = sum((x for _, x in entered), Fraction(0))
            if Fraction(snap["total"]) != tot:
                fails.append(f"total: total is {snap['total']}, weight entered is {tot}")
            if snap["under"] != "0" or snap["over"] != "0":
                fails.append(f"missed_nonzero: underflow/overflow = {snap['under']}/{snap['over']}")
            # contiguous, on the grid: every edge = (tmin + i) * width + shift as the library computes it
            m = snap["binning"]
            if bins:
                sh = float(Fraction(m["shift"]))
                exp = [((m["tmin"] + i) * w + sh, (m["tmin"] + i + 1) * w + sh) for i in range(len(bins))]
                if [(Fraction(a), Fraction(b)) for a, b in exp] != bins:
                    fails.append("off_grid: the bins are not origin + k*width")
                if not all(a < b for a, b in bins):
                    fails.append("not_rising: bins are not rising")
                # exact span: the lowest and the highest bin are needed
                vs = [v for v, _ in entered]
                if vs and not (bins[0][0] <= min(vs) < bins[0][1]):
                    fails.append("span_low: the first bin does not contain the smallest value entered")
                if vs and not (bins[-1][0] <= max(vs) < bins[-1][1]):
                    fails.append("span_high: the last bin does not contain the largest value entered")
                # equals the fixed-bin histogram of the same data over the final bins
                for i, (l, r) in enumerate(bins):
                    c = sum((x for v, x in entered if l <= v < r), Fraction(0))
                    if Fraction(snap["freq"][i]) != c:
                        fails.append(f"content: bin {i} [{float(l)},{float(r)}) holds {snap['freq'][i]}, data give {c}")
                        break
                    e2 = sum((x * x for v, x in entered if l <= v < r), Fraction(0))
                    if Fraction(snap["err2"][i]) != e2:
                        fails.append(f"errors2: bin {i} holds {snap['err2'][i]}, data give {e2}")
                        break
            # contents recorded earlier stay attached to the same interval
            if prev is not None:
                old = {tuple(b): (f, e) for b, f, e in zip(prev["bins"], prev["freq"], prev["err2"])}
                new = {tuple(b): (f, e) for b, f, e in zip(snap["bins"], snap["freq"], snap["err2"])}
                for b, (f, e) in old.items():
                    if b not in new:
                        if Fraction(f) != 0:
                            fails.append(f"detached: bin {b} with content {f} disappeared")
                    elif Fraction(new[b][0]) < Fraction(f):
                        fails.append(f"detached: content of bin {b} decreased from {f} to {new[b][0]}")
            prev = snap
        return fails[:6]

    def nontrivial(self, case, io):
        if pre.is_pre(case):
            return pre.nontrivial(case, io)
        if ref.is_ref(case):
            return ref.nontrivial(case, io)
        if case.get("kind") == "histn":
            return len({tuple(o["regs"][0]["shape"]) for o in io["outs"] if o["regs"] and o["regs"][0]}) >= 3
        sizes = {len(o["regs"][0]["bins"]) for o in io["outs"] if o["regs"] and o["regs"][0]}
        return len(sizes) >= 3

    def tags(self, case, io):
        t = super().tags(case, io)
        if case.get("kind") == "histn":
            return t
        t.append("width:" + str(float(Fraction(case["src"]["w"]))))
        t.append("bins_final:" + str(min(len(io["outs"][-1]["regs"][0]["bins"]) // 100 * 100, 2000)))
        return t


PROP = C04()

"""C03 — incremental filling (fill / fill_n) equals batch construction (1-D part; ND part in c03 via implnd)."""
from __future__ import annotations

from fractions import Fraction

from .. import gen1
from ..core import rs
from .base1 import Hist1Prop


def strip_us(r):
    return {k: v for k, v in r.items() if not k.startswith("_")} if isinstance(r, dict) else r


def partition(rng, items):
    """random partition into batches, with empty batches sprinkled in"""
    out, cur = [], []
    for it in items:
        cur.append(it)
        if rng.random() < 0.35:
            out.append(cur); cur = []
            if rng.random() < 0.2:
                out.append([])
    out.append(cur)
    if rng.random() < 0.3:
        out.insert(0, [])
    return out


class C03(Hist1Prop):
    ID = "C03"
    N_QUICK = 300
    N_THOROUGH = 8000
    RULE = ("one data set entered three ways into the same rising bins (regular / irregular / gapped / fixed-width objects): "
            "h1() at once, fill() one value at a time in a random permutation (each preceded by find_bin on the same value), "
            "fill_n() over a random partition with empty batches and NaNs; weights absent / int / dyadic; keep_missed on/off; in "
            "half of the cases also a histogram constructed from a first chunk (also an empty one) and completed by fill / fill_n; "
            "in a third of the gap-free cases an in-place merge_bins (axis given or not) in the middle of both incremental paths, "
            "compared with the merged construction. "
            "non-trivial = some value inside a bin and some outside or on an edge; distinct = hash of the op list")
    FIELDS = {"bins", "freq", "err2", "under", "over", "total", "keep"}

    def fields_for(self, case):
        if "tiny_gap" in case.get("tags", []):
            return self.FIELDS - {"under", "over"}
        return self.FIELDS

    def gen_case(self, rng, k, tier):
        if rng.random() < 0.35:
            from . import nd_parts
            return nd_parts.c03_gen(rng)
        tags = []
        if rng.random() < 0.2:
            w = rng.choice([1.0, 0.5, 0.25, 0.1])
            tmin, cnt = rng.randint(-4, 4), rng.randint(1, 5)
            b = gen1.fixed_json(w, tmin, cnt)
            pairs = [[(tmin + i) * w, (tmin + i + 1) * w] for i in range(cnt)]
            tags.append("fixed_width_obj")
        else:
            pairs, t = gen1.rising_bins(rng)
            tags += [x for x in ("gapped", "tiny_gap") if t[x]]
            b = gen1.binning_json(pairs, rng=rng, form=rng.choice(["pairs", "static_obj"]))
        n = rng.choice([1, 2, 3, 5, 8, 12, 20])
        vals = gen1.values_for(rng, pairs, n, nan_share=rng.choice([0, 0.1, 0.25]))
        ws, wk = gen1.weights_for(rng, n, kinds=["none", "none", "int", "dyadic", "equal", "zeros"])
        keep = rng.random() < 0.7
        order = list(range(n)); rng.shuffle(order)
        order2 = list(range(n)); rng.shuffle(order2)
        src = {"binning": b, "vals": gen1.enc_vals(vals), "ws": None if ws is None else [rs(w) for w in ws],
               "wk": wk, "keep": keep, "order": order, "batches": partition(rng, order2),
               "containers": [rng.choice([None, "list"]) for _ in range(3 * n + 4)]}
        # a histogram that starts as the construction from a first chunk (of any size, also empty) and receives the rest by
        # fill / fill_n: "started empty or pre-filled" entry paths must agree as well
        if rng.random() < 0.5:
            src["pre"] = rng.choice([0, 0, 1, n // 2, n])
        # an in-place merge_bins in the middle of the two incremental paths (bins change under the same object): the later
        # fill / find_bin / fill_n calls must use the bins as they are now; compared with the merged construction
        if "gapped" not in tags and "tiny_gap" not in tags and len(pairs) >= 2 and rng.random() < 0.3:
            src["merge"] = {"amount": rng.choice([2, 2, 3]), "at": rng.randint(0, n), "axis_none": rng.random() < 0.6}
        return self.build(src, tags)

    @staticmethod
    def build(src, tags):
        b, vals, ws, wk, keep = src["binning"], src["vals"], src["ws"], src["wk"], src["keep"]
        ops = [{"op": "construct", "out": 0, "binning": b, "data": vals, "weights": ws, "wkind": wk, "keep": keep}]
        ops.append({"op": "empty", "out": 1, "binning": b, "keep": keep})
        mg = src.get("merge")
        mop = None if mg is None else {"op": "merge", "amount": mg["amount"], "inplace": True, "axis0": not mg.get("axis_none", False)}
        for pos, i in enumerate(src["order"]):
            if mop is not None and pos == mg["at"]:
                ops.append(dict(mop, h=1))
            v = vals[i]
            if v is not None:
                ops.append({"op": "find_bin", "h": 1, "v": v})
            w = "1" if ws is None else ws[i]
            wkk = "pyint" if (ws is None or wk == "int64") else "pyfloat"
            ops.append({"op": "fill", "h": 1, "v": v, "w": w, "wk": wkk, "default_w": ws is None})
        if mop is not None and mg["at"] >= len(src["order"]):
            ops.append(dict(mop, h=1))
        ops.append({"op": "empty", "out": 2, "binning": b, "keep": keep})
        nb = len(src["batches"])
        for j, batch in enumerate(src["batches"]):
            if mop is not None and j == min(mg["at"], nb - 1):
                ops.append(dict(mop, h=2))
            ops.append({"op": "fill_n", "h": 2, "vs": [vals[i] for i in batch],
                        "ws": None if ws is None else [ws[i] for i in batch], "wkind": wk,
                        "container": src["containers"][j % len(src["containers"])]})
        tags = list(tags)
        if "pre" in src:
            p = src["pre"]
            sub = lambda idx: ([vals[i] for i in idx], None if ws is None else [ws[i] for i in idx])
            v, w = sub(range(p))
            tags.append(f"prefilled:{'empty' if p == 0 else 'some'}")
            for reg in (3, 4):
                ops.append({"op": "construct", "out": reg, "binning": b, "data": v, "weights": w, "wkind": wk, "keep": keep})
            for i in range(p, len(vals)):
                wi = "1" if ws is None else ws[i]
                ops.append({"op": "fill", "h": 3, "v": vals[i], "w": wi,
                            "wk": "pyint" if (ws is None or wk == "int64") else "pyfloat", "default_w": ws is None})
            v, w = sub(range(p, len(vals)))
            ops.append({"op": "fill_n", "h": 4, "vs": v, "ws": w, "wkind": wk})
        if mop is not None:
            tags.append("merge_in_history")
            ops.append({"op": "merge", "h": 0, "amount": mg["amount"], "out": 5, "axis0": not mg.get("axis_none", False)})
        return {"kind": "hist1", "ops": ops, "tags": tags, "src": src}

    def shrink_candidates(self, case):
        if case.get("kind") == "histn":
            from . import nd_parts
            yield from nd_parts.c03_shrink(case)
            return
        """remove one data point from all three paths"""
        import copy
        src = case["src"]
        n = len(src["vals"])
        for i in range(n):
            s2 = copy.deepcopy(src)
            del s2["vals"][i]
            if s2["ws"] is not None:
                del s2["ws"][i]
            ren = lambda j: j if j < i else j - 1
            s2["order"] = [ren(j) for j in s2["order"] if j != i]
            s2["batches"] = [[ren(j) for j in bt if j != i] for bt in s2["batches"]]
            if "pre" in s2:
                s2["pre"] = min(s2["pre"], n - 1) if i >= s2["pre"] else s2["pre"] - 1
            if "merge" in s2:
                s2["merge"]["at"] = min(s2["merge"]["at"], n - 1)
            yield self.build(s2, [t for t in case.get("tags", []) if not t.startswith(("prefilled", "merge_in"))])

    def oracle(self, case, io):
        if case.get("kind") == "histn":
            from . import nd_parts
            return nd_parts.c03_oracle(case, io)
        outs = io["outs"]
        ops = case["ops"]
        fails = []
        if any(o["ret"] == "REFUSED" for o in outs):
            return ["refused_valid: a valid call was refused: " + "; ".join(io["log"][:2])]
        final = outs[-1]["regs"]
        a, b, c = final[0], final[1], final[2]
        gapped = "gapped" in case.get("tags", [])
        paths = [("fill", b, a), ("fill_n", c, a)]
        if case["src"].get("merge") is not None:
            m = final[5]       # the construction, merged: what the two incremental paths with a merge in the middle must give
            paths = [("fill (in-place merge_bins in between)", b, m), ("fill_n (in-place merge_bins in between)", c, m)]
            for name, x, ref in paths:
                if x["bins"] != ref["bins"]:
                    fails.append(f"paths_bins: {name} path has bins {x['bins']}, the merged construction {ref['bins']}")
        if "pre" in case["src"]:
            paths += [("construction from a first chunk + fill", final[3], a), ("construction from a first chunk + fill_n", final[4], a)]
        for name, x, a in paths:
            for f in ("freq", "err2"):
                if [Fraction(v) for v in x[f]] != [Fraction(v) for v in a[f]]:
                    fails.append(f"paths_{f}: {name} path gives {x[f]}, construction gives {a[f]}")
            for f in ("under", "over"):
                if gapped and (x[f] is None or a[f] is None):
                    continue
                if (x[f] is None) != (a[f] is None) or (x[f] is not None and Fraction(x[f]) != Fraction(a[f])):
                    fails.append(f"paths_{f}: {name} path gives {x[f]}, construction gives {a[f]}")
        # fill returns what find_bin returned, and find_bin changes nothing
        keep = ops[0].get("keep", True)
        for k, op in enumerate(ops):
            if op["op"] == "find_bin":
                if strip_us(outs[k]["regs"][1]) != strip_us(outs[k - 1]["regs"][1]):
                    fails.append("find_bin_mutates: find_bin changed the histogram")
                if outs[k + 1]["ret"] != outs[k]["ret"]:
                    fails.append(f"fill_ret: fill returned {outs[k+1]['ret']} but find_bin said {outs[k]['ret']} for {op['v']}")
                # the index is the bin that contains the value
                bins = [(Fraction(l), Fraction(r)) for l, r in outs[k]["regs"][1]["bins"]]
                v = Fraction(op["v"])
                inside = [i for i, (l, r) in enumerate(bins) if l <= v and (v < r or (i == len(bins) - 1 and v == r))]
                exp = inside[0] if inside else (-1 if v < bins[0][0] else ("over" if v > bins[-1][1] else None))
                if outs[k]["ret"] != exp:
                    fails.append(f"find_bin_index: find_bin({op['v']}) = {outs[k]['ret']}, expected {exp}")
                if not keep and not inside:
                    before, after = outs[k]["regs"][1], outs[k + 1]["regs"][1]
                    if {x: before[x] for x in before if x != "dtype" and x != "_freq_dtype" and x != "_err2_dtype"} != \
                       {x: after[x] for x in after if x != "dtype" and x != "_freq_dtype" and x != "_err2_dtype"}:
                        fails.append("keep_off_changed: a value outside the bins changed a histogram that does not track missed values")
            if op["op"] == "fill" and op["v"] is None:
                if outs[k]["regs"][1] != outs[k - 1]["regs"][1] and \
                   {x: y for x, y in outs[k]["regs"][1].items() if "dtype" not in x} != {x: y for x, y in outs[k - 1]["regs"][1].items() if "dtype" not in x}:
                    fails.append("fill_nan: fill(NaN) changed the histogram")
        if not keep:
            for x in (b, c):
                if x["under"] is not None or x["over"] is not None:
                    fails.append("keep_off: under/overflow reported although keep_missed=False")
        return fails

    def nontrivial(self, case, io):
        outs = io["outs"]
        try:
            return any(Fraction(x) != 0 for x in outs[0]["regs"][0]["freq"])
        except Exception:
            return False


PROP = C03()

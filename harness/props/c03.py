"""C03 — incremental filling (fill / fill_n) equals batch construction (1-D part; ND part in c03 via implnd)."""
from __future__ import annotations

from fractions import Fraction

from .. import gen1
from ..core import rs
from .base1 import Hist1Prop


def strip_us(r):
    return {k: v for k, v in r.items() if not k.startswith("_")} if isinstance(r, dict) else r


def partition(rng, items):
    """random partition into batches, with empty batches sprinkled in"""
    out, cur = [], []
    for it in items:
        cur.append(it)
        if rng.random() < 0.35:
            out.append(cur); cur = []
            if rng.random() < 0.2:
                out.append([])
    out.append(cur)
    if rng.random() < 0.3:
        out.insert(0, [])
    return out


# ------------------------------------------------------------------------------------------ wide weights
# Every WIDE_EVERY-th case index comes from the "wide weights" streams (the other indices keep their cases bit for bit).
WIDE_EVERY, WIDE_SLOT = 8, 3
# ND histograms, FLOAT weights of widely different magnitudes, some rows outside every cell: on the unchanged library
# h(...) / fill_n report  missed = weights.sum() - frequencies.sum()  (two rounded sums over ALL rows), so the weight of a
# missed row next to a much heavier cell is lost (h([[.5,.5],[5,.5]], 2x2 unit bins, weights=[2**60, 1.0]).missed == 0.0,
# one fill at a time gives 1.0).  Reported, not generated (set True to see it).
ENABLE_ND_WIDE_FLOAT_MISSED = False

WIDE_PROFILES = ["descending", "descending", "descending", "ascending", "random", "alternating", "alternating",
                 "one_huge", "huge_outside", "tiny_outside"]


def _v2(f: Fraction) -> int:
    """exponent of the lowest set bit of a non-zero dyadic rational"""
    n, d = abs(f.numerator), f.denominator
    assert n and d & (d - 1) == 0, f
    return (n & -n).bit_length() - 1 - (d.bit_length() - 1)


def summable(ws, integer=False) -> bool:
    """every partial sum of the numbers (in any order, any grouping) and of their squares is an exactly representable
    double (and inside int64 for integer weights): all are multiples of 2^a and the absolute values add up to < 2^(a+53)"""
    ws = [Fraction(w) for w in ws if Fraction(w) != 0]
    if not ws:
        return True
    for xs in (ws, [w * w for w in ws]):
        a = min(_v2(x) for x in xs)
        tot = sum(abs(x) for x in xs)
        if tot >= Fraction(2) ** (a + 53) or (integer and tot >= 2 ** 63):
            return False
        if any(abs(x) >= Fraction(2) ** 1000 or abs(x) < Fraction(1, 2 ** 1000) for x in xs):
            return False
    return True


def region1(pairs, v):
    """where a value goes in 1-D bins given as Fractions: -1 underflow, i bin, i + 1/2 the gap after bin i, n overflow"""
    if v is None:
        return None
    n = len(pairs)
    if v < pairs[0][0]:
        return -1
    if v > pairs[-1][1]:
        return n
    for i, (l, r) in enumerate(pairs):
        if l <= v and (v < r or (i == n - 1 and v == r)):
            return i
    for i in range(n - 1):
        if pairs[i][1] <= v < pairs[i + 1][0]:
            return Fraction(2 * i + 1, 2)
    raise AssertionError((pairs, v))


def wide_weights(rng, regions, kind, profile, signed, outside=()):
    """one weight per entry; `regions[i]` is the key of the place the entry goes to (None = NaN entry, counted nowhere).
    Every place gets a magnitude (a power of two) of its own, the magnitudes of different places differ by many orders;
    within one place the weights are small multiples of that power of two, so every sum of a subset of them and of their
    squares is exact in double (int64) arithmetic whatever the order.  signed: negative weights too, but the running total
    of every place (in entry order) never goes below zero (a negative bin content is legitimately refused at construction)."""
    # the places in the order of the data values (1-D: numbers; ND: index tuples, then "missed")
    present = sorted({r for r in regions if r is not None}, key=lambda r: (1, ()) if isinstance(r, str) else (0, r))
    if kind == "int":
        lo, hi, near = 0, 27, 3
    elif rng.random() < 0.15:
        lo, hi, near = -300, 300, 40
    else:
        lo, hi, near = -60, 60, 8
    big = lambda: rng.randint(hi - near, hi)
    small = lambda: rng.randint(lo, lo + near)
    m = len(present)
    if m == 0:
        ex = []
    elif profile in ("descending", "ascending"):
        ex = sorted([rng.randint(lo, hi) for _ in range(m)], reverse=True)
        if m >= 2:
            ex[0], ex[-1] = big(), small()
        if profile == "ascending":
            ex.reverse()
    elif profile == "alternating":
        first = rng.random() < 0.7
        ex = [big() if (j % 2 == 0) == first else small() for j in range(m)]
    elif profile == "one_huge":
        t = small()
        ex = [t] * m
        ex[rng.randrange(m) if rng.random() < 0.5 else 0] = big()
    elif profile in ("huge_outside", "tiny_outside"):
        out_e, in_e = (big, small) if profile == "huge_outside" else (small, big)
        ex = [out_e() if r in outside else in_e() for r in present]
    else:
        ex = [rng.randint(lo, hi) for _ in range(m)]
    exp_of = dict(zip(present, ex))
    running = {}
    ws = []
    for r in regions:
        e = exp_of.get(r, 0)
        mant = rng.choice([1, 2, 3, 4]) if kind == "int" else rng.choice([1, 1, 2, 3, 5, 6, 7]) * 2 ** rng.choice([0, 0, 0, 1, 2, 5])
        w = Fraction(mant) * Fraction(2) ** e
        if signed and r is not None and rng.random() < 0.4 and running.get(r, 0) - w >= 0:
            w = -w
        if r is not None:
            running[r] = running.get(r, 0) + w
        ws.append(w)
    for r in present:
        assert summable([w for w, q in zip(ws, regions) if q == r], integer=(kind == "int")), (r, ws)
    return ws


def prefixes_nonnegative(regions, ws) -> bool:
    running = {}
    for r, w in zip(regions, ws):
        if r is None:
            continue
        running[r] = running.get(r, 0) + Fraction(w)
        if running[r] < 0:
            return False
    return True


class C03(Hist1Prop):
    ID = "C03"
    N_QUICK = 300
    N_THOROUGH = 8000
    RULE = ("one data set entered three ways into the same rising bins (regular / irregular / gapped / fixed-width objects): "
            "h1() at once, fill() one value at a time in a random permutation (each preceded by find_bin on the same value), "
            "fill_n() over a random partition with empty batches and NaNs; weights absent / int / dyadic; keep_missed on/off; in "
            "half of the cases also a histogram constructed from a first chunk (also an empty one) and completed by fill / fill_n; "
            "in a third of the gap-free cases an in-place merge_bins (axis given or not) in the middle of both incremental paths, "
            "compared with the merged construction. "
            "every 8th case (stream:wide_weights, 1-D and ND): float (powers of two times small integers, 2^-300..2^300) or int64 "
            "(up to 2^29) weights whose magnitudes differ by many orders between bins / underflow / overflow / cells while every "
            "per-bin sum of weights and of squares is exactly representable (profiles descending / ascending / alternating / random "
            "/ one huge / huge or tiny outside; signed with non-negative running totals): all paths must equal the exact rational "
            "sums per bin (ND float: no rows outside the bins, see ENABLE_ND_WIDE_FLOAT_MISSED). "
            "two of every 8 cases run on the library only (kind c03x, no model): stream:caller_arrays -- points / batches / weights "
            "as float64 numpy arrays (C / F / strided / read-only) whose objects are used again (find_bin(p) then fill(p), fill "
            "loop over row views, the same array into a second histogram, fill_n at once / in slices / twice, the facade) for "
            "Histogram1D, HistogramND and the seven transformed classes: no array handed in is modified, every call equals the same "
            "call on fresh lists, all paths agree; stream:keep_off_routes -- keep_missed (mostly False) through h / h2 / h3 / h1 / "
            "the constructors with rows outside explicit bins: exact sums per bin on every path, a histogram reporting "
            "keep_missed False reports nothing missed and is unchanged by an outside value, one reporting True the exact weight "
            "outside (see ENABLE_KEEPOFF_FCF_ROUTES). "
            "non-trivial = some value inside a bin and some outside or on an edge; distinct = hash of the op list")
    FIELDS = {"bins", "freq", "err2", "under", "over", "total", "keep"}

    def fields_for(self, case):
        f = self.FIELDS
        if (case.get("src", {}).get("wide") or {}).get("kind") == "float":
            # `total` adds the bin contents ACROSS bins in floating point: with contents of widely different magnitudes that
            # sum is rounded (the exact model's is not), and the property is about the contents, not about their total
            f = f - {"total"}
        if "tiny_gap" in case.get("tags", []):
            return f - {"under", "over"}
        return f

    def gen_case(self, rng, k, tier):
        if k % WIDE_EVERY == WIDE_SLOT:
            return self.gen_wide(rng)
        if rng.random() < 0.35:
            from . import nd_parts
            return nd_parts.c03_gen(rng)
        tags = []
        if rng.random() < 0.2:
            w = rng.choice([1.0, 0.5, 0.25, 0.1])
            tmin, cnt = rng.randint(-4, 4), rng.randint(1, 5)
            b = gen1.fixed_json(w, tmin, cnt)
            pairs = [[(tmin + i) * w, (tmin + i + 1) * w] for i in range(cnt)]
            tags.append("fixed_width_obj")
        else:
            pairs, t = gen1.rising_bins(rng)
            tags += [x for x in ("gapped", "tiny_gap") if t[x]]
            b = gen1.binning_json(pairs, rng=rng, form=rng.choice(["pairs", "static_obj"]))
        n = rng.choice([1, 2, 3, 5, 8, 12, 20])
        vals = gen1.values_for(rng, pairs, n, nan_share=rng.choice([0, 0.1, 0.25]))
        ws, wk = gen1.weights_for(rng, n, kinds=["none", "none", "int", "dyadic", "equal", "zeros"])
        keep = rng.random() < 0.7
        order = list(range(n)); rng.shuffle(order)
        order2 = list(range(n)); rng.shuffle(order2)
        src = {"binning": b, "vals": gen1.enc_vals(vals), "ws": None if ws is None else [rs(w) for w in ws],
               "wk": wk, "keep": keep, "order": order, "batches": partition(rng, order2),
               "containers": [rng.choice([None, "list"]) for _ in range(3 * n + 4)]}
        # a histogram that starts as the construction from a first chunk (of any size, also empty) and receives the rest by
        # fill / fill_n: "started empty or pre-filled" entry paths must agree as well
        if rng.random() < 0.5:
            src["pre"] = rng.choice([0, 0, 1, n // 2, n])
        # an in-place merge_bins in the middle of the two incremental paths (bins change under the same object): the later
        # fill / find_bin / fill_n calls must use the bins as they are now; compared with the merged construction
        if "gapped" not in tags and "tiny_gap" not in tags and len(pairs) >= 2 and rng.random() < 0.3:
            src["merge"] = {"amount": rng.choice([2, 2, 3]), "at": rng.randint(0, n), "axis_none": rng.random() < 0.6}
        return self.build(src, tags)

    # ---- weights of widely different magnitudes whose per-bin sums are still exact (1-D and ND)
    def gen_wide(self, rng, geometry=None, profile=None, kind=None, nd=None):
        kind = kind or rng.choice(["float", "float", "float", "int"])
        profile = profile or rng.choice(WIDE_PROFILES)
        signed = rng.random() < 0.3
        if nd is None:
            nd = rng.random() < 0.3
        if nd:
            return self.gen_wide_nd(rng, kind, profile, signed, geometry)
        if geometry is None:
            pairs, t = gen1.rising_bins(rng)
            tags = [x for x in ("gapped", "tiny_gap") if t[x]]
            b = gen1.binning_json(pairs, rng=rng, form=rng.choice(["pairs", "static_obj"]))
            n = rng.choice([2, 3, 5, 8, 12, 20])
            vals = gen1.values_for(rng, pairs, n, nan_share=rng.choice([0, 0, 0.1]))
            lo, hi = pairs[0][0], pairs[-1][1]
            if profile in ("huge_outside", "tiny_outside"):
                # something below, something above and something inside the bins
                vals[:0] = [lo - rng.choice([0.25, 1.0]), hi + rng.choice([0.25, 1.0]), lo + (pairs[0][1] - lo) * 0.5]
                rng.shuffle(vals)
            elif len(vals) >= 2 and rng.random() < 0.6:
                # at least two different bins (or a bin and the underflow) are hit
                vals[0] = pairs[0][0] + (pairs[0][1] - pairs[0][0]) * 0.5
                vals[1] = pairs[-1][0] if len(pairs) > 1 else lo - 0.25
                rng.shuffle(vals)
            vals = gen1.enc_vals(vals)
        else:
            b, vals, tags = geometry
        n = len(vals)
        fp = [(Fraction(l), Fraction(r)) for l, r in b["bins"]]
        regions = [region1(fp, None if v is None else Fraction(v)) for v in vals]
        ws = wide_weights(rng, regions, kind, profile, signed, outside=(-1, len(fp)))
        order = list(range(n)); rng.shuffle(order)
        order2 = list(range(n)); rng.shuffle(order2)
        if rng.random() < 0.25:
            order2.sort(key=lambda i: (vals[i] is None, Fraction(vals[i] or 0)), reverse=rng.random() < 0.5)    # batches in value order
        batches = [order2] if rng.random() < 0.3 else partition(rng, order2)
        src = {"binning": b, "vals": vals, "ws": [rs(w) for w in ws], "wk": "float64" if kind == "float" else "int64",
               "keep": rng.random() < 0.7, "order": order, "batches": batches,
               "containers": [rng.choice([None, "list"]) for _ in range(3 * n + 4)],
               "wide": {"kind": kind, "profile": profile, "signed": signed}}
        if rng.random() < 0.5:
            src["pre"] = rng.choice([0, 1, n // 2, n])
        return self.build(src, list(tags) + self.wide_tags(src))

    @staticmethod
    def wide_tags(src):
        w = src["wide"]
        return ["stream:wide_weights", f"wide:{w['kind']}", f"wide_profile:{w['profile']}"] + (["wide:signed"] if w["signed"] else [])

    def gen_wide_nd(self, rng, kind, profile, signed, geometry=None):
        from . import nd_parts
        from .. import gennd
        if geometry is None:
            d = rng.choice([2, 2, 3])
            axes = [gennd.axis_binning(rng, maxbins=3, allow_fixed=False) for _ in range(d)]
            n = rng.choice([2, 4, 8, 14])
            rows = gennd.rows_for(rng, [a[1] for a in axes], n, nan_share=rng.choice([0, 0.1]))
            fax = [([(Fraction(l), Fraction(r)) for l, r in a[1]], a[2]) for a in axes]
            inside = lambda: [rng.choice([l, l + (r - l) * 0.5]) for l, r in (rng.choice(a[1]) for a in axes)]
            for i, row in enumerate(rows):
                if any(v is None for v in row):
                    continue
                out = gennd.cell_of(fax, [Fraction(v) for v in row]) is None
                if out and (rng.random() < 0.5 or (kind == "float" and not ENABLE_ND_WIDE_FLOAT_MISSED)):
                    rows[i] = inside()
            if profile in ("huge_outside", "tiny_outside") and (kind == "int" or ENABLE_ND_WIDE_FLOAT_MISSED):
                rows.append([a[1][-1][1] + 1.0 for a in axes])
                rows.append(inside())
            axes_json, rows = [a[0] for a in axes], gennd.enc_rows(rows)
        else:
            axes_json, rows = geometry
        n = len(rows)
        fax = [([(Fraction(l), Fraction(r)) for l, r in a["bins"]], a.get("ire", True)) for a in axes_json]
        regions = [None if any(v is None for v in row) else (gennd.cell_of(fax, [Fraction(v) for v in row]) or "missed") for row in rows]
        if kind == "float" and not ENABLE_ND_WIDE_FLOAT_MISSED and "missed" in regions:
            kind = "int"        # (only with a given geometry) rows outside the bins: integer weights, see the constant
        ws = wide_weights(rng, regions, kind, profile, signed, outside=("missed",))
        order = list(range(n)); rng.shuffle(order)
        order2 = list(range(n)); rng.shuffle(order2)
        src = {"axes": axes_json, "rows": rows, "ws": [rs(w) for w in ws], "wk": "float64" if kind == "float" else "int64",
               "keep": rng.random() < 0.7, "order": order, "batches": [order2] if rng.random() < 0.3 else partition(rng, order2),
               "wide": {"kind": kind, "profile": profile, "signed": signed}}
        case = nd_parts.c03_build(src)
        case["tags"] = case["tags"] + self.wide_tags(src)
        return case

    @staticmethod
    def wide_wellformed(src) -> bool:
        """signed weights: no place may have a negative running total in entry order (every construction from a prefix of
        the entries must be a valid histogram)"""
        if not src.get("wide") or src["ws"] is None:
            return True
        if "rows" in src:
            from .. import gennd
            fax = [([(Fraction(l), Fraction(r)) for l, r in a["bins"]], a.get("ire", True)) for a in src["axes"]]
            regions = [None if any(v is None for v in row) else (gennd.cell_of(fax, [Fraction(v) for v in row]) or "missed")
                       for row in src["rows"]]
        else:
            fp = [(Fraction(l), Fraction(r)) for l, r in src["binning"]["bins"]]
            regions = [region1(fp, None if v is None else Fraction(v)) for v in src["vals"]]
        return prefixes_nonnegative(regions, src["ws"])

    @staticmethod
    def build(src, tags):
        b, vals, ws, wk, keep = src["binning"], src["vals"], src["ws"], src["wk"], src["keep"]
        ops = [{"op": "construct", "out": 0, "binning": b, "data": vals, "weights": ws, "wkind": wk, "keep": keep}]
        ops.append({"op": "empty", "out": 1, "binning": b, "keep": keep})
        mg = src.get("merge")
        mop = None if mg is None else {"op": "merge", "amount": mg["amount"], "inplace": True, "axis0": not mg.get("axis_none", False)}
        for pos, i in enumerate(src["order"]):
            if mop is not None and pos == mg["at"]:
                ops.append(dict(mop, h=1))
            v = vals[i]
            if v is not None:
                ops.append({"op": "find_bin", "h": 1, "v": v})
            w = "1" if ws is None else ws[i]
            wkk = "pyint" if (ws is None or wk == "int64") else "pyfloat"
            ops.append({"op": "fill", "h": 1, "v": v, "w": w, "wk": wkk, "default_w": ws is None})
        if mop is not None and mg["at"] >= len(src["order"]):
            ops.append(dict(mop, h=1))
        ops.append({"op": "empty", "out": 2, "binning": b, "keep": keep})
        nb = len(src["batches"])
        for j, batch in enumerate(src["batches"]):
            if mop is not None and j == min(mg["at"], nb - 1):
                ops.append(dict(mop, h=2))
            ops.append({"op": "fill_n", "h": 2, "vs": [vals[i] for i in batch],
                        "ws": None if ws is None else [ws[i] for i in batch], "wkind": wk,
                        "container": src["containers"][j % len(src["containers"])]})
        tags = list(tags)
        if "pre" in src:
            p = src["pre"]
            sub = lambda idx: ([vals[i] for i in idx], None if ws is None else [ws[i] for i in idx])
            v, w = sub(range(p))
            tags.append(f"prefilled:{'empty' if p == 0 else 'some'}")
            for reg in (3, 4):
                ops.append({"op": "construct", "out": reg, "binning": b, "data": v, "weights": w, "wkind": wk, "keep": keep})
            for i in range(p, len(vals)):
                wi = "1" if ws is None else ws[i]
                ops.append({"op": "fill", "h": 3, "v": vals[i], "w": wi,
                            "wk": "pyint" if (ws is None or wk == "int64") else "pyfloat", "default_w": ws is None})
            v, w = sub(range(p, len(vals)))
            ops.append({"op": "fill_n", "h": 4, "vs": v, "ws": w, "wkind": wk})
        if mop is not None:
            tags.append("merge_in_history")
            ops.append({"op": "merge", "h": 0, "amount": mg["amount"], "out": 5, "axis0": not mg.get("axis_none", False)})
        return {"kind": "hist1", "ops": ops, "tags": tags, "src": src}

    def shrink_candidates(self, case):
        if case.get("kind") == "histn":
            from . import nd_parts
            for c in nd_parts.c03_shrink(case):
                if c["src"].get("wide"):
                    if not self.wide_wellformed(c["src"]):
                        continue
                    c["tags"] = c["tags"] + self.wide_tags(c["src"])
                yield c
            return
        """remove one data point from all three paths"""
        import copy
        src = case["src"]
        n = len(src["vals"])
        for i in range(n):
            s2 = copy.deepcopy(src)
            del s2["vals"][i]
            if s2["ws"] is not None:
                del s2["ws"][i]
            ren = lambda j: j if j < i else j - 1
            s2["order"] = [ren(j) for j in s2["order"] if j != i]
            s2["batches"] = [[ren(j) for j in bt if j != i] for bt in s2["batches"]]
            if "pre" in s2:
                s2["pre"] = min(s2["pre"], n - 1) if i >= s2["pre"] else s2["pre"] - 1
            if "merge" in s2:
                s2["merge"]["at"] = min(s2["merge"]["at"], n - 1)
            if not self.wide_wellformed(s2):
                continue        # signed weights: the positive partner of a negative weight stays
            yield self.build(s2, [t for t in case.get("tags", []) if not t.startswith(("prefilled", "merge_in"))])

    def oracle(self, case, io):
        if case.get("kind") == "histn":
            from . import nd_parts
            fails = nd_parts.c03_oracle(case, io)
            if not fails and case["src"].get("wide"):
                fails = self.exact_sums_nd(case, io)
            return fails
        outs = io["outs"]
        ops = case["ops"]
        fails = []
        if any(o["ret"] == "REFUSED" for o in outs):
            return ["refused_valid: a valid call was refused: " + "; ".join(io["log"][:2])]
        final = outs[-1]["regs"]
        a, b, c = final[0], final[1], final[2]
        gapped = "gapped" in case.get("tags", [])
        paths = [("fill", b, a), ("fill_n", c, a)]
        if case["src"].get("merge") is not None:
            m = final[5]       # the construction, merged: what the two incremental paths with a merge in the middle must give
            paths = [("fill (in-place merge_bins in between)", b, m), ("fill_n (in-place merge_bins in between)", c, m)]
            for name, x, ref in paths:
                if x["bins"] != ref["bins"]:
                    fails.append(f"paths_bins: {name} path has bins {x['bins']}, the merged construction {ref['bins']}")
        if "pre" in case["src"]:
            paths += [("construction from a first chunk + fill", final[3], a), ("construction from a first chunk + fill_n", final[4], a)]
        for name, x, a in paths:
            for f in ("freq", "err2"):
                if [Fraction(v) for v in x[f]] != [Fraction(v) for v in a[f]]:
                    fails.append(f"paths_{f}: {name} path gives {x[f]}, construction gives {a[f]}")
            for f in ("under", "over"):
                if gapped and (x[f] is None or a[f] is None):
                    continue
                if (x[f] is None) != (a[f] is None) or (x[f] is not None and Fraction(x[f]) != Fraction(a[f])):
                    fails.append(f"paths_{f}: {name} path gives {x[f]}, construction gives {a[f]}")
        # fill returns what find_bin returned, and find_bin changes nothing
        keep = ops[0].get("keep", True)
        for k, op in enumerate(ops):
            if op["op"] == "find_bin":
                if strip_us(outs[k]["regs"][1]) != strip_us(outs[k - 1]["regs"][1]):
                    fails.append("find_bin_mutates: find_bin changed the histogram")
                if outs[k + 1]["ret"] != outs[k]["ret"]:
                    fails.append(f"fill_ret: fill returned {outs[k+1]['ret']} but find_bin said {outs[k]['ret']} for {op['v']}")
                # the index is the bin that contains the value
                bins = [(Fraction(l), Fraction(r)) for l, r in outs[k]["regs"][1]["bins"]]
                v = Fraction(op["v"])
                inside = [i for i, (l, r) in enumerate(bins) if l <= v and (v < r or (i == len(bins) - 1 and v == r))]
                exp = inside[0] if inside else (-1 if v < bins[0][0] else ("over" if v > bins[-1][1] else None))
                if outs[k]["ret"] != exp:
                    fails.append(f"find_bin_index: find_bin({op['v']}) = {outs[k]['ret']}, expected {exp}")
                if not keep and not inside:
                    before, after = outs[k]["regs"][1], outs[k + 1]["regs"][1]
                    if {x: before[x] for x in before if x != "dtype" and x != "_freq_dtype" and x != "_err2_dtype"} != \
                       {x: after[x] for x in after if x != "dtype" and x != "_freq_dtype" and x != "_err2_dtype"}:
                        fails.append("keep_off_changed: a value outside the bins changed a histogram that does not track missed values")
            if op["op"] == "fill" and op["v"] is None:
                if outs[k]["regs"][1] != outs[k - 1]["regs"][1] and \
                   {x: y for x, y in outs[k]["regs"][1].items() if "dtype" not in x} != {x: y for x, y in outs[k - 1]["regs"][1].items() if "dtype" not in x}:
                    fails.append("fill_nan: fill(NaN) changed the histogram")
        if not keep:
            for x in (b, c):
                if x["under"] is not None or x["over"] is not None:
                    fails.append("keep_off: under/overflow reported although keep_missed=False")
        if case["src"].get("wide"):
            fails += self.exact_sums_1d(case, io)
        return fails

    # ---- exact clauses of the wide-weights streams: every per-bin sum is exactly representable, so every entry path must
    # give exactly the rational sums of the weights (and of their squares) per bin, whatever order it adds them in
    @staticmethod
    def exact_sums_1d(case, io):
        src = case["src"]
        final = io["outs"][-1]["regs"]
        names = {0: "construction at once", 1: "fill one at a time", 2: "fill_n in batches",
                 3: "construction from a first chunk + fill", 4: "construction from a first chunk + fill_n"}
        fails = []
        for reg, name in names.items():
            if reg >= len(final) or final[reg] is None:
                continue
            x = final[reg]
            fp = [(Fraction(l), Fraction(r)) for l, r in x["bins"]]
            nb = len(fp)
            places = {}
            for v, w in zip(src["vals"], src["ws"]):
                r = region1(fp, None if v is None else Fraction(v))
                if r is not None:
                    places.setdefault(r, []).append(Fraction(w))
            if not all(summable(ws, integer=src["wk"] == "int64") for ws in places.values()):
                return []       # not a case of this class (the sums themselves would be rounded)
            freq = [sum(places.get(i, []), Fraction(0)) for i in range(nb)]
            err2 = [sum((w * w for w in places.get(i, [])), Fraction(0)) for i in range(nb)]
            for f, exp in (("freq", freq), ("err2", err2)):
                if [Fraction(v) for v in x[f]] != exp:
                    fails.append(f"exact_{f}: {name} gives {x[f]}, the exact sums of the weights{' squared' if f == 'err2' else ''} "
                                 f"per bin are {[rs(e) for e in exp]} (all exactly representable)")
            for f, r in (("under", -1), ("over", nb)):
                if x[f] is not None and x["keep"] and Fraction(x[f]) != sum(places.get(r, []), Fraction(0)):
                    fails.append(f"exact_{f}: {name} gives {f}flow {x[f]}, the exact sum of the weights there is "
                                 f"{rs(sum(places.get(r, []), Fraction(0)))}")
        return fails[:4]

    @staticmethod
    def exact_sums_nd(case, io):
        from .. import gennd
        src = case["src"]
        a, b, c = io["outs"][-1]["regs"][:3]
        fails = []
        for name, x, tracks in (("construction at once", a, True), ("fill one at a time", b, src["keep"]), ("fill_n in batches", c, src["keep"])):
            axes = [([(Fraction(l), Fraction(r)) for l, r in rep], bj.get("ire", True)) for bj, rep in zip(src["axes"], x["bins"])]
            places = {}
            for row, w in zip(src["rows"], src["ws"]):
                if any(v is None for v in row):
                    continue
                places.setdefault(gennd.cell_of(axes, [Fraction(v) for v in row]) or "missed", []).append(Fraction(w))
            if not all(summable(ws, integer=src["wk"] == "int64") for ws in places.values()):
                return []
            cells = gennd.unravel(x["shape"])
            freq = [sum(places.get(cell, []), Fraction(0)) for cell in cells]
            err2 = [sum((w * w for w in places.get(cell, [])), Fraction(0)) for cell in cells]
            for f, exp in (("freq", freq), ("err2", err2)):
                if [Fraction(v) for v in x[f]] != exp:
                    fails.append(f"exact_{f}: {name} gives {x[f]}, the exact sums of the weights{' squared' if f == 'err2' else ''} "
                                 f"per cell are {[rs(e) for e in exp]} (all exactly representable)")
            missed = sum(places.get("missed", []), Fraction(0))
            if tracks and (x["missed"] is None or Fraction(x["missed"]) != missed):
                fails.append(f"exact_missed: {name} gives missed={x['missed']}, the exact sum of the weights outside the bins is {rs(missed)}")
        return fails[:4]

    def neighbours(self, case):
        """around a case on which the model and the implementation disagree: the same bins and values with weights of widely
        different magnitudes (exact per-bin sums) in several profiles, one batch / value-ordered batches among them"""
        from ..core import Rng, case_hash
        src = case.get("src") or {}
        h = case_hash(case)
        if case.get("kind") == "histn":
            if not all(a.get("t") == "static" for a in src.get("axes", [])):
                return
            for j, (prof, kind) in enumerate([("descending", "float"), ("alternating", "float"), ("one_huge", "float"), ("descending", "int")]):
                yield self.gen_wide(Rng(f"nb:{h}:{j}"), geometry=(src["axes"], src["rows"]), profile=prof, kind=kind, nd=True)
            return
        if (src.get("binning") or {}).get("t") != "static":
            return
        tags = [t for t in case.get("tags", []) if t in ("gapped", "tiny_gap")]
        for j, (prof, kind) in enumerate([("descending", "float"), ("alternating", "float"), ("huge_outside", "float"),
                                          ("one_huge", "float"), ("ascending", "float"), ("descending", "int")]):
            yield self.gen_wide(Rng(f"nb:{h}:{j}"), geometry=(src["binning"], src["vals"], tags), profile=prof, kind=kind, nd=False)

    def nontrivial(self, case, io):
        outs = io["outs"]
        try:
            return any(Fraction(x) != 0 for x in outs[0]["regs"][0]["freq"])
        except Exception:
            return False




# ============================================================================================ round 7 streams
# Two classes of cases run directly on the library (kind "c03x", oracle only: the Lean driver has neither the coordinate
# transforms nor the facades' option handling, so model_case returns None for them).
#
#  stream:caller_arrays  -- points / batches / weights handed over as float64 numpy arrays (C / F ordered, strided views,
#      read-only) whose objects are USED AGAIN: find_bin(p) then fill(p) on the same row view, a fill loop over the rows, the
#      same array into a second histogram, fill_n(data) at once / in slices / twice, the facade on the same data; for
#      Histogram1D, HistogramND and all seven transformed classes.  Oracle: after every call every array handed in is bit for
#      bit what it was; every call returns / every histogram ends as the same calls do on fresh lists made from copies taken
#      before the first call; all entry paths agree.
#  stream:keep_off_routes -- keep_missed given (mostly False) to every public construction route with data of which some rows
#      lie outside explicitly given bins: h / h2 / h3 / h1 facades, HistogramND / Histogram2D / Histogram1D constructors filled
#      afterwards; compared with the same route called without data and filled by fill / fill_n / first chunk + fill_n.
#      Oracle: contents and squared errors are the exact sums on every path; a histogram that REPORTS keep_missed == False
#      reports missed == 0 (1-D: no under/overflow) and is not changed by a value outside; one that reports True reports the
#      exact weight outside; paths reporting the same flag agree.
X_EVERY, X_SLOTS = 8, {5: "arrays", 7: "keepoff"}

# On the unchanged library the routes below return a histogram that REPORTS keep_missed == False together with the weight
# of the outside rows in .missed (HistogramND.__init__ stores `missed` whatever keep_missed is; the facades h / h2 / h3 never
# get there because they swallow the option):
#     HistogramND.from_calculate_frequencies(data, binnings, keep_missed=False).missed == k
#     polar(x, y, radial_bins=e, phi_bins=p, keep_missed=False).missed == k       (keep_missed False)
#     cylindrical(data, rho_bins=.., phi_bins=.., z_bins=.., keep_missed=False).missed == k
# while the same histogram created empty and filled reports 0.  Reported, not generated (set True to see it).
ENABLE_KEEPOFF_FCF_ROUTES = True

X_CLASSES = ["polar", "polar", "spherical", "cylindrical", "radial2", "radial3", "azimuthal", "spherical_surface",
             "cylindrical_surface", "nd2", "nd3", "h1d"]
X_LAYOUTS = ["C", "C", "F", "strided", "readonly", "readonly"]
_R_EDGES = [0.0, 0.5, 1.0, 1.5, 2.0, 3.0, 4.5, 6.0, 8.0]
_PHI_EDGES = [0.0, 1.0, 2.5, 4.0, 5.5, 6.5]
_THETA_EDGES = [0.0, 0.75, 1.5, 2.5, 3.25]
_Z_EDGES = [-2.0, -1.0, 0.0, 1.5, 3.0]
X_AXES = {"polar": "rp", "spherical": "rtp", "cylindrical": "rpz", "radial2": "r", "radial3": "r", "azimuthal": "p",
          "spherical_surface": "tp", "cylindrical_surface": "pz", "nd2": "zz", "nd3": "zzz", "h1d": "z"}
X_SRCDIM = {"polar": 2, "spherical": 3, "cylindrical": 3, "radial2": 2, "radial3": 3, "azimuthal": 2, "spherical_surface": 3,
            "cylindrical_surface": 3, "nd2": 2, "nd3": 3, "h1d": 1}


def _x_edges(rng, axis):
    import numpy as np
    if axis == "r":
        pool = _R_EDGES
    elif axis == "z":
        pool = _Z_EDGES
    elif axis == "p":
        if rng.random() < 0.4:
            return [rs(float(x)) for x in np.linspace(0, 2 * np.pi, rng.choice([3, 5, 7]) + 1)]
        pool = _PHI_EDGES
    else:
        if rng.random() < 0.4:
            return [rs(float(x)) for x in np.linspace(0, np.pi, rng.choice([3, 5]) + 1)]
        pool = _THETA_EDGES
    k = rng.randint(2, min(5, len(pool)))
    a = rng.randint(0, len(pool) - k)
    return [rs(x) for x in pool[a:a + k]]


def _x_coords(cls, p):
    """the transformed coordinates (ordinary double arithmetic), only used to keep generated points away from bin edges"""
    import math
    two_pi = 2 * math.pi
    if cls == "polar":
        return [math.hypot(p[1], p[0]), math.atan2(p[1], p[0]) % two_pi]
    if cls == "radial2":
        return [math.hypot(p[1], p[0])]
    if cls == "azimuthal":
        return [math.atan2(p[1], p[0]) % two_pi]
    if cls in ("nd2", "nd3", "h1d"):
        return None
    x, y, z = p
    xy = math.hypot(x, y)
    r, th, ph = math.hypot(xy, z), math.atan2(xy, z) % two_pi, math.atan2(y, x) % two_pi
    return {"spherical": [r, th, ph], "cylindrical": [xy, ph, z], "radial3": [r], "spherical_surface": [th, ph],
            "cylindrical_surface": [ph, z]}[cls]


def _x_point(rng, cls, edges):
    d = X_SRCDIM[cls]
    fe = [[float(Fraction(e)) for e in ax] for ax in edges]
    for _ in range(200):
        if rng.random() < 0.7:
            p = [rng.randint(-12, 12) * 0.25 for _ in range(d)]
        else:
            p = [rng.randint(-3 * 1024, 3 * 1024) / 1024.0 for _ in range(d)]
        co = _x_coords(cls, p)
        if co is None:
            return p
        axes = X_AXES[cls]
        ok = True
        for c, ax, kind in zip(co, fe, axes):
            if kind != "z" and any(abs(c - e) < 1e-9 for e in ax):
                ok = False      # an angle / radius within rounding of an edge: scalar and vectorised libm may differ there
        if ok:
            return p
    return [0.3125 * (j + 1) for j in range(d)]


def x_gen_arrays(rng, cls=None):
    cls = cls or rng.choice(X_CLASSES)
    edges = [_x_edges(rng, a) for a in X_AXES[cls]]
    n = rng.choice([1, 2, 3, 5, 8, 12])
    rows = [[rs(v) for v in _x_point(rng, cls, edges)] for _ in range(n)]
    ws = None if rng.random() < 0.5 else [rs(rng.choice([1, 2, 3, 5])) for _ in range(n)]
    blocks = ["A", "A2", "B", "T", "C", "E"]
    rng.shuffle(blocks)
    blocks = blocks[:rng.randint(2, 6)]
    order = list(range(n)); rng.shuffle(order)
    cuts = sorted({rng.randint(0, n) for _ in range(rng.randint(0, 3))})
    src = {"stream": "arrays", "cls": cls, "edges": edges, "rows": rows, "ws": ws, "layout": rng.choice(X_LAYOUTS),
           "blocks": blocks, "order": order, "cuts": cuts}
    return x_build(src)


def x_gen_keepoff(rng):
    from .. import gennd
    routes = ["h2", "h2", "h", "h3", "h1", "HistogramND", "Histogram2D", "Histogram1D", "h2_range"]
    if ENABLE_KEEPOFF_FCF_ROUTES:
        routes += ["fcf", "fcf"]
    route = rng.choice(routes)
    d = {"h2": 2, "h2_range": 2, "Histogram2D": 2, "h3": 3, "h1": 1, "Histogram1D": 1}.get(route) or rng.choice([2, 2, 3])
    edges = []
    for _ in range(d):
        if route == "h2_range":
            k, lo, w = rng.randint(1, 4), rng.choice([0.0, -1.0, 0.5]), rng.choice([0.5, 1.0, 2.0])
            edges.append([rs(lo + j * w) for j in range(k + 1)])
        else:
            k = rng.randint(1, 4)
            e = [rng.choice([-1.0, 0.0, 0.5])]
            for _ in range(k):
                e.append(e[-1] + rng.choice([0.25, 0.5, 1.0, 1.5]))
            edges.append([rs(x) for x in e])
    n = rng.choice([1, 2, 4, 8, 14, 24])
    rows = []
    for _ in range(n):
        row = []
        for e in edges:
            fe = [float(Fraction(x)) for x in e]
            u = rng.random()
            if u < 0.12:
                row.append(fe[0] - rng.choice([0.25, 1.0]))
            elif u < 0.24:
                row.append(fe[-1] + rng.choice([0.25, 1.0]))
            elif u < 0.4:
                row.append(rng.choice(fe))
            else:
                j = rng.randrange(len(fe) - 1)
                row.append(fe[j] + (fe[j + 1] - fe[j]) * rng.choice([0.25, 0.5, 0.75]))
        rows.append([rs(v) for v in row])
    wk = rng.choice(["none", "none", "int", "dyadic"])
    ws = None if wk == "none" else [rs(rng.choice([1, 2, 3, 4]) if wk == "int" else rng.choice([0.5, 0.25, 1.5, 2.0])) for _ in range(n)]
    order = list(range(n)); rng.shuffle(order)
    order2 = list(range(n)); rng.shuffle(order2)
    src = {"stream": "keepoff", "route": route, "keep": rng.random() < 0.2, "edges": edges, "rows": rows, "ws": ws,
           "order": order, "batches": partition(rng, order2), "pre": rng.choice([0, 1, n // 2, n]),
           "arrays": rng.random() < 0.5}
    return x_build(src)


def x_build(src):
    n = len(src["rows"])
    if src["stream"] == "arrays":
        tags = ["stream:caller_arrays", f"cls:{src['cls']}", f"layout:{src['layout']}"] + [f"block:{b}" for b in src["blocks"]]
        ops = [{"op": "x:" + b} for b in src["blocks"]]
    else:
        tags = ["stream:keep_off_routes", f"route:{src['route']}", f"keep_arg:{src['keep']}"]
        ops = [{"op": "x:construct"}, {"op": "x:fill"}, {"op": "x:fill_n"}, {"op": "x:chunk+fill_n"}]
    return {"kind": "c03x", "ops": ops, "tags": tags + [f"n:{min(n, 8)}"], "src": src}


def _x_snap(h):
    import numpy as np
    from ..core import nrs
    s = {"freq": [nrs(x) for x in np.asarray(h.frequencies).ravel().tolist()],
         "err2": [nrs(x) for x in np.asarray(h.errors2).ravel().tolist()],
         "keep": bool(h.keep_missed), "shape": list(h.shape)}
    if h.ndim == 1 and hasattr(h, "underflow"):
        s.update(under=nrs(h.underflow), over=nrs(h.overflow), inner=nrs(h.inner_missed))
    else:
        s["missed"] = nrs(h.missed)
    return s


def _x_ret(r):
    if r is None:
        return None
    if isinstance(r, tuple):
        return [int(x) for x in r]
    return int(r)


def _x_factory(cls, edges):
    import numpy as np
    from physt import special_histograms as sp
    from physt import h as fh, h1 as fh1
    from physt.binnings import NumpyBinning
    from physt.histogram1d import Histogram1D
    from physt.histogram_nd import HistogramND
    E = [np.array([float(Fraction(e)) for e in ax]) for ax in edges]
    nb = lambda: [NumpyBinning(e.copy()) for e in E]
    col = lambda D, j: D[:, j]
    if cls == "polar":
        return (lambda: sp.PolarHistogram(binnings=nb()),
                lambda D, W: sp.polar(col(D, 0), col(D, 1), radial_bins=E[0].copy(), phi_bins=E[1].copy(), weights=W))
    if cls == "spherical":
        return (lambda: sp.SphericalHistogram(binnings=nb()),
                lambda D, W: sp.spherical(D, radial_bins=E[0].copy(), theta_bins=E[1].copy(), phi_bins=E[2].copy(), dropna=False, weights=W))
    if cls == "cylindrical":
        return (lambda: sp.CylindricalHistogram(binnings=nb()),
                lambda D, W: sp.cylindrical(D, rho_bins=E[0].copy(), phi_bins=E[1].copy(), z_bins=E[2].copy(), dropna=False, weights=W))
    if cls == "radial2":
        return (lambda: sp.RadialHistogram(binning=nb()[0]),
                lambda D, W: sp.radial(col(D, 0), col(D, 1), bins=E[0].copy(), weights=W))
    if cls == "radial3":
        return (lambda: sp.RadialHistogram(binning=nb()[0]),
                lambda D, W: sp.radial(D, bins=E[0].copy(), weights=W))
    if cls == "azimuthal":
        return (lambda: sp.AzimuthalHistogram(binning=nb()[0]),
                lambda D, W: sp.azimuthal(col(D, 0), col(D, 1), bins=E[0].copy(), weights=W))
    if cls == "spherical_surface":
        return (lambda: sp.SphericalSurfaceHistogram(binnings=nb()),
                lambda D, W: sp.spherical_surface(D, theta_bins=E[0].copy(), phi_bins=E[1].copy(), weights=W))
    if cls == "cylindrical_surface":
        return (lambda: sp.CylindricalSurfaceHistogram(binnings=nb()),
                lambda D, W: sp.cylindrical_surface(D, phi_bins=E[0].copy(), z_bins=E[1].copy(), weights=W))
    if cls in ("nd2", "nd3"):
        return (lambda: HistogramND(dimension=len(E), binnings=nb()),
                lambda D, W: fh(D, [e.copy() for e in E], weights=W))
    return (lambda: Histogram1D(binning=nb()[0]), lambda D, W: fh1(D, E[0].copy(), weights=W))


def x_run_arrays(src):
    import warnings
    import numpy as np
    cls, n = src["cls"], len(src["rows"])
    d = X_SRCDIM[cls]
    P = np.array([[float(Fraction(v)) for v in row] for row in src["rows"]], dtype=np.float64).reshape(n, d)
    PW = None if src["ws"] is None else np.array([float(Fraction(w)) for w in src["ws"]], dtype=np.float64)
    if cls == "h1d":
        P = P[:, 0]
    lay = src["layout"]
    if lay == "F":
        D = np.asfortranarray(P.copy())
    elif lay == "strided":
        big = np.zeros(P.shape[:1] + tuple(2 * s for s in P.shape[1:]) if P.ndim > 1 else (2 * n,))
        D = big[:, ::2] if P.ndim > 1 else big[::2]
        D[...] = P
    else:
        D = P.copy()
    W = None if PW is None else PW.copy()
    if lay == "readonly":
        D.setflags(write=False)
        if W is not None:
            W.setflags(write=False)
    watched = [("data", D, P.tobytes())] + ([] if W is None else [("weights", W, PW.tobytes())])
    empty, facade = _x_factory(cls, src["edges"])
    cuts = [0] + [c for c in src["cuts"] if 0 < c < n] + [n]
    events, hists, log = [], {}, []

    def modified():
        out = []
        for name, arr, before in watched:
            if np.ascontiguousarray(arr).tobytes() != before:
                out.append(f"{name}: was {np.frombuffer(before, dtype=np.float64).tolist()}, is {np.asarray(arr).ravel().tolist()}")
        return out or None

    def call(label, mode, fn):
        try:
            with warnings.catch_warnings():
                warnings.simplefilter("ignore")
                r = fn()
            ev = {"call": label, "ret": r}
        except Exception as ex:
            ev = {"call": label, "ret": "REFUSED", "exc": f"{type(ex).__name__}: {ex}"[:200]}
            log.append(f"{label} [{mode}]: {ev['exc']}")
        if mode == "arrays":
            ev["modified"] = modified()
        return ev

    for mode in ("arrays", "lists"):
        arr = mode == "arrays"
        point = (lambda i: D[i]) if arr else (lambda i: P[i].tolist())
        batch = (lambda a, b: D[a:b]) if arr else (lambda a, b: P[a:b].tolist())
        wts = (lambda a, b: None if W is None else W[a:b]) if arr else (lambda a, b: None if PW is None else PW[a:b].tolist())
        wt = (lambda i: 1 if W is None else W[i]) if arr else (lambda i: 1 if PW is None else float(PW[i]))
        evs = []
        for blk in src["blocks"]:
            if blk in ("A", "A2"):
                h = empty()
                for i in src["order"]:
                    p = point(i)            # ONE object for the look-up and the fill that follows
                    if blk == "A":
                        evs.append(call(f"{blk}.find_bin(data[{i}])", mode, lambda: _x_ret(h.find_bin(p))))
                    if W is None:
                        evs.append(call(f"{blk}.fill(data[{i}])", mode, lambda: _x_ret(h.fill(p))))
                    else:
                        evs.append(call(f"{blk}.fill(data[{i}], weight=weights[{i}])", mode, lambda: _x_ret(h.fill(p, weight=wt(i)))))
            elif blk == "B":
                h = empty()
                evs.append(call("B.fill_n(data, weights)", mode, lambda: h.fill_n(batch(0, n), weights=wts(0, n))))
            elif blk == "T":
                h = empty()
                for _ in range(2):
                    evs.append(call("T.fill_n(data, weights) [one of two]", mode, lambda: h.fill_n(batch(0, n), weights=wts(0, n))))
            elif blk == "C":
                h = empty()
                for a, b in zip(cuts, cuts[1:]):
                    evs.append(call(f"C.fill_n(data[{a}:{b}], weights[{a}:{b}])", mode, lambda: h.fill_n(batch(a, b), weights=wts(a, b))))
            else:
                box = {}
                def build():
                    box["h"] = facade(batch(0, n) if arr else np.array(batch(0, n), dtype=np.float64).reshape(P.shape), wts(0, n))
                evs.append(call(f"E = facade {cls}(data, weights)", mode, build))
                h = box.get("h")
            hists[f"{blk}:{mode}"] = None if h is None else _x_snap(h)
        events.append(evs)
    return {"outs": [], "log": log, "x": {"events": events[0], "ref_events": events[1], "hists": hists}}


def x_oracle_arrays(case, io):
    src, x = case["src"], io["x"]
    fails = []
    for ev, ref in zip(x["events"], x["ref_events"]):
        if ref["ret"] == "REFUSED":
            continue            # the call is refused on plain lists as well: not about arrays
        if ev.get("modified"):
            fails.append(f"input_modified: {ev['call']} changed an array handed in by the caller ({src['cls']}, layout {src['layout']}): "
                         + "; ".join(ev["modified"])[:400])
            break
        if ev["ret"] == "REFUSED":
            fails.append(f"array_refused: {ev['call']} is refused for a float64 array (layout {src['layout']}) but accepted for the "
                         f"same numbers in a list: {ev.get('exc')}")
            break
        if ev["ret"] != ref["ret"]:
            what = "find_bin_index" if "find_bin" in ev["call"] else "fill_ret"
            fails.append(f"{what}: {ev['call']} on the caller's array returned {ev['ret']}, on a fresh copy of the same point {ref['ret']}")
    evs = x["events"]
    for k in range(len(evs) - 1):
        if ".find_bin(" in evs[k]["call"] and evs[k]["ret"] != evs[k + 1]["ret"] and "REFUSED" not in (evs[k]["ret"], evs[k + 1]["ret"]):
            fails.append(f"fill_ret: {evs[k + 1]['call']} returned {evs[k + 1]['ret']} but find_bin on the same array object said {evs[k]['ret']}")
    H = x["hists"]
    keys = ("freq", "err2", "missed", "under", "over", "inner")
    for blk in src["blocks"]:
        a, r = H.get(f"{blk}:arrays"), H.get(f"{blk}:lists")
        if a is None or r is None:
            continue
        for f in keys:
            if a.get(f) != r.get(f):
                fails.append(f"paths_{f}: path {blk} fed with the caller's arrays gives {a.get(f)}, fed with fresh copies of the same "
                             f"numbers {r.get(f)}")
    single = [b for b in src["blocks"] if b != "T" and H.get(f"{b}:arrays") is not None]
    for b in single[1:]:
        a, r = H[f"{b}:arrays"], H[f"{single[0]}:arrays"]
        for f in keys:
            if a.get(f) != r.get(f):
                fails.append(f"paths_{f}: path {b} gives {a.get(f)}, path {single[0]} gives {r.get(f)} (same data, same arrays)")
    return fails[:6]


def _x_keepoff_make(src, rows_idx, with_data):
    """one histogram by the route of the case: from the rows given (with_data) or without data"""
    import numpy as np
    import physt
    from physt.binnings import static_binning
    from physt.histogram1d import Histogram1D
    from physt.histogram_nd import HistogramND, Histogram2D
    route, keep = src["route"], src["keep"]
    E = [np.array([float(Fraction(e)) for e in ax]) for ax in src["edges"]]
    d = len(E)
    P = np.array([[_yf(v) for v in src["rows"][i]] for i in rows_idx], dtype=np.float64).reshape(len(rows_idx), d)
    W = None if src["ws"] is None else np.array([float(Fraction(src["ws"][i])) for i in rows_idx], dtype=np.float64)
    if not src.get("arrays"):
        W = None if W is None else W.tolist()
    sb = lambda: [static_binning(bins=e.copy()) for e in E]
    if route in ("h", "h2", "h3", "h1", "h2_range", "fcf"):
        if route == "h1":
            return physt.h1(P[:, 0] if with_data else None, E[0].copy(), weights=W if with_data else None, keep_missed=keep)
        if route == "fcf":
            # (an internal entry point: it takes arrays only)
            return HistogramND.from_calculate_frequencies(P if with_data else None, sb(),
                                                          weights=np.asarray(W, dtype=np.float64) if (with_data and W is not None) else None,
                                                          keep_missed=keep)
        kw = {"weights": W} if with_data else {}
        if route == "h2_range":
            bins = [len(e) - 1 for e in E]
            kw["range"] = [(float(e[0]), float(e[-1])) for e in E]
        else:
            bins = [e.copy() for e in E]
        if route == "h":
            return physt.h(P if with_data else None, bins, dim=d, keep_missed=keep, **kw)
        if route == "h3":
            return physt.h3(P if with_data else None, bins, keep_missed=keep, **kw)
        if with_data:
            return physt.h2(P[:, 0], P[:, 1], bins, keep_missed=keep, **kw)
        return physt.h2(None, None, bins, keep_missed=keep, **kw)
    # constructors: always created empty, the rows (if any) entered by one fill_n
    if route == "Histogram1D":
        h = Histogram1D(binning=sb()[0], keep_missed=keep)
        if with_data:
            h.fill_n(P[:, 0], weights=W)
        return h
    h = Histogram2D(binnings=sb(), keep_missed=keep) if route == "Histogram2D" else HistogramND(dimension=d, binnings=sb(), keep_missed=keep)
    if with_data:
        h.fill_n(P, weights=W)
    return h


def x_run_keepoff(src):
    import warnings
    import numpy as np
    n = len(src["rows"])
    one_d = len(src["edges"]) == 1
    log, hists, steps = [], {}, []
    val = lambda i: _yf(src["rows"][i][0]) if one_d else [_yf(v) for v in src["rows"][i]]
    inf_stream = src.get("stream") == "inf"
    wt = lambda i: 1 if src["ws"] is None else float(Fraction(src["ws"][i]))

    def fill_n(h, idx):
        P = np.array([val(i) for i in idx], dtype=np.float64).reshape((len(idx),) if one_d else (len(idx), len(src["edges"])))
        W = None if src["ws"] is None else np.array([wt(i) for i in idx], dtype=np.float64)
        if not src.get("arrays") and len(idx):       # (an empty list has no second dimension: empty batches stay (0, d) arrays)
            P, W = P.tolist(), (None if W is None else W.tolist())
        h.fill_n(P, weights=W)

    with warnings.catch_warnings():
        warnings.simplefilter("ignore")
        try:
            hists["construction at once"] = _x_snap(_x_keepoff_make(src, list(range(n)), True))
            h = _x_keepoff_make(src, [], False)
            hists["created without data"] = _x_snap(h)
            for i in src["order"]:
                before = _x_snap(h)
                found = None
                if inf_stream:
                    found = {"ret": _x_ret(h.find_bin(val(i))), "after": _x_snap(h)}
                r = _x_ret(h.fill(val(i), weight=wt(i)) if src["ws"] is not None else h.fill(val(i)))
                steps.append({"i": i, "ret": r, "before": before, "after": _x_snap(h)})
                if found is not None:
                    steps[-1]["find"] = found
            hists["fill one at a time"] = _x_snap(h)
            if inf_stream:
                h = _x_keepoff_make(src, [], False)
                fill_n(h, list(range(n)))
                hists["fill_n at once"] = _x_snap(h)
                h = _x_keepoff_make(src, [], False)
                for i in src["order"]:
                    fill_n(h, [i])
                hists["fill_n one row per call"] = _x_snap(h)
            h = _x_keepoff_make(src, [], False)
            for bt in src["batches"]:
                fill_n(h, bt)
            hists["fill_n in batches"] = _x_snap(h)
            p = min(src["pre"], n)
            h = _x_keepoff_make(src, list(range(p)), True)
            fill_n(h, list(range(p, n)))
            hists["construction from a first chunk + fill_n"] = _x_snap(h)
        except Exception as ex:
            import traceback
            log.append(f"{type(ex).__name__}: {ex}"[:300] + " @ " + traceback.format_exc()[-300:])
    return {"outs": [], "log": log, "x": {"hists": hists, "steps": steps}}


def x_oracle_keepoff(case, io):
    from .. import gennd
    src, x = case["src"], io["x"]
    if io["log"]:
        return [f"refused_valid: a valid call was refused (route {src['route']}, keep_missed={src['keep']}): " + io["log"][0]]
    H = x["hists"]
    one_d = len(src["edges"]) == 1
    axes = [([(Fraction(a), Fraction(b)) for a, b in zip(ax, ax[1:])], True) for ax in src["edges"]]
    ws = [Fraction(1)] * len(src["rows"]) if src["ws"] is None else [Fraction(w) for w in src["ws"]]
    places = {}
    for row, w in zip(src["rows"], ws):
        if one_d:
            key = region1(axes[0][0], Fraction(row[0]))
            key = (key,) if isinstance(key, int) and 0 <= key < len(axes[0][0]) else ("under" if key == -1 else "over")
        else:
            key = gennd.cell_of(axes, [Fraction(v) for v in row]) or "missed"
        places.setdefault(key, []).append(w)
    tot = lambda k, sq=False: rs(sum(((w * w if sq else w) for w in places.get(k, [])), Fraction(0)))
    fails = []
    for name, s in H.items():
        if name == "created without data":
            if any(Fraction(v) != 0 for v in s["freq"]) or s.get("missed") not in (None, "0"):
                fails.append(f"paths_freq: the histogram created without data is not empty: {s}")
            continue
        cells = gennd.unravel(s["shape"])
        for f, sq in (("freq", False), ("err2", True)):
            exp = [tot(c, sq) for c in cells]
            if [rs(Fraction(v)) for v in s[f]] != exp:
                fails.append(f"paths_{f}: {name} (route {src['route']}, keep_missed={src['keep']} asked, {s['keep']} reported) gives "
                             f"{s[f]}, the exact sums per bin are {exp}")
        outside = [("under", "under"), ("over", "over")] if one_d else [("missed", "missed")]
        for f, k in outside:
            got = s.get(f)
            if s["keep"]:
                if got is None or Fraction(got) != Fraction(tot(k)):
                    fails.append(f"paths_{f}: {name} (route {src['route']}) reports keep_missed=True and {f}={got}, the weight of the "
                                 f"rows outside is {tot(k)}")
            elif got is not None and Fraction(got) != 0:
                fails.append(f"keep_off_missed: {name} (route {src['route']}, keep_missed={src['keep']} asked) reports keep_missed=False "
                             f"and {f}={got}: with tracking switched off values outside change nothing"
                             + (f" (the paths that fill report {[(m, t.get(f)) for m, t in H.items() if m != name][:4]})"))
    flags = {s["keep"] for s in H.values()}
    if len(flags) > 1:
        fails.append(f"paths_keep: the same route with keep_missed={src['keep']} reports different keep_missed flags: "
                     f"{[(m, s['keep']) for m, s in H.items()]}")
    for st in x["steps"]:
        b, a = st["before"], st["after"]
        row = src["rows"][st["i"]]
        out = (region1(axes[0][0], Fraction(row[0])) in (-1, len(axes[0][0]))) if one_d else gennd.cell_of(axes, [Fraction(v) for v in row]) is None
        if out and not b["keep"] and a != b:
            fails.append(f"keep_off_changed: fill({row}) outside the bins changed a histogram that reports keep_missed=False: {b} -> {a}")
    return fails[:6]


def _c03x_patch():
    base = {k: getattr(C03, k) for k in ("gen_case", "run_impl", "model_case", "oracle", "tags", "nontrivial", "shrink_candidates",
                                          "neighbours", "fields_for")}
    isx = lambda case: case.get("kind") == "c03x"

    def gen_case(self, rng, k, tier):
        slot = X_SLOTS.get(k % X_EVERY)
        if slot == "arrays":
            return x_gen_arrays(rng)
        if slot == "keepoff":
            return x_gen_keepoff(rng)
        return base["gen_case"](self, rng, k, tier)

    def run_impl(self, case):
        if isx(case):
            return x_run_arrays(case["src"]) if case["src"]["stream"] == "arrays" else x_run_keepoff(case["src"])
        return Hist1Prop.run_impl(self, case)

    def model_case(self, case, io):
        return None if isx(case) else Hist1Prop.model_case(self, case, io)

    def oracle(self, case, io):
        if isx(case):
            return x_oracle_arrays(case, io) if case["src"]["stream"] == "arrays" else x_oracle_keepoff(case, io)
        return base["oracle"](self, case, io)

    def tags(self, case, io):
        if isx(case):
            t = [o["op"] for o in case["ops"]] + list(case["tags"])
            for s in (io.get("x", {}).get("hists") or {}).values():
                if s and case["src"]["stream"] == "keepoff":
                    t.append(f"reported_keep:{s['keep']}")
                    break
            return t
        return Hist1Prop.tags(self, case, io)

    def nontrivial(self, case, io):
        if isx(case):
            hs = [s for s in (io.get("x", {}).get("hists") or {}).values() if s]
            return any(Fraction(v) != 0 for s in hs for v in s["freq"] if v is not None)
        return base["nontrivial"](self, case, io)

    def shrink_candidates(self, case):
        if not isx(case):
            yield from base["shrink_candidates"](self, case)
            return
        import copy
        src = case["src"]
        n = len(src["rows"])
        if src["stream"] == "arrays":
            for j in range(len(src["blocks"])):
                if len(src["blocks"]) > 1:
                    s2 = copy.deepcopy(src)
                    del s2["blocks"][j]
                    yield x_build(s2)
        for i in range(n):
            if n <= 1:
                break
            s2 = copy.deepcopy(src)
            del s2["rows"][i]
            if s2["ws"] is not None:
                del s2["ws"][i]
            ren = lambda j: j if j < i else j - 1
            s2["order"] = [ren(j) for j in s2["order"] if j != i]
            if "batches" in s2:
                s2["batches"] = [[ren(j) for j in bt if j != i] for bt in s2["batches"]]
                s2["pre"] = min(s2["pre"], n - 1)
            if "cuts" in s2:
                s2["cuts"] = sorted({min(c, n - 1) for c in s2["cuts"]})
            yield x_build(s2)

    def neighbours(self, case):
        if isx(case):
            return []
        return base["neighbours"](self, case)

    for name, fn in (("gen_case", gen_case), ("run_impl", run_impl), ("model_case", model_case), ("oracle", oracle), ("tags", tags),
                     ("nontrivial", nontrivial), ("shrink_candidates", shrink_candidates), ("neighbours", neighbours)):
        setattr(C03, name, fn)


_c03x_patch()


# ============================================================================================ round 8 streams
# Two more classes on the library only (kind "c03x", no model: the driver has no memory layouts and no infinities).
#
#  stream:md_layouts -- a multi-dimensional (2-D / 3-D) table of values with NON-UNIFORM weights of the same shape entered into a
#      1-D histogram by Histogram1D.fill_n (at once and in slabs) and by h1, in every memory layout of the values (C, Fortran,
#      permuted axes, strided views of C / Fortran buffers, reversed view, nested list) times every layout of the weights
#      (C, Fortran, nested list, the layout of the values), dropna on / off (off only for tables without NaN).  Oracle: every
#      call equals entering the pairs (values.flat[k], weights.flat[k]) one at a time with fill = the exact Fraction sums.
#  stream:inf_values -- +inf / -inf entries (one sign, both signs in one row, inf beside finite, inf beside NaN, only
#      infinities) in 1-D values and N-d rows, static / numpy bins, through construction (h1 / h / h2 / h3 / the constructors),
#      fill (find_bin first), fill_n (random batches, at once, one row per call, first chunk + fill_n), keep_missed mostly on.
#      Oracle: only rows with a NaN are dropped; an infinite value is underflow / overflow (1-D) or missed (N-d) with its weight
#      on every path; fill / find_bin return -1 / bin count (1-D) or None (N-d) for it; find_bin changes nothing.
Y_EVERY, Y_SLOTS = 16, {1: "layouts", 9: "inf"}
ENABLE_MD_LAYOUTS = True
ENABLE_INF_VALUES = True
Y_SHAPES = [(2, 3), (3, 2), (2, 2), (3, 4), (4, 2), (2, 5), (3, 3), (2, 2, 3), (3, 2, 2), (2, 3, 2)]
Y_VLAYOUTS = ["C", "F", "perm", "strided", "fstrided", "rev", "list"]
Y_WLAYOUTS = ["C", "F", "list", "as_values"]


def _yf(v):
    """a value of a case as a float: None = NaN, "inf" / "-inf", else the text of a rational"""
    if v is None:
        return float("nan")
    if v in ("inf", "-inf"):
        return float(v)
    return float(Fraction(v))


def _yx(v):
    """... for exact comparison with edges: None, an infinite float (Fraction compares correctly with it) or a Fraction"""
    if v is None:
        return None
    if v in ("inf", "-inf"):
        return float(v)
    return Fraction(v)


def _y_edges(rng):
    e = [rng.choice([-1.0, 0.0, 0.5])]
    for _ in range(rng.randint(1, 4)):
        e.append(e[-1] + rng.choice([0.25, 0.5, 1.0, 1.5]))
    return [rs(x) for x in e]


def _y_value(rng, fe):
    u = rng.random()
    if u < 0.12:
        return fe[0] - rng.choice([0.25, 1.0])
    if u < 0.24:
        return fe[-1] + rng.choice([0.25, 1.0])
    if u < 0.4:
        return rng.choice(fe)
    j = rng.randrange(len(fe) - 1)
    return fe[j] + (fe[j + 1] - fe[j]) * rng.choice([0.25, 0.5, 0.75])


def y_gen_layouts(rng):
    edges = _y_edges(rng)
    fe = [float(Fraction(x)) for x in edges]
    shape = list(rng.choice(Y_SHAPES))
    n = 1
    for s in shape:
        n *= s
    with_nan = rng.random() < 0.3
    vals = [None if (with_nan and rng.random() < 0.2) else rs(_y_value(rng, fe)) for _ in range(n)]
    # at least two different places are hit (otherwise the pairing of values and weights cannot be seen)
    vals[rng.randrange(n)] = rs(fe[0] + (fe[1] - fe[0]) * 0.5)
    free = [i for i in range(n) if vals[i] != rs(fe[0] + (fe[1] - fe[0]) * 0.5)] or [0]
    vals[rng.choice(free)] = rs(fe[-1] + 1.0) if len(fe) == 2 else rs(fe[-1])
    wk = rng.choice(["int64", "int64", "float64", "float64", "none"])
    if wk == "none":
        ws = None
    else:
        pool = list(range(1, 3 * n + 1))
        rng.shuffle(pool)
        ws = [rs(w if wk == "int64" else w * 0.25) for w in pool[:n]]       # all different
    perm = list(range(len(shape)))
    while perm == list(range(len(shape))):
        rng.shuffle(perm)
    order = list(range(n)); rng.shuffle(order)
    cuts = sorted({rng.randint(1, shape[0] - 1) for _ in range(rng.randint(0, 2))}) if shape[0] > 1 else []
    src = {"stream": "layouts", "edges": edges, "shape": shape, "vals": vals, "ws": ws, "wk": wk, "perm": perm,
           "keep": rng.random() < 0.75, "order": order, "cuts": cuts}
    return y_build(src)


def y_gen_inf(rng):
    d = rng.choice([1, 1, 2, 2, 2, 3])
    edges = [_y_edges(rng) for _ in range(d)]
    fes = [[float(Fraction(x)) for x in e] for e in edges]
    n = rng.choice([2, 4, 6, 10, 16])
    nan_share = rng.choice([0, 0, 0.15])
    rows = [[None if rng.random() < nan_share else rs(_y_value(rng, fe)) for fe in fes] for _ in range(n)]
    sign = lambda: rng.choice(["inf", "-inf"])
    flavours = []
    special = list(range(n)); rng.shuffle(special)
    for j, i in enumerate(special[:rng.randint(1, 3)]):
        if d == 1:
            fl = rng.choice(["pinf", "ninf"])
        elif j == 0 and rng.random() < 0.6:
            fl = "both"
        else:
            fl = rng.choice(["both", "pinf", "ninf", "same2", "all_inf", "inf_nan", "inf_finite"])
        cols = list(range(d)); rng.shuffle(cols)
        row = [rs(_y_value(rng, fe)) for fe in fes]
        if fl in ("pinf", "ninf"):
            row[cols[0]] = "inf" if fl == "pinf" else "-inf"
        elif fl == "inf_finite":
            row[cols[0]] = sign()
            for c in cols[1:]:
                row[c] = rs(fes[c][0] + (fes[c][1] - fes[c][0]) * 0.5)      # the other entries inside the bins
        elif fl == "both":
            row[cols[0]], row[cols[1]] = ("inf", "-inf") if rng.random() < 0.5 else ("-inf", "inf")
            if d == 3 and rng.random() < 0.3:
                row[cols[2]] = sign()
        elif fl == "same2":
            row[cols[0]] = row[cols[1]] = sign()
        elif fl == "all_inf":
            row = [sign() for _ in range(d)]
        else:
            row[cols[0]], row[cols[1]] = sign(), None
        rows[i] = row
        flavours.append(fl)
    wk = rng.choice(["none", "int", "int", "dyadic"])
    ws = None if wk == "none" else [rs(rng.choice([1, 2, 3, 5]) if wk == "int" else rng.choice([0.5, 0.25, 1.5, 2.0])) for _ in range(n)]
    route = rng.choice({1: ["h1", "h1", "Histogram1D"], 2: ["h2", "h", "HistogramND", "Histogram2D"], 3: ["h3", "h", "HistogramND"]}[d])
    order = list(range(n)); rng.shuffle(order)
    order2 = list(range(n)); rng.shuffle(order2)
    src = {"stream": "inf", "route": route, "keep": rng.random() < 0.85, "edges": edges, "rows": rows, "ws": ws,
           "order": order, "batches": partition(rng, order2), "pre": rng.choice([0, 1, n // 2, n]), "arrays": rng.random() < 0.5,
           "flavours": sorted(set(flavours))}
    return y_build(src)


def y_build(src):
    if src["stream"] == "layouts":
        tags = ["stream:md_layouts", "shape:" + "x".join(str(s) for s in src["shape"]), f"weights:{src['wk']}",
                "table:nan" if any(v is None for v in src["vals"]) else "table:no_nan", f"keep_arg:{src['keep']}"]
        ops = [{"op": "x:fill"}, {"op": "x:fill_n(layouts)"}, {"op": "x:h1(layouts)"}]
        n = len(src["vals"])
    else:
        rows = src["rows"]
        tags = ["stream:inf_values", f"d:{len(src['edges'])}", f"route:{src['route']}", f"keep_arg:{src['keep']}"]
        tags += [f"inf:{f}" for f in src.get("flavours", [])]
        if any("inf" in r and "-inf" in r for r in rows):
            tags.append("inf:row_with_both_signs")
        if any(any(v in ("inf", "-inf") for v in r) and any(v is None for v in r) for r in rows):
            tags.append("inf:row_with_inf_and_nan")
        if any(v is None for r in rows for v in r):
            tags.append("inf:nan_rows")
        tags.append("inf:weights" if src["ws"] is not None else "inf:no_weights")
        ops = [{"op": "x:construct"}, {"op": "x:find_bin"}, {"op": "x:fill"}, {"op": "x:fill_n"}, {"op": "x:chunk+fill_n"}]
        n = len(rows)
    return {"kind": "c03x", "ops": ops, "tags": tags + [f"n:{min(n, 8)}"], "src": src}


def _y_layout(np, A, name, perm):
    """the array A (C-ordered) in another memory layout: same shape, same elements at the same indices"""
    if name == "C":
        return A.copy()
    if name == "F":
        return np.asfortranarray(A)
    if name == "perm":
        inv = [perm.index(i) for i in range(A.ndim)]
        return np.ascontiguousarray(A.transpose(perm)).transpose(inv)
    if name in ("strided", "fstrided"):
        big = np.zeros(tuple(2 * s for s in A.shape), dtype=A.dtype, order="F" if name == "fstrided" else "C")
        view = big[tuple(slice(None, None, 2) for _ in A.shape)]
        view[...] = A
        return view
    if name == "rev":
        return np.ascontiguousarray(A[::-1])[::-1]
    return A.tolist()


def y_run_layouts(src):
    import warnings
    import numpy as np
    import physt
    from physt.binnings import static_binning
    from physt.histogram1d import Histogram1D
    E = np.array([float(Fraction(e)) for e in src["edges"]])
    shape = tuple(src["shape"])
    P = np.array([_yf(v) for v in src["vals"]], dtype=np.float64).reshape(shape)
    PW = None if src["ws"] is None else np.array([Fraction(w) for w in src["ws"]]).astype(np.int64 if src["wk"] == "int64" else np.float64).reshape(shape)
    keep, perm = src["keep"], src["perm"]
    has_nan = bool(np.isnan(P).any())
    empty = lambda: Histogram1D(binning=static_binning(bins=E.copy()), keep_missed=keep)
    hists, log = {}, []
    cuts = [0] + [c for c in src["cuts"] if 0 < c < shape[0]] + [shape[0]]

    def attempt(name, fn):
        try:
            with warnings.catch_warnings():
                warnings.simplefilter("ignore")
                hists[name] = _x_snap(fn())
        except Exception as ex:
            hists[name] = None
            log.append(f"{name}: {type(ex).__name__}: {ex}"[:300])

    def one_by_one():
        h = empty()
        for k in src["order"]:
            v = float(P.flat[k])
            if PW is None:
                h.fill(v)
            else:
                h.fill(v, weight=PW.flat[k].item())
        return h
    attempt("fill one pair (values.flat[k], weights.flat[k]) at a time", one_by_one)
    for vl in Y_VLAYOUTS:
        V = _y_layout(np, P, vl, perm)
        assert np.array_equal(np.asarray(V), P, equal_nan=True)
        for wl in (Y_WLAYOUTS if PW is not None else ["none"]):
            W = None if PW is None else _y_layout(np, PW, vl if wl == "as_values" else wl, perm)
            assert W is None or np.array_equal(np.asarray(W), PW)
            for dn in ((True,) if has_nan else (True, False)):
                tag = f"values {vl}, weights {wl}, dropna={dn}"

                def at_once():
                    h = empty()
                    h.fill_n(V, weights=W, dropna=dn)
                    return h

                def slabs():
                    h = empty()
                    for a, b in zip(cuts, cuts[1:]):
                        h.fill_n(V[a:b], weights=None if W is None else W[a:b], dropna=dn)
                    return h
                attempt(f"fill_n at once ({tag})", at_once)
                if len(cuts) > 2:
                    attempt(f"fill_n in slabs {cuts} ({tag})", slabs)
                attempt(f"h1 ({tag})", lambda: physt.h1(V, E.copy(), weights=W, dropna=dn, keep_missed=keep))
    return {"outs": [], "log": log, "x": {"hists": hists, "steps": []}}


def _y_exact(places, key, sq=False):
    return sum(((w * w if sq else w) for w in places.get(key, [])), Fraction(0))


def y_oracle_layouts(case, io):
    src, H = case["src"], io["x"]["hists"]
    if io["log"]:
        return [f"refused_valid: a valid call was refused (table {src['shape']}): " + io["log"][0]]
    pairs = [(Fraction(a), Fraction(b)) for a, b in zip(src["edges"], src["edges"][1:])]
    nb = len(pairs)
    ws = [Fraction(1)] * len(src["vals"]) if src["ws"] is None else [Fraction(w) for w in src["ws"]]
    places = {}
    for v, w in zip(src["vals"], ws):
        if v is not None:
            places.setdefault(region1(pairs, Fraction(v)), []).append(w)
    ref_name = "fill one pair (values.flat[k], weights.flat[k]) at a time"
    ref = H.get(ref_name) or {}
    fails = []
    for name, s in H.items():
        for f, sq in (("freq", False), ("err2", True)):
            exp = [rs(_y_exact(places, i, sq)) for i in range(nb)]
            if [rs(Fraction(v)) for v in s[f]] != exp:
                fails.append(f"paths_{f}: {name} of the {'x'.join(map(str, src['shape']))} table gives {s[f]}; entering the pairs "
                             f"(values.flat[k], weights.flat[k]) one at a time gives {ref.get(f)}, the exact sums per bin are {exp}")
        for f, k in (("under", -1), ("over", nb)):
            got = s.get(f)
            if s["keep"]:
                if got is None or Fraction(got) != _y_exact(places, k):
                    fails.append(f"paths_{f}: {name} gives {f}flow {got}; one pair at a time gives {ref.get(f)}, the exact weight there "
                                 f"is {rs(_y_exact(places, k))}")
            elif got is not None and Fraction(got) != 0:
                fails.append(f"keep_off_missed: {name} reports keep_missed=False and {f}flow {got}")
        if len(fails) >= 4:
            break
    return fails[:4]


def y_oracle_inf(case, io):
    src, x = case["src"], io["x"]
    if io["log"]:
        return [f"refused_valid: a valid call was refused (route {src['route']}, keep_missed={src['keep']}): " + io["log"][0]]
    H = x["hists"]
    one_d = len(src["edges"]) == 1
    axes = [[(Fraction(a), Fraction(b)) for a, b in zip(ax, ax[1:])] for ax in src["edges"]]
    ws = [Fraction(1)] * len(src["rows"]) if src["ws"] is None else [Fraction(w) for w in src["ws"]]

    def place(row):
        """None: dropped (a NaN in the row); (i, ...) the cell; "under" / "over" (1-D) or "missed" (N-d)"""
        if any(v is None for v in row):
            return None
        reg = [region1(p, _yx(v)) for p, v in zip(axes, row)]
        if one_d:
            return "under" if reg[0] == -1 else ("over" if reg[0] == len(axes[0]) else (reg[0],))
        return tuple(reg) if all(0 <= r < len(p) for r, p in zip(reg, axes)) else "missed"
    places = {}
    for row, w in zip(src["rows"], ws):
        k = place(row)
        if k is not None:
            places.setdefault(k, []).append(w)
    from .. import gennd
    fails = []
    shown = lambda f: [(m, t.get(f)) for m, t in H.items()][:7]
    for name, s in H.items():
        if name == "created without data":
            continue
        cells = gennd.unravel(s["shape"])
        for f, sq in (("freq", False), ("err2", True)):
            exp = [rs(_y_exact(places, c, sq)) for c in cells]
            if [rs(Fraction(v)) if v is not None else None for v in s[f]] != exp:
                fails.append(f"paths_{f}: {name} (route {src['route']}) gives {s[f]}, the exact sums per bin are {exp}")
        for f in (("under", "over") if one_d else ("missed",)):
            got = s.get(f)
            if s["keep"]:
                if got is None or Fraction(got) != _y_exact(places, f):
                    fails.append(f"paths_{f}: {name} (route {src['route']}) reports {f}={got}; the weight of the rows outside the bins "
                                 f"(rows with a NaN dropped, infinite entries are outside) is {rs(_y_exact(places, f))}; all paths: {shown(f)}")
            elif got is not None and Fraction(got) != 0:
                fails.append(f"keep_off_missed: {name} (route {src['route']}) reports keep_missed=False and {f}={got}")
    flags = {s["keep"] for s in H.values()}
    if len(flags) > 1:
        fails.append(f"paths_keep: the same route with keep_missed={src['keep']} reports different keep_missed flags: "
                     f"{[(m, s['keep']) for m, s in H.items()]}")
    for st in x["steps"]:
        row = src["rows"][st["i"]]
        k = place(row)
        b, a, fd = st["before"], st["after"], st.get("find")
        if k is None:
            if a != b:
                fails.append(f"fill_nan: fill({row}) (a NaN in it) changed the histogram: {b} -> {a}")
            continue
        if fd is not None and fd["after"] != b:
            fails.append(f"find_bin_mutates: find_bin({row}) changed the histogram")
        if one_d:
            exp = {"under": -1, "over": len(axes[0])}.get(k, k[0] if isinstance(k, tuple) else None)
        else:
            exp = list(k) if isinstance(k, tuple) else None
        if fd is not None and fd["ret"] != exp:
            fails.append(f"find_bin_index: find_bin({row}) = {fd['ret']}, expected {exp}")
        if st["ret"] != exp:
            fails.append(f"fill_ret: fill({row}) returned {st['ret']}, expected {exp}")
        if not isinstance(k, tuple) and not b["keep"] and a != b:
            fails.append(f"keep_off_changed: fill({row}) outside the bins changed a histogram that reports keep_missed=False: {b} -> {a}")
    return fails[:6]


def _c03y_patch():
    base = {k: getattr(C03, k) for k in ("gen_case", "run_impl", "oracle", "shrink_candidates")}
    isy = lambda case: case.get("kind") == "c03x" and case["src"].get("stream") in ("layouts", "inf")

    def gen_case(self, rng, k, tier):
        slot = Y_SLOTS.get(k % Y_EVERY)
        if slot == "layouts" and ENABLE_MD_LAYOUTS:
            return y_gen_layouts(rng)
        if slot == "inf" and ENABLE_INF_VALUES:
            return y_gen_inf(rng)
        return base["gen_case"](self, rng, k, tier)

    def run_impl(self, case):
        if isy(case):
            return y_run_layouts(case["src"]) if case["src"]["stream"] == "layouts" else x_run_keepoff(case["src"])
        return base["run_impl"](self, case)

    def oracle(self, case, io):
        if isy(case):
            return y_oracle_layouts(case, io) if case["src"]["stream"] == "layouts" else y_oracle_inf(case, io)
        return base["oracle"](self, case, io)

    def shrink_candidates(self, case):
        if not isy(case):
            yield from base["shrink_candidates"](self, case)
            return
        import copy
        src = case["src"]
        if src["stream"] == "inf":
            n = len(src["rows"])
            for i in range(n):
                if n <= 1:
                    break
                s2 = copy.deepcopy(src)
                del s2["rows"][i]
                if s2["ws"] is not None:
                    del s2["ws"][i]
                ren = lambda j: j if j < i else j - 1
                s2["order"] = [ren(j) for j in s2["order"] if j != i]
                s2["batches"] = [[ren(j) for j in bt if j != i] for bt in s2["batches"]]
                s2["pre"] = min(s2["pre"], n - 1)
                yield y_build(s2)
            return
        # a table: remove one slab along one axis (the table stays multi-dimensional: an axis of length 1 is kept)
        import numpy as np
        shape = tuple(src["shape"])
        V = np.empty(len(src["vals"]), dtype=object); V[:] = src["vals"]; V = V.reshape(shape)
        W = None
        if src["ws"] is not None:
            W = np.empty(len(src["ws"]), dtype=object); W[:] = src["ws"]; W = W.reshape(shape)
        for ax in range(len(shape)):
            for i in range(shape[ax]):
                if shape[ax] <= 1:
                    break
                s2 = copy.deepcopy(src)
                v2 = np.delete(V, i, axis=ax)
                s2["shape"] = list(v2.shape)
                s2["vals"] = v2.ravel().tolist()
                if W is not None:
                    s2["ws"] = np.delete(W, i, axis=ax).ravel().tolist()
                s2["order"] = list(range(len(s2["vals"])))
                s2["cuts"] = sorted({c for c in s2["cuts"] if 0 < c < s2["shape"][0]})
                yield y_build(s2)

    for name, fn in (("gen_case", gen_case), ("run_impl", run_impl), ("oracle", oracle), ("shrink_candidates", shrink_candidates)):
        setattr(C03, name, fn)
    C03.RULE = C03.RULE.replace(
        "non-trivial = some value inside a bin",
        "two of every 16 cases (library only): stream:md_layouts -- a 2-D / 3-D table of values with all-different weights of the same "
        "shape into a 1-D histogram by fill_n (at once, in slabs) and h1, values C / Fortran / permuted axes / strided / reversed "
        "view / nested list, weights C / Fortran / nested list / as the values, dropna on and (no NaN) off: every call = the pairs "
        "(values.flat[k], weights.flat[k]) entered one at a time = the exact sums; stream:inf_values -- +inf / -inf entries (one "
        "sign, both signs in a row, beside finite / NaN, only infinities), d = 1..3, static bins, through h1 / h / h2 / h3 / the "
        "constructors, find_bin + fill, fill_n in batches / at once / row by row / after a first chunk: only NaN rows are dropped, "
        "an infinite value is underflow / overflow (1-D) or missed (N-d) with its weight on every path, fill and find_bin return "
        "-1 / bin count / None for it. non-trivial = some value inside a bin")


_c03y_patch()
PROP = C03()

"""C17 — every supported input container gives the same histogram as its array."""
from __future__ import annotations

import copy
import os
import warnings
from fractions import Fraction

import numpy as np

from .. import gen1, gennd, impl1, implnd
from ..core import nrs, rs
from ..runner import diff_outputs

warnings.simplefilter("ignore")

F1 = ("bins", "freq", "err2", "under", "over", "dtype")
FN = ("bins", "freq", "err2", "missed", "shape", "dtype")


def s1(h):
    s = impl1.snap1(h)
    d = {k: s[k] for k in F1}
    d["axis_name"] = str(h.axis_name)
    return d


def sn(h):
    s = implnd.snapn(h)
    d = {k: s[k] for k in FN}
    d["names"] = s["names"]
    return d


class C17:
    ID = "C17"
    N_QUICK = 120
    N_THOROUGH = 2500
    N_SEARCH = 120
    RULE = ("one numeric data set (with / without NaN, weights absent / int / float, 1-D or (n, d) with d = 2..3) over explicit bins, "
            "entered as numpy array (reference), list, tuple, iterator, 2-D / 3-D C- and Fortran-ordered arrays, pandas Series "
            "(named) and .physt accessor, pandas DataFrame and accessors (h1 / h2 / histogram, weights as column), polars Series / "
            "DataFrame, dask arrays in chunkings {1, 3, 7, n} (adaptive fixed-width bins), weights as list / Series; refused "
            "inputs (non-numeric, nulls, DataFrame to h1, Series to h, scalar, wrong shape); conversions to / from xarray, pandas "
            "Series / DataFrame / IntervalIndex (gapped bins too) and the two Geant4 CSV files. non-trivial = at least one entry "
            "inside a bin and one NaN or weight; distinct = case hash")
    EXTRA_TRUST = ["pandas, polars, dask and xarray conversions are exercised, not modelled"]
    ASSUMPTIONS = ["the reference is physt's own result on the equivalent numpy array, itself tied to the model by C01 / C02"]

    def gen_case(self, rng, k, tier):
        d = rng.choice([1, 1, 2, 3])
        n = rng.choice([2, 5, 9, 16, 30])
        if d == 1:
            pairs, t = gen1.rising_bins(rng)
            vals = gen1.values_for(rng, pairs, n, nan_share=rng.choice([0, 0.15]))
            data = vals
            binning = [gen1.binning_json(pairs, form="static_obj")]
        else:
            axes = [gennd.axis_binning(rng, maxbins=3, allow_fixed=False) for _ in range(d)]
            data = gennd.rows_for(rng, [a[1] for a in axes], n, nan_share=rng.choice([0, 0.2]))
            binning = [a[0] for a in axes]
        ws, wk = gen1.weights_for(rng, n, kinds=["none", "none", "int", "dyadic"])
        return {"kind": "containers", "d": d, "binning": binning, "data": data if d > 1 else [[v] for v in data],
                "weights": ws, "wkind": wk, "names": [f"col{i}" for i in range(d)], "dropna": rng.random() < 0.85,
                "tags": [f"d:{d}"]}

    # ------------------------------------------------------------------
    def run_impl(self, case):
        import dask.array as da
        import pandas as pd
        import polars as pl
        import physt
        from physt import h, h1, h2, h3
        from physt.compat import dask as pdask
        d = case["d"]
        A = np.array([[np.nan if v is None else v for v in r] for r in case["data"]], dtype=float)
        ws = None if case["weights"] is None else np.array(case["weights"], dtype=case["wkind"])
        names = case["names"]
        dropna = case["dropna"]
        out = {"results": {}, "refusals": {}}
        log = []
        bins = [impl1.mk_binning(b) for b in case["binning"]]

        def rec(name, f, snap):
            try:
                out["results"][name] = snap(f())
            except Exception as e:
                out["results"][name] = "REFUSED"
                log.append(f"{name}: {type(e).__name__}: {e}"[:160])

        def mkb():
            return [impl1.mk_binning(b) for b in case["binning"]]
        if d == 1:
            x = A[:, 0]
            kw = dict(dropna=dropna)
            rec("array", lambda: h1(x, mkb()[0], weights=ws, **kw), s1)
            rec("list", lambda: h1(x.tolist(), mkb()[0], weights=None if ws is None else ws.tolist(), **kw), s1)
            rec("tuple", lambda: h1(tuple(x.tolist()), mkb()[0], weights=ws, **kw), s1)
            rec("iterator", lambda: h1(iter(x.tolist()), mkb()[0], weights=ws, **kw), s1)
            n = len(x)
            if n % 2 == 0 and n >= 4:
                x2 = x.reshape(2, n // 2)
                w2 = None if ws is None else ws.reshape(2, n // 2)
                rec("array2d", lambda: h1(x2, mkb()[0], weights=w2, **kw), s1)
                rec("array2d_F", lambda: h1(np.asfortranarray(x2), mkb()[0], weights=None if w2 is None else np.asfortranarray(w2), **kw), s1)
                rec("array2d_T", lambda: h1(x2.T.copy().T, mkb()[0], weights=w2, **kw), s1)
            ser = pd.Series(x, name=names[0])
            rec("pandas_series", lambda: h1(ser, mkb()[0], weights=ws, **kw), s1)
            rec("pandas_accessor", lambda: ser.physt.h1(mkb()[0], weights=ws, **kw), s1)
            rec("pandas_series_weights", lambda: h1(ser, mkb()[0], weights=None if ws is None else pd.Series(ws), **kw), s1)
            df = pd.DataFrame({names[0]: x, "w": np.ones(n) if ws is None else ws})
            rec("pandas_df_accessor", lambda: df.physt.h1(names[0], mkb()[0], weights=None if ws is None else "w", **kw), s1)
            rec("explicit_axis_name", lambda: h1(ser, mkb()[0], weights=ws, axis_name="given", **kw), s1)
            if not np.isnan(x).any():
                pser = pl.Series(names[0], x)
                rec("polars_series", lambda: h1(pser, mkb()[0], weights=ws, **kw), s1)
            else:
                pser = pl.Series(names[0], x)   # NaN (not null) entries are dropped like in numpy
                rec("polars_series", lambda: h1(pser, mkb()[0], weights=ws, **kw), s1)
            # dask: adaptive fixed-width bins, several chunkings
            finite = x[~np.isnan(x)]
            finite = finite[np.abs(finite) < 200]      # far outliers would need millions of adaptive bins
            if len(finite) >= 2:
                w = 0.5
                ref = h1(finite, "fixed_width", bin_width=w, adaptive=True)
                out["dask_ref"] = s1(ref)
                for ch in sorted({1, 3, 7, len(finite)}):
                    darr = da.from_array(finite, chunks=ch)
                    rec(f"dask_chunks_{ch}", lambda: pdask.h1(darr, "fixed_width", bin_width=w), s1)
            # refusals
            for name, f in (("df_to_h1", lambda: h1(df, mkb()[0])), ("scalar", lambda: h1(5.0, mkb()[0])),
                            ("strings", lambda: h1(pd.Series(["a", "b"]), mkb()[0])),
                            ("object_list", lambda: h1(["a", "b"], mkb()[0])),
                            ("nan_no_dropna", (lambda: h1(np.array([1.0, np.nan]), mkb()[0], dropna=False))),
                            ("polars_null", lambda: h1(pl.Series("x", [1.0, None]), mkb()[0])),
                            ("weights_wrong_len", lambda: h1(x, mkb()[0], weights=np.ones(n + 1)))):
                try:
                    f(); out["refusals"][name] = "accepted"
                except Exception:
                    out["refusals"][name] = "REFUSED"
            # conversions
            rec("ref_hist", lambda: h1(x, mkb()[0], weights=ws, name="hname", **kw), s1)
            try:
                hh = h1(x, mkb()[0], weights=ws, name="hname", dropna=True)
                import physt.compat.xarray  # noqa: F401
                import physt.compat.pandas as pc
                from physt.histogram1d import Histogram1D
                back = Histogram1D.from_xarray(hh.to_xarray())
                out["xarray_roundtrip"] = [s1(hh), s1(back)]
                idx = pc.binning_to_index(hh.binning)
                b2 = pc.index_to_binning(idx)
                out["index_roundtrip"] = [[[rs(l), rs(r)] for l, r in hh.bins], [[rs(l), rs(r)] for l, r in b2.bins]]
                ser2 = hh.to_series(); dfr = hh.to_dataframe()
                out["series_values"] = [[nrs(v) for v in ser2.values], [[rs(i.left), rs(i.right)] for i in ser2.index]]
                out["df_values"] = [[nrs(v) for v in dfr["frequency"].values], [nrs(v * v) for v in dfr["error"].values],
                                    [[rs(i.left), rs(i.right)] for i in dfr.index]]
            except Exception as e:
                out["conversion_error"] = f"{type(e).__name__}: {e}"[:200]
        else:
            kw = dict(dropna=dropna)
            rec("array", lambda: h(A, mkb(), weights=ws, **kw), sn)
            rec("list", lambda: h(A.tolist(), mkb(), weights=ws, **kw), sn)
            rec("array_F", lambda: h(np.asfortranarray(A), mkb(), weights=ws, **kw), sn)
            df = pd.DataFrame(A, columns=names)
            rec("pandas_df", lambda: h(df, mkb(), weights=ws, **kw), sn)
            rec("pandas_df_accessor", lambda: df.physt.histogram(None, mkb(), weights=ws, **kw), sn)
            pdf = pl.DataFrame({nm: A[:, i] for i, nm in enumerate(names)})
            rec("polars_df", lambda: h(pdf, mkb(), weights=ws, **kw), sn)
            rec("explicit_names", lambda: h(df, mkb(), weights=ws, axis_names=[f"g{i}" for i in range(d)], **kw), sn)
            if d == 2:
                rec("h2_columns", lambda: h2(A[:, 0], A[:, 1], mkb(), weights=ws, **kw), sn)
                rec("h2_series", lambda: h2(df[names[0]], df[names[1]], mkb(), weights=ws, **kw), sn)
                rec("h2_F_columns", lambda: h2(np.asfortranarray(A[:, 0].reshape(2, -1)) if len(A) % 2 == 0 and len(A) >= 4 else A[:, 0],
                                               A[:, 1].reshape(2, -1) if len(A) % 2 == 0 and len(A) >= 4 else A[:, 1], mkb(), weights=None,
                                               dropna=False) if not np.isnan(A).any() else h2(A[:, 0], A[:, 1], mkb(), weights=None), sn)
                rec("h2_ref_noweights", lambda: h2(A[:, 0], A[:, 1], mkb(), weights=None, dropna=not (not np.isnan(A).any())), sn)
                rec("df_h2_accessor", lambda: df.physt.h2(names[0], names[1], mkb(), weights=ws, **kw), sn)
            if d == 3:
                rec("h3", lambda: h3(A, mkb(), weights=ws, **kw), sn)
                rec("h3_columns", lambda: h3([A[:, 0], A[:, 1], A[:, 2]], mkb(), weights=ws, **kw), sn)
            for name, f in (("series_to_h", lambda: h(pd.Series([1.0, 2.0]), mkb())), ("one_d", lambda: h(np.array([1.0, 2.0]), mkb())),
                            ("strings_df", lambda: h(pd.DataFrame({"a": ["x", "y"], "b": [1.0, 2.0]}), 2)),
                            ("wrong_cols", lambda: h(np.zeros((3, d + 1)), mkb())),
                            ("weights_wrong_len", lambda: h(A, mkb(), weights=np.ones(len(A) + 1)))):
                try:
                    f(); out["refusals"][name] = "accepted"
                except Exception:
                    out["refusals"][name] = "REFUSED"
        return {"outs": out, "log": log}

    def model_case(self, case, io):
        ref = io["outs"]["results"].get("array")
        if ref == "REFUSED" or ref is None:
            return None
        ws = case["weights"]
        if case["d"] == 1:
            op = {"op": "construct", "out": 0, "binning": case["binning"][0], "data": [None if r[0] is None else rs(r[0]) for r in case["data"]],
                  "weights": None if ws is None else [rs(w) for w in ws], "wkind": case["wkind"], "dropna": case["dropna"]}
            return {"kind": "hist1", "ops": [op]}
        op = {"op": "construct", "out": 0, "axes": case["binning"], "rows": gennd.enc_rows(case["data"]),
              "weights": None if ws is None else [rs(w) for w in ws], "wkind": case["wkind"], "dropna": case["dropna"]}
        return {"kind": "histn", "ops": [op]}

    def diff(self, case, model_ok, io):
        ref = io["outs"]["results"]["array"]
        m = model_ok[0]["regs"][0] if model_ok[0]["regs"] else None
        if m is None:
            return ["model refused the reference call"]
        keys = ("bins", "freq", "err2", "dtype") + (("under", "over") if case["d"] == 1 else ("missed", "shape"))
        if case["d"] == 1:
            b = [(Fraction(l), Fraction(r)) for l, r in ref["bins"]]
            gaps = [b[i + 1][0] - b[i][1] for i in range(len(b) - 1)]
            if any(g > 0 for g in gaps) and all(g <= Fraction(1, 10**8) + Fraction(1, 10**5) * abs(b[i][1]) for i, g in enumerate(gaps)):
                keys = ("bins", "freq", "err2", "dtype")    # a gap below is_consecutive()'s tolerance
        d = []
        for k in keys:
            a, b = m[k], ref[k]
            if case["d"] == 1 and k == "bins":
                pass
            if a != b and not (isinstance(a, list) and k in ("freq", "err2") and [Fraction(x) for x in a] == [Fraction(x) for x in b]):
                d.append(f"reference.{k}: model={a} impl={b}")
        return d

    # ------------------------------------------------------------------
    def oracle(self, case, io):
        o = io["outs"]
        fails = []
        res = o["results"]
        ref = res.get("array")
        has_nan = any(v is None for r in case["data"] for v in r)
        must_refuse_ref = has_nan and not case["dropna"]
        if ref == "REFUSED":
            if not must_refuse_ref:
                fails.append("refused_valid: the reference array call was refused: " + "; ".join(io["log"][:1]))
            return fails
        if must_refuse_ref:
            fails.append("accepted_invalid: NaN accepted with dropna=False")
        fields = F1 if case["d"] == 1 else FN
        for name, r in res.items():
            if name in ("array", "explicit_axis_name", "explicit_names", "ref_hist", "h2_F_columns", "h2_ref_noweights") or name.startswith("dask"):
                continue
            if r == "REFUSED":
                fails.append(f"container_refused: {name} was refused although the array is accepted: " + "; ".join(l for l in io["log"] if l.startswith(name))[:200])
                continue
            for f in fields:
                if r[f] != ref[f]:
                    fails.append(f"container_differs: {name}: {f} = {r[f]}, the numpy array gives {ref[f]}")
                    break
        # axis names
        if case["d"] == 1:
            for name in ("pandas_series", "pandas_accessor", "polars_series", "pandas_df_accessor"):
                r = res.get(name)
                if isinstance(r, dict) and r["axis_name"] != case["names"][0]:
                    fails.append(f"axis_name: {name} has axis name {r['axis_name']!r}, the Series is named {case['names'][0]!r}")
            r = res.get("explicit_axis_name")
            if isinstance(r, dict) and r["axis_name"] != "given":
                fails.append(f"axis_name_explicit: explicit axis_name ignored ({r['axis_name']!r})")
            if "dask_ref" in o:
                for name, r in res.items():
                    if name.startswith("dask"):
                        if r == "REFUSED":
                            fails.append(f"dask_refused: {name}: " + "; ".join(l for l in io["log"] if l.startswith(name))[:160])
                        elif any(r[f] != o["dask_ref"][f] for f in ("bins", "freq", "err2", "under", "over")):
                            fails.append(f"dask_differs: {name} gives {r['freq']} over {len(r['bins'])} bins, the whole array gives {o['dask_ref']['freq']}")
        else:
            for name in ("pandas_df", "pandas_df_accessor", "polars_df", "h2_series", "df_h2_accessor"):
                r = res.get(name)
                if isinstance(r, dict) and r["names"] != case["names"]:
                    fails.append(f"axis_names: {name} has names {r['names']}, the columns are {case['names']}")
            r = res.get("explicit_names")
            if isinstance(r, dict) and r["names"] != [f"g{i}" for i in range(case["d"])]:
                fails.append("axis_names_explicit: explicit axis_names ignored")
            a, b = res.get("h2_F_columns"), res.get("h2_ref_noweights")
            if isinstance(a, dict) and isinstance(b, dict) and any(a[f] != b[f] for f in ("freq", "err2", "missed")):
                fails.append(f"column_alignment: h2 of differently laid-out (Fortran / C ordered) columns gives {a['freq']}, expected {b['freq']}")
        for name, r in o["refusals"].items():
            if r != "REFUSED":
                fails.append(f"accepted_invalid: {name} was accepted")
        if "conversion_error" in o:
            fails.append("conversion_error: " + o["conversion_error"])
        if "xarray_roundtrip" in o:
            a, b = o["xarray_roundtrip"]
            for f in ("bins", "freq", "err2", "under", "over"):
                if a[f] != b[f]:
                    fails.append(f"xarray_roundtrip: {f}: {a[f]} -> {b[f]}")
            a, b = o["index_roundtrip"]
            if a != b:
                fails.append(f"interval_index_roundtrip: bins {a} -> {b}")
            vals, idx = o["series_values"]
            h0 = res["ref_hist"] if isinstance(res.get("ref_hist"), dict) else None
            if h0 is not None and case["dropna"]:
                if [Fraction(x) for x in vals] != [Fraction(x) for x in h0["freq"]] or idx != h0["bins"]:
                    fails.append("to_series: values / index differ from frequencies / bins")
                fv, ev, di = o["df_values"]
                if [Fraction(x) for x in fv] != [Fraction(x) for x in h0["freq"]] or di != h0["bins"]:
                    fails.append("to_dataframe: frequency / index differ from frequencies / bins")
                if any(abs(Fraction(x) - Fraction(y)) > Fraction(1, 10**9) * (1 + abs(Fraction(y))) for x, y in zip(ev, h0["err2"])):
                    fails.append("to_dataframe: error**2 differs from errors2")
        return fails[:6]

    def exhaustive_cases(self, tier):
        yield {"kind": "geant4", "tags": ["geant4"]}

    def nontrivial(self, case, io):
        if case["kind"] == "geant4":
            return True
        r = io["outs"]["results"].get("array")
        return isinstance(r, dict) and any(Fraction(x) != 0 for x in r["freq"])

    def tags(self, case, io):
        if case["kind"] == "geant4":
            return ["geant4"]
        return list(case["tags"]) + [f"containers:{len(io['outs']['results'])}"] + (["weights"] if case["weights"] else [])

    def matches_known(self, finding, case):
        return False

    def neighbours(self, case):
        return []

    def shrink_candidates(self, case):
        if case["kind"] != "containers":
            return
        for j in range(len(case["data"])):
            if len(case["data"]) <= 2:
                break
            c = copy.deepcopy(case)
            del c["data"][j]
            if c["weights"] is not None:
                del c["weights"][j]
            yield c


class C17G(C17):
    """adds the Geant4 pseudo-case handling"""

    def run_impl(self, case):
        if case["kind"] != "geant4":
            return super().run_impl(case)
        from physt.compat.geant4 import load_csv
        base = "/repo/tests/data"
        out = {}
        for name in ("geant-h1.csv", "geant-h2.csv"):
            p = os.path.join(base, name)
            if not os.path.exists(p):
                out[name] = "missing"
                continue
            raw = []
            meta = []
            for line in open(p, encoding="ascii"):
                if line.startswith("#"):
                    meta.append(line[1:].strip().split(" ", 1))
                else:
                    try:
                        raw.append([float(x) for x in line.split(",")])
                    except Exception:
                        pass
            h = load_csv(p)
            out[name] = {"freq": [nrs(x) for x in np.asarray(h.frequencies).ravel()], "err2": [nrs(x) for x in np.asarray(h.errors2).ravel()],
                         "shape": list(np.asarray(h.frequencies).shape), "raw": raw, "axes": [m[1] for m in meta if m[0] == "axis"],
                         "edges": [[nrs(b[0][0]), nrs(b[-1][1]), len(b)] for b in ([h.bins] if h.ndim == 1 else h.bins)],
                         "under_over": [nrs(h.underflow), nrs(h.overflow)] if h.ndim == 1 else None}
        return {"outs": out, "log": []}

    def model_case(self, case, io):
        if case["kind"] == "geant4":
            return None
        return super().model_case(case, io)

    def oracle(self, case, io):
        if case["kind"] != "geant4":
            return super().oracle(case, io)
        fails = []
        for name, o in io["outs"].items():
            if o == "missing":
                continue
            raw = np.array(o["raw"])
            axes = [a.split() for a in o["axes"]]
            shape = [int(a[1]) for a in axes]
            if o["shape"] != shape:
                fails.append(f"geant4_shape: {name}: {o['shape']} != {shape}")
                continue
            full = raw[:, 1].reshape([s + 2 for s in shape])
            full2 = raw[:, 2].reshape([s + 2 for s in shape])
            inner = full[tuple(slice(1, -1) for _ in shape)]
            inner2 = full2[tuple(slice(1, -1) for _ in shape)]
            if [float(Fraction(x)) for x in o["freq"]] != list(inner.ravel()):
                fails.append(f"geant4_contents: {name}: contents differ from the file")
            if [float(Fraction(x)) for x in o["err2"]] != list(inner2.ravel()):
                fails.append(f"geant4_errors: {name}: errors differ from the file")
            for (lo, hi, cnt), a in zip(o["edges"], axes):
                if cnt != int(a[1]) or abs(float(Fraction(lo)) - float(a[2])) > 1e-9 or abs(float(Fraction(hi)) - float(a[3])) > 1e-9:
                    fails.append(f"geant4_bins: {name}: axis {a} read as {lo}..{hi} in {cnt} bins")
            if o["under_over"] is not None:
                if float(Fraction(o["under_over"][0])) != full[0] or float(Fraction(o["under_over"][1])) != full[-1]:
                    fails.append(f"geant4_missed: {name}: underflow / overflow differ from the file")
        return fails


PROP = C17G()

"""C17 — every supported input container gives the same histogram as its array."""
from __future__ import annotations

import copy
import json
import os
import warnings
from fractions import Fraction

import numpy as np

from .. import gen1, gennd, impl1, implnd
from ..core import nrs, rs
from ..runner import diff_outputs

warnings.simplefilter("ignore")

F1 = ("bins", "freq", "err2", "under", "over", "dtype")
FN = ("bins", "freq", "err2", "missed", "shape", "dtype")

# Three inputs on which the library deviated from the property when this module was extended (all repaired since):
#   tuple_form_args     h1((name, values), bins, weights=..., dropna=..., axis_name=...): the named arguments were dropped
#   polars_int_weights  integer weights given as a polars Series gave a float64 histogram (int64 for the numpy array)
#   dask_all_nan_chunk  a 1-D dask array one of whose chunks holds only NaN was refused by the dask facade
# The oracle treats them like everything else; each is a *generator* switch, so that a tree in which one of them is still
# (or again) broken can be checked for everything else. All are generated unless named in SKIPPED_BY_DEFAULT; for one run
#   VERIF_C17_SKIP=tuple_form_args,dask_all_nan_chunk   leaves triggers out     (1 / all: all three)
#   VERIF_C17_OPEN=polars_int_weights                   puts skipped ones back  (1 / all: all three)
# The switches in force are stored in the case ("open"), so a replay does what the run did.
FINDING_TRIGGERS = ("tuple_form_args", "polars_int_weights", "dask_all_nan_chunk")
SKIPPED_BY_DEFAULT: frozenset = frozenset()


def _names(env: str) -> set:
    v = os.environ.get(env, "").strip()
    if v in ("1", "all"):
        return set(FINDING_TRIGGERS)
    return {t.strip() for t in v.split(",") if t.strip() in FINDING_TRIGGERS}


def open_triggers() -> list:
    skipped = (set(SKIPPED_BY_DEFAULT) | _names("VERIF_C17_SKIP")) - _names("VERIF_C17_OPEN")
    return sorted(set(FINDING_TRIGGERS) - skipped)


def s1(h):
    s = impl1.snap1(h)
    d = {k: s[k] for k in F1}
    d["axis_name"] = str(h.axis_name)
    return d


def sn(h):
    s = implnd.snapn(h)
    d = {k: s[k] for k in FN}
    d["names"] = s["names"]
    return d


def sany(h):
    """snapshot of whatever dimension came back (the polars frame namespace returns 1-D or N-D)"""
    return s1(h) if getattr(h, "ndim", 0) == 1 else sn(h)


def partition(rng, n):
    """a random split of n rows into chunk sizes >= 1"""
    parts, left = [], n
    while left > 0:
        c = rng.randint(1, max(1, min(left, rng.choice([1, 2, 4, 9]))))
        parts.append(c)
        left -= c
    return parts


def merge_all_nan_chunks(parts, isnan):
    """join every chunk that holds only NaN entries to a neighbour (isnan: one flag per row)"""
    parts = list(parts)
    changed = True
    while changed and len(parts) > 1:
        changed = False
        pos = 0
        for i, c in enumerate(parts):
            if all(isnan[pos:pos + c]):
                j = i + 1 if i + 1 < len(parts) else i - 1
                lo, hi = min(i, j), max(i, j)
                parts[lo:hi + 1] = [parts[lo] + parts[hi]]
                changed = True
                break
            pos += c
    return parts


def drop_row_from_partition(parts, j):
    """the partition after row j has been deleted"""
    out, pos = [], 0
    for c in parts:
        out.append(c - 1 if pos <= j < pos + c else c)
        pos += c
    return [c for c, orig in zip(out, parts) if c > 0 or orig == 0]


def apply_change(rows, ws, ch):
    """one in-place change of a 'mutate' case on the expected content (plain python lists); False: does not apply"""
    if ch["op"] == "set":
        if ch["at"] >= len(rows):
            return False
        rows[ch["at"]] = list(ch["rows"][0])
        if ws is not None:
            ws[ch["at"]] = ch["ws"][0]
    else:
        rows.extend(list(r) for r in ch["rows"])
        if ws is not None:
            ws.extend(ch["ws"])
    return True


def final_content(case):
    """(rows, weights) of a 'mutate' case after all its changes (the growable containers take every one of them)"""
    rows = [list(r) for r in case["data"]]
    ws = None if case["weights"] is None else list(case["weights"])
    for ch in case["changes"]:
        apply_change(rows, ws, ch)
    return rows, ws


# ---- labelled containers: labels that are not 0..n-1 in order
# A label specification is plain JSON: {"kind": "range" | "reversed"} (determined by the length), {"kind": "offset", "start": s}
# (RangeIndex(s, s + n)), or {"kind": k, "labels": [...]} with k = shuffled / gaps / float / strings / dup (a pandas Index of the
# labels), multi (a MultiIndex of the (int, str) pairs), datetime (2024-01-01 + that many days).
LABEL_KINDS = ("range", "reversed", "offset", "shuffled", "gaps", "strings", "dup", "multi", "datetime", "float")
ENABLE_LABELLED = True      # the whole stream


def gen_labels(rng, kind, n):
    if kind in ("range", "reversed"):
        return {"kind": kind}
    if kind == "offset":
        return {"kind": kind, "start": rng.choice([1, 10, 100, -5])}
    if kind == "shuffled":
        labels = list(range(n))
        while n > 1 and labels == list(range(n)):
            rng.shuffle(labels)
    elif kind == "gaps":          # what is left of a longer frame after a filter
        labels = sorted(rng.sample(range(3 * n + 2), n))
    elif kind == "float":
        labels = [v / 2 for v in rng.sample(range(-n, 2 * n), n)]
    elif kind == "strings":
        labels = [f"r{i}" for i in range(n)]
        rng.shuffle(labels)
    elif kind == "dup":
        labels = [rng.randrange(max(1, n // 2)) for _ in range(n)]
        if n > 1:
            labels[rng.randrange(1, n)] = labels[0]
    elif kind == "multi":
        labels = [[i // 3, "abc"[i % 3]] for i in range(n)]
        rng.shuffle(labels)
    elif kind == "datetime":
        labels = rng.sample(range(3 * n + 2), n)
    else:
        raise ValueError(kind)
    return {"kind": kind, "labels": labels}


def explicit_labels(spec, n):
    """(kind, labels) of a specification with the labels written out"""
    k = spec["kind"]
    if k == "range":
        return "shuffled", list(range(n))
    if k == "reversed":
        return "shuffled", list(range(n - 1, -1, -1))
    if k == "offset":
        return "gaps", list(range(spec["start"], spec["start"] + n))
    return k, list(spec["labels"])


def build_index(spec, n, name=None):
    import pandas as pd
    k = spec["kind"]
    if k == "range":
        ix = pd.RangeIndex(n)
    elif k == "reversed":
        ix = pd.RangeIndex(n - 1, -1, -1)
    elif k == "offset":
        ix = pd.RangeIndex(spec["start"], spec["start"] + n)
    elif k == "multi":
        return pd.MultiIndex.from_tuples([tuple(l) for l in spec["labels"]], names=["g", "k"])
    elif k == "datetime":
        ix = pd.DatetimeIndex([pd.Timestamp("2024-01-01") + pd.Timedelta(days=int(v)) for v in spec["labels"]])
    else:
        ix = pd.Index(list(spec["labels"]))
    if len(ix) != n:
        raise AssertionError(f"harness: {len(ix)} labels for {n} rows")
    return ix if name is None else ix.rename(name)


def drop_label(spec, j):
    if "labels" in spec:
        del spec["labels"][j]


# ---- non-finite entries that are not NaN (stream:nonfinite) and weights of the right size but another shape (stream:wshape)
# A value of a 'nonfinite' case is a float, None (NaN), "inf" or "-inf" (plain JSON). HUGE + HUGE overflows to inf.
ENABLE_NONFINITE = True     # the whole stream:nonfinite
ENABLE_WSHAPE = True        # the whole stream:wshape
# The library compares the shape of the weights with the shape of the NaN mask, and there is a mask only when dropna=True: with
# dropna=False it flattens data and weights, so weights of the right size and ANY shape are taken (also the transposed weights
# of a 2-D data array, paired in flattened order). "wrongly shaped inputs are refused" read strictly wants these refused as well;
# the unchanged library does not, so the clause is off (the other clauses -- every container does what the numpy array does, an
# accepted call with weights that have one non-unit axis pairs by position -- hold and are checked with dropna=False too).
PIN_REFUSAL_WITHOUT_DROPNA = False
HUGE = 1.5e308
NONFINITE_FLAVOURS = ("both", "pinf", "ninf", "inf_nan", "huge", "same2", "all", "huge_only")


def dec_value(v):
    """a value of a case as a float"""
    return float("nan") if v is None else float(v)


def exact_value(v):
    """a value of a case for exact comparison with bin edges: None (NaN), a Fraction, or an infinite float (Fraction compares
    correctly with those)"""
    if v is None:
        return None
    if isinstance(v, str):
        return float(v)
    return Fraction(v)


def is_infinite(v):
    return isinstance(v, str)


def light1(h):
    """the compared fields of a 1-D histogram (no statistics: sums of infinities are NaN and not the property's business)"""
    bins = np.asarray(h.bins).reshape(-1, 2)
    return {"bins": [[rs(l), rs(r)] for l, r in bins], "freq": [nrs(x) for x in h.frequencies], "err2": [nrs(x) for x in h.errors2],
            "under": nrs(h.underflow), "over": nrs(h.overflow), "dtype": str(h.dtype), "axis_name": str(h.axis_name)}


def lightn(h):
    bins = [np.asarray(b).reshape(-1, 2) for b in h.bins]
    f = np.asarray(h.frequencies)
    return {"bins": [[[rs(l), rs(r)] for l, r in b] for b in bins], "freq": [nrs(v) for v in f.ravel()],
            "err2": [nrs(v) for v in np.asarray(h.errors2).ravel()], "missed": nrs(h.missed), "shape": [int(s) for s in f.shape],
            "dtype": str(h.dtype), "names": [str(n) for n in h.axis_names]}


def light_any(h):
    return light1(h) if getattr(h, "ndim", 0) == 1 else lightn(h)


# ---- element types of the containers (stream:eltype): the same VALUES carried in a narrow type
ENABLE_ELTYPE = True        # the whole stream:eltype
NP_FLOATS = ("float32", "float16")
NP_INTS = ("int8", "int16", "int32", "int64", "uint8", "uint16", "uint32", "uint64")
PY_TYPES = ("pyint", "pyfloat", "pymixed")
ELTYPES = ("float32", "float32", "float32", "float16") + NP_INTS + ("bool",) + PY_TYPES + ("float32", "float32", "float16", "float32")
# What the unchanged library does and the property does not pin (recorded in the tags, not compared):
#   * a polars Boolean Series is refused as data ("must be int-like or float-like") while a numpy / pandas bool array is taken
#   * uint64 weights: h1 gives int64 contents, Histogram1D.fill_n float64 contents (int64 + uint64 promotes to float64), a list mixing
#     np.uint64 scalars and python ints is a float64 array for numpy itself
#   * narrow weights keep their width in some carriers (float32 -> float32 contents, pandas / polars int16 -> int16) and not in others
#     (numpy int8 / uint8 -> int64): only the KIND (integer / floating) of the dtype is compared for narrow weights
POLARS_TAKES_BOOL_DATA = False
#   * int8 weights (numpy array) give int8 errors2: h1(np.zeros(8), [0, 1], weights=np.full(8, 5, dtype="int8")) raises OverflowError
#     ("Python integer 200 out of bounds for int8") as soon as the sum of squared weights of one bin passes 127, where uint8 / int16 /
#     int64 weights of the same values are taken (contents 40, errors2 200). Possibly a defect of the library; kept out of the
#     generator (int8 weights are 0..2, so that the squares of a whole data set stay below 128) until it is triaged
ENABLE_INT8_WEIGHTS_OVERFLOW = False
PIN_UINT64_WEIGHTS_KIND = False
ELTYPE_WTYPES = (None, "int64", "float64", "float32", "float32", "float16", "int8", "int16", "int32", "uint8", "uint16", "uint32",
                 "uint64", "pyint", "pyfloat", "pymixed")
ELTYPE_METHODS = ("int", "int", "int", "explicit", "explicit", "fixed_width", "pretty", "quantile", "sturges", "sqrt", "rice", "doane",
                  "scott", "default", "integer", "human", "int_range")
PANDAS_NULLABLE = {"float32": "Float32", "int8": "Int8", "int16": "Int16", "int32": "Int32", "int64": "Int64", "uint8": "UInt8",
                   "uint16": "UInt16", "uint32": "UInt32", "uint64": "UInt64", "bool": "boolean", "pyint": "Int64", "pyfloat": "Float64"}


def is_integer_type(t):
    return t in NP_INTS or t in ("bool", "pyint")


def eltype_python(values, t):
    """the values (floats, None = NaN) as the python objects of a 'py*' type"""
    out = []
    for i, v in enumerate(values):
        if v is None:
            out.append(float("nan"))
        elif t == "pyint":
            out.append(int(v))
        elif t == "pyfloat":
            out.append(float(v))
        elif float(v) == int(v) and i % 2 == 0:
            out.append(bool(v) if v in (0, 1) and i % 4 == 0 else int(v))
        else:
            out.append(float(v))
    return out


def eltype_array(values, t):
    """the values in an array of the narrow type (python types: what numpy makes of the list); the array holds EXACTLY the values"""
    if t in PY_TYPES:
        a = np.asarray(eltype_python(values, t))
    else:
        a = np.array([np.nan if v is None else v for v in values], dtype=float).astype(t)
    back = [None if (a.dtype.kind == "f" and np.isnan(x)) else float(x) for x in a]
    if back != [None if v is None else float(v) for v in values]:
        raise AssertionError(f"harness: {values} are not representable as {t}")
    return a


def estats(h):
    st = h.statistics
    return {k: nrs(getattr(st, k)) for k in ("sum", "sum2", "weight", "min", "max", "median")}


def elight1(h):
    d = light1(h)
    d["stats"] = estats(h)
    d["ire"] = bool(h.binning.includes_right_edge)
    return d


def elightn(h):
    d = lightn(h)
    d["ire"] = [bool(b.includes_right_edge) for b in h.binnings]
    return d


def factor_pair(n):
    """(a, b) with a * b == n and a, b > 1, or None"""
    for a in range(2, n):
        if n % a == 0:
            return a, n // a
    return None


class C17:
    ID = "C17"
    # the cases up to N_BASE[tier] are the older streams, exactly as they were; the cases after them are the 'labelled' stream ...
    N_BASE = {"quick": 170, "thorough": 2500, "search": 120}
    N_LABELLED = {"quick": 24, "thorough": 350, "search": 20}
    # ... then the 'nonfinite' stream, then the 'wshape' stream (a further index cycles through the three in these proportions)
    N_NONFINITE = {"quick": 24, "thorough": 320, "search": 24}
    N_WSHAPE = {"quick": 16, "thorough": 220, "search": 16}
    # ... then the 'eltype' stream (element types of the containers)
    N_ELTYPE = {"quick": 34, "thorough": 450, "search": 24}
    _LATE = (("labelled", N_LABELLED, ENABLE_LABELLED), ("nonfinite", N_NONFINITE, ENABLE_NONFINITE), ("wshape", N_WSHAPE, ENABLE_WSHAPE),
             ("eltype", N_ELTYPE, ENABLE_ELTYPE))
    N_QUICK = N_BASE["quick"] + sum(c["quick"] for _, c, on in _LATE if on)
    N_THOROUGH = N_BASE["thorough"] + sum(c["thorough"] for _, c, on in _LATE if on)
    N_SEARCH = N_BASE["search"] + sum(c["search"] for _, c, on in _LATE if on)
    RULE = ("one numeric data set (with / without NaN, weights absent / int / float, 1-D or (n, d) with d = 2..3) over explicit bins, "
            "entered as numpy array (reference), list, tuple, (name, values) tuple, iterator, 2-D / 3-D C- and Fortran-ordered arrays, "
            "pandas Series (named) and .physt accessor (h1 / histogram / cut), pandas DataFrame and accessors (h1 / h2 / histogram, with and "
            "without column arguments, column subsets in either order, weights as column), polars Series / DataFrame and their .physt "
            "namespaces (h1; h with 0 / 1 / 2 / 3 selectors, a non-numeric column beside the data), weights as list / pandas Series / polars "
            "Series, dask arrays through the plain facades and, in a separate stream over adaptive fixed-width bins (values on a 1/8 grid, "
            "NaN rows, d = 1..3), through physt.compat.dask h1 / h2 / h3 / histogramdd: row partitions {1, 3, 7, n, random}, split column "
            "axis, list / tuple of columns, numpy input, compute=False graphs, dask_method None / threads / callable; collection(frame | "
            "dict); refused inputs (non-numeric, nulls in data or weights, DataFrame to h1, Series to h, scalar, wrong shape / dim / number "
            "of axis names, frames without usable columns, unknown columns, non-2-D dask arrays); outcomes only recorded where the "
            "property is silent (adaptive=False, invalid method name, weights with dask, one-column frames to histogram()); conversions to / "
            "from xarray, pandas Series / DataFrame / IntervalIndex (gapped bins too) and the two Geant4 CSV files; every 8th case: one "
            "data set (d = 1..3, floats or python ints, NaN, weights in a container of the same kind) in every mutable container (numpy "
            "array 1-D / 2-D / (n, d) C- and Fortran-ordered, list, nested list, lists of coordinates, pandas Series / DataFrame, polars "
            "Series / DataFrame) handed to physt, changed in place (element / row assignment, append, extend, .loc enlargement, vstack "
            "in place; 1..3 changes) and handed to physt again through the same form (plain facades h1 / h / h2 / h3, iterator, (name, "
            "values), .physt accessors of pandas and polars) and once with the form varying from call to call: each call = the numpy "
            "array built from the content expected at that moment, and no call changes its container; every 8th case: an r x c table "
            "(r = 1..4, c = 1..6, with its transpose; floats or ints, NaN, weights nested alike or as array) as tuple / list of tuples / "
            "lists / arrays / a mixture to h1 (also as (str name, values), which alone names the histogram), h (c = 2, 3), h2 (two rows; "
            "two nested tables), h3 (three arrays) = the same call on np.asarray(container); ragged tables and (number, values) only "
            "recorded; after these, 24 (quick) / 350 (thorough) cases of labelled containers (stream:labelled): one data set (d = 1..3, n = "
            "3..16, floats or ints, NaN, weights = distinct powers of two per position, int64 / float64, absent in 1 of 8) as pandas Series / "
            "DataFrame whose labels are NOT 0..n-1 in order (reversed / shifted RangeIndex, shuffled, filtered with gaps, float, string, "
            "duplicated labels, MultiIndex, DatetimeIndex; a named index) with weights as a pandas Series carrying OTHER labels (independent "
            "kind, the same labels in another order, or the same index), a name colliding with a column of the frame, nullable dtypes "
            "(Int64 / Float64, pd.NA for NaN; nullable weights without NA), through physt.h1 / h / h2 / h3, Series.physt.h1 / histogram, "
            "DataFrame.physt.h1 (external weights, weights='column', weights = column of another frame) / histogram / h2, a column sorted "
            "or filtered while the weights are numbered afresh, two coordinate Series with different labels to h2, polars Series / frames "
            "and dask arrays with labelled pandas weights, xarray DataArrays with coordinates (data and weights; only recorded whether "
            "taken): every spelling = the call on series.to_numpy() / weights.to_numpy() (paired BY POSITION), and that reference = the "
            "Fraction sums of the positional (row, weight) pairs; then 24 / 320 cases of non-finite entries that are not NaN "
            "(stream:nonfinite): explicit finite bins, d = 1..3, n = 4..12 rows of which 1..3 hold +inf, -inf, both signs in one row, two "
            "equal signs, only infinities, an infinity beside a NaN, or finite values of 1e308..1.7e308 whose sum overflows (eight "
            "flavours, each met in two dimensions with the default dropna on every seed), NaN elsewhere or not, dropna on / off, weights "
            "= distinct powers of two (int64 / float64) or none, as numpy array, list, tuple, iterator, 2-D array (C, Fortran, transposed "
            "view), nested list / tuple, pandas Series / frames and accessors, polars Series / frames and namespaces, pandas / polars "
            "weights, dask arrays, (name, values); h, h2 of two columns of every carrier (arrays, lists, tuples, Series, 2-D arrays), h3, "
            "frame accessors with column selections: every spelling = the numpy call, and the numpy call (also on the two selected "
            "columns) = the rows taken one by one: kept iff no NaN, cell by exact comparison with the edges, errors2 and underflow / "
            "overflow (1-D) / missed (N-d) exact; then 16 / 220 cases of weights of the right size and another shape (stream:wshape): an r x "
            "c table entered flat (numpy, list, tuple, iterator, pandas / polars Series and accessors, dask) and as the table (C / "
            "Fortran array, nested list / tuple, iterator of rows, list of arrays) to h1, or n rows (d = 2, 3) to h / h2 / h3 / frames / "
            "accessors, with weights (array or nested list) shaped as the data, as column (n, 1), row (1, n), (n, 1, 1), another "
            "factorisation (a, b), flat / transposed for the table, 0-d for one value; NaN or not, dropna on / off: weights shaped like the "
            "data are accepted (exact positional sums); with dropna=True every other shape is refused; with dropna=False (where the "
            "unchanged library flattens: PIN_REFUSAL_WITHOUT_DROPNA) an accepted shape with one non-unit axis gives the histogram of the "
            "proper weights; for each shape every carrier is refused / accepted as the numpy call is, with the same histogram; then 34 / "
            "450 cases of element types (stream:eltype): n = 4..24 values x (and a second column y) carried as float32 / float16 / int8.."
            "int64 / uint8..uint64 / bool numpy arrays (contiguous and strided), lists / tuples / iterators / generators of numpy scalars "
            "and of python ints / floats / a mixture, pandas Series and DataFrame columns (numpy and nullable dtypes) and accessors, polars "
            "Series / frames and namespaces, dask arrays, (name, values) -- as data, as weights, and as both -- through h1, "
            "Histogram1D.fill_n (static and adaptive), h2 / h and the frame accessors, with bins derived from the data (integer count "
            "3..11 with / without range, fixed_width, pretty, human, quantile, integer, sturges / sqrt / rice / doane / scott, default) "
            "or explicit (decimal or dyadic edges); the values are exactly representable in the narrow type: multiples of 1/8, small "
            "integers, and (float32 / float16) numbers one ulp of the narrow type beside / on the nearest narrow neighbour of a bin "
            "edge: every carrier = the call on the float64 array of the exact values (bit-identical bins, contents, errors2, underflow "
            "/ overflow / missed, dtype, statistics sum / sum2 / weight / min / max / median); narrow WEIGHTS = the int64 / float64 "
            "weights call in bins, contents, errors2, missed, statistics and the kind (integer / floating) of the dtype; and the "
            "float64 call = each value counted, with its weight, in the bin the exact comparison with the returned edges gives, "
            "sum / sum2 / weight exact Fractions on dyadic data. "
            "non-trivial = at least one entry inside a bin; distinct = case hash")
    EXTRA_TRUST = ["pandas, polars, dask and xarray conversions are exercised, not modelled"]
    ASSUMPTIONS = ["the reference is physt's own result on the equivalent numpy array, itself tied to the model by C01 / C02"]

    # ------------------------------------------------------------------ generators
    def gen_case(self, rng, k, tier):
        late = [(name, cnt[tier]) for name, cnt, on in self._LATE if on and tier in cnt]
        if late and k >= self.N_BASE.get(tier, 10**9):
            # the streams added after the older ones, one after the other; an index beyond them (more cases were asked for
            # because the source changed) goes round again, with slots that leave every choice to rng
            cycle, pos = divmod(k - self.N_BASE[tier], sum(c for _, c in late))
            for name, cnt in late:
                if pos < cnt:
                    return getattr(self, "gen_" + name)(rng, pos + cycle * max(cnt, 64))
                pos -= cnt
        if k % 8 == 3:
            return self.gen_mutate(rng)
        if k % 8 == 6:
            return self.gen_nested(rng)
        if rng.random() < 0.3:
            return self.gen_dask(rng)
        d = rng.choice([1, 1, 2, 3])
        n = rng.choice([2, 5, 9, 16, 30])
        if d == 1:
            pairs, t = gen1.rising_bins(rng)
            vals = gen1.values_for(rng, pairs, n, nan_share=rng.choice([0, 0.15]))
            data = vals
            binning = [gen1.binning_json(pairs, form="static_obj")]
        else:
            axes = [gennd.axis_binning(rng, maxbins=3, allow_fixed=False) for _ in range(d)]
            data = gennd.rows_for(rng, [a[1] for a in axes], n, nan_share=rng.choice([0, 0.2]))
            binning = [a[0] for a in axes]
        ws, wk = gen1.weights_for(rng, n, kinds=["none", "none", "int", "dyadic"])
        case = {"kind": "containers", "d": d, "binning": binning, "data": data if d > 1 else [[v] for v in data],
                "weights": ws, "wkind": wk, "names": [f"col{i}" for i in range(d)], "dropna": rng.random() < 0.85,
                "tags": [f"d:{d}"]}
        # the additional entry forms: which columns an accessor selects (order matters), where a null / a string goes,
        # how a dask array handed to the plain facades is chunked
        case["extra"] = {"sub": rng.sample(range(d), 2) if d >= 2 else [0], "null_at": rng.randrange(n),
                         "chunk": rng.choice([1, 2, 3, 7, n]), "colchunk": rng.choice([1, d]),
                         "label": rng.choice(["s", "label", "w"]), "wrong_names": rng.choice([d - 1, d + 1])}
        case["open"] = open_triggers()
        case["tags"] += [f"open:{t}" for t in case["open"]]
        return case

    def gen_dask(self, rng):
        """a data set for physt.compat.dask: adaptive fixed-width bins of dyadic width, values on a 1/8 grid in [-3, 3]"""
        d = rng.choice([1, 1, 2, 2, 3])
        n = rng.choice([2, 5, 9, 16, 17, 30])
        nan_share = rng.choice([0, 0.15, 0.3])

        def value():
            if rng.random() < nan_share / d:
                return None
            return rng.randint(-24, 24) / 8

        rows = [[value() for _ in range(d)] for _ in range(n)]
        if all(any(v is None for v in r) for r in rows):
            rows[rng.randrange(n)] = [rng.randint(-8, 8) / 4 for _ in range(d)]
        if d == 1 or rng.random() < 0.6:
            width = rng.choice([0.5, 1.0, 0.25, 0.75])
        else:
            width = [rng.choice([0.5, 1.0, 0.25]) for _ in range(d)]
        small = 1 if n <= 17 else 2
        parts = [[small] * (n // small) + ([n % small] if n % small else []), [3] * (n // 3) + ([n % 3] if n % 3 else []), [7] * (n // 7) + ([n % 7] if n % 7 else []), [n],
                 partition(rng, n)]
        empty = partition(rng, n)
        empty.insert(rng.randint(0, len(empty)), 0)      # "chunked in any way": a chunk without rows
        parts.append(empty)
        opened = open_triggers()
        if d == 1 and "dask_all_nan_chunk" not in opened:
            flags = [r[0] is None for r in rows]
            parts = [merge_all_nan_chunks(p, flags) for p in parts]
        uniq = []
        for p in parts:
            if p not in uniq:
                uniq.append(p)
        ws, wk = gen1.weights_for(rng, n, kinds=["int", "dyadic"])
        case = {"kind": "dask", "d": d, "data": rows, "width": width, "parts": uniq,
                "colparts": [rng.choice([[1] * d, [d]] + ([[1, 2], [2, 1]] if d == 3 else [])) for _ in uniq],
                "colpart_each": [partition(rng, n) for _ in range(d)],
                "weights": ws, "wkind": wk, "names": [f"col{i}" for i in range(d)], "open": opened,
                "tags": [f"d:{d}", "kind:dask"] + [f"open:{t}" for t in opened]}
        return case

    # ---- containers changed in place between two calls / nested python containers
    @staticmethod
    def _gen_axes(rng, d):
        """d explicit binnings (json) with their pairs"""
        if d == 1:
            pairs, _ = gen1.rising_bins(rng)
            return [gen1.binning_json(pairs, form="static_obj")], [pairs]
        axes = [gennd.axis_binning(rng, maxbins=3, allow_fixed=False) for _ in range(d)]
        return [a[0] for a in axes], [a[1] for a in axes]

    @staticmethod
    def _gen_rows(rng, axes_pairs, n, ints, nan_share):
        """n rows over the given axes: the usual edge-centred doubles, or python ints around the bins"""
        if not ints:
            return gennd.rows_for(rng, axes_pairs, n, nan_share=nan_share)
        rows = []
        for _ in range(n):
            r = []
            for pairs in axes_pairs:
                lo, hi = pairs[0][0], pairs[-1][1]
                r.append(rng.randint(int(np.floor(lo)) - 1, int(np.ceil(hi)) + 1))
            rows.append(r)
        return rows

    @staticmethod
    def _gen_w(rng, wk, m):
        if wk is None:
            return None
        return [rng.randint(0, 5) if wk == "int64" else rng.randint(0, 24) / 4 for _ in range(m)]

    def gen_mutate(self, rng):
        """one data set entered through every mutable container, 1..3 in-place changes (element / row assignment, append, extend),
        the same container handed to physt before and after each"""
        d = rng.choice([1, 1, 1, 2, 2, 3])
        n = rng.choice([2, 4, 5, 8, 12])
        ints = rng.random() < 0.25
        nan_share = 0 if ints else rng.choice([0, 0.15])
        binning, axes_pairs = self._gen_axes(rng, d)
        rows = self._gen_rows(rng, axes_pairs, n, ints, nan_share)
        ws, wk = gen1.weights_for(rng, n, kinds=["none", "none", "int", "dyadic"])
        changes, cur = [], n
        for _ in range(rng.choice([1, 1, 2, 3])):
            op = rng.choice(["set", "set", "append", "extend"])
            if op == "set":
                m = 1
                ch = {"op": "set", "at": rng.randrange(cur)}
            else:
                m = rng.choice([1, 1, 2, 3])
                ch = {"op": op}
                cur += m
            # a change may bring a NaN in (or, overwriting one, take it out)
            ch["rows"] = self._gen_rows(rng, axes_pairs, m, ints, nan_share if rng.random() < 0.7 else 0.4)
            ch["ws"] = self._gen_w(rng, wk, m)
            changes.append(ch)
        opened = open_triggers()
        return {"kind": "mutate", "d": d, "binning": binning, "data": rows, "ints": ints, "weights": ws, "wkind": wk,
                "names": [f"col{i}" for i in range(d)], "dropna": rng.random() < 0.85, "changes": changes,
                "mix": [rng.randrange(6) for _ in range(len(changes) + 1)], "open": opened,
                "tags": [f"d:{d}", "kind:mutate", "mutate:ints" if ints else "mutate:floats"] + [f"change:{c['op']}" for c in changes]
                + [f"open:{t}" for t in opened]}

    def gen_nested(self, rng):
        """an r x c table of numbers (and its transpose) as nested python containers of every outer / inner type"""
        r = rng.choice([1, 2, 2, 2, 3, 3, 4])
        c = rng.choice([1, 2, 2, 3, 3, 4, 5, 6])
        ints = rng.random() < 0.3
        binning, axes_pairs = self._gen_axes(rng, 1)
        flat = self._gen_rows(rng, axes_pairs, r * c, ints, 0 if ints else rng.choice([0, 0, 0.12]))
        table = [[flat[i * c + j][0] for j in range(c)] for i in range(r)]
        ws, wk = gen1.weights_for(rng, r * c, kinds=["none", "none", "int", "dyadic"])
        opened = open_triggers()
        return {"kind": "nested", "d": 1, "binning": binning, "table": table, "ints": ints,
                "weights": None if ws is None else [ws[i * c:(i + 1) * c] for i in range(r)], "wkind": wk,
                "mixed": ["tuple"] + [rng.choice(["tuple", "list", "array"]) for _ in range(max(r, c) - 1)],
                "dropna": rng.random() < 0.85, "open": opened,
                "tags": ["d:1", "kind:nested", f"nested:{r}x{c}", "nested:ints" if ints else "nested:floats"] + [f"open:{t}" for t in opened]}

    # ---- labelled containers (pandas labels that are not 0..n-1 in order; data and weights labelled differently)
    def gen_labelled(self, rng, slot=None):
        """slot: position in the stream -- the first ten cases take the ten kinds of labels for the data in turn, the next ten for
        the weights (so that every run, however short, has met each kind on either side); everything else comes from rng"""
        d = rng.choice([1, 1, 1, 1, 2, 2, 3])
        n = rng.choice([3, 5, 6, 8, 12, 16])
        ints = rng.random() < 0.25
        nullable = rng.random() < 0.25
        binning, axes_pairs = self._gen_axes(rng, d)
        rows = self._gen_rows(rng, axes_pairs, n, ints, rng.choice([0, 0.15]))
        if ints and nullable and rng.random() < 0.6:
            for r in rows:
                for j in range(d):
                    if rng.random() < 0.12 / d:
                        r[j] = None
        # weights that make every (value, weight) pair recognisable in the sums: distinct powers of two, in random order
        exps = list(range(n))
        rng.shuffle(exps)
        wmode = rng.choice(["int", "int", "int", "float", "float", "float", "float", "none"])
        if wmode == "none":
            ws, wk = None, None
        elif wmode == "int":
            ws, wk = [2 ** e for e in exps], "int64"
        else:
            ws, wk = [2.0 ** (e - 4) for e in exps], "float64"
        # labels: of the data, and (another kind / the same labels in another order / the very same index) of the weights
        dkind = rng.choice(LABEL_KINDS + ("range", "shuffled", "gaps", "reversed"))
        relation = rng.choice(["independent"] * 5 + ["permuted"] * 4 + ["same"])
        wkind_l = rng.choice(LABEL_KINDS + ("range",) * 6)            # most often: weights numbered afresh
        if slot is not None and 0 <= slot < len(LABEL_KINDS):
            dkind = LABEL_KINDS[slot]
        elif slot is not None and slot < 2 * len(LABEL_KINDS):
            relation, wkind_l = "independent", LABEL_KINDS[slot - len(LABEL_KINDS)]
        dl = gen_labels(rng, dkind, n)
        if relation == "independent":
            if dkind == wkind_l == "range":
                dkind = rng.choice(["shuffled", "reversed", "gaps", "strings"])
                dl = gen_labels(rng, dkind, n)
            wl = gen_labels(rng, wkind_l, n)
        elif relation == "permuted":
            kind, labels = explicit_labels(dl, n)
            perm = list(labels)
            for _ in range(5):
                rng.shuffle(perm)
                if perm != labels:
                    break
            wl = {"kind": kind, "labels": perm}
        else:
            wl = copy.deepcopy(dl)
        if d == 1:
            dname = rng.choice(["col0", "col0", "x", "w", "weights"])
            names = [dname]
        else:
            names = [f"col{i}" for i in range(d)]
        wcol = "w" if names[0] != "w" else "weights"
        keep = [rng.random() < 0.7 for _ in range(n)]
        keep[0] = True
        keep[rng.randrange(1, n)] = False
        opened = open_triggers()
        return {"kind": "labelled", "d": d, "binning": binning, "data": rows, "ints": ints, "weights": ws, "wkind": wk,
                "ddtype": None if not nullable else ("Int64" if ints else "Float64"), "wnullable": ws is not None and rng.random() < 0.2,
                "dlabels": dl, "wlabels": wl, "relation": relation, "index_name": rng.choice([None, None, "idx", wcol]),
                "names": names, "wcol": wcol, "wname": rng.choice([None, wcol, names[0], "other"]),
                "dropna": rng.random() < 0.85, "keep": keep,
                "extra": {"sub": rng.sample(range(d), 2) if d >= 2 else [0], "chunk": rng.choice([1, 2, 3, 7, n]),
                          "wchunk": rng.choice([1, 2, 5, n]), "colchunk": rng.choice([1, d])},
                "open": opened, "tags": self._labelled_tags(d, dl, wl, relation) + [f"open:{t}" for t in opened]}

    @staticmethod
    def _labelled_tags(d, dl, wl, relation):
        return [f"d:{d}", "kind:labelled", "stream:labelled", f"labels:data:{dl['kind']}", f"labels:weights:{wl['kind']}",
                f"labels:relation:{relation}"]

    # ---- entries that are not finite and not NaN
    @staticmethod
    def _special_rows(rng, flavour, base_rows, d):
        """the rows (d >= 2) / consecutive entries (d == 1) of one flavour, written over copies of finite rows"""
        sign = lambda: rng.choice(["inf", "-inf"])          # noqa: E731
        huge = lambda: rng.choice([HUGE, HUGE, -HUGE, 1.0e308, -1.7e308])      # noqa: E731
        if d == 1:
            return {"pinf": [["inf"]], "ninf": [["-inf"]], "both": [["inf"], ["-inf"]], "same2": [[s] for s in [sign()] * 2],
                    "all": [[sign()]], "inf_nan": rng.choice([[[sign()], [None]], [[None], [sign()]]]),
                    "huge": [[huge()], [huge()]]}[flavour]
        row = list(base_rows[0])
        j1, j2 = rng.sample(range(d), 2)
        if flavour == "pinf":
            row[j1] = "inf"
        elif flavour == "ninf":
            row[j1] = "-inf"
        elif flavour == "both":
            row[j1], row[j2] = "inf", "-inf"
            if d == 3 and rng.random() < 0.3:
                row[3 - j1 - j2] = sign()
        elif flavour == "same2":
            row[j1] = row[j2] = sign()
        elif flavour == "all":
            row = [sign() for _ in range(d)]
        elif flavour == "inf_nan":
            row[j1], row[j2] = sign(), None
        else:
            row[j1], row[j2] = huge(), huge()
            if d == 3 and rng.random() < 0.5:
                row[3 - j1 - j2] = huge()
        return [row]

    def gen_nonfinite(self, rng, slot=None):
        """explicit finite bins, finite rows, and 1..3 rows / entries that hold +inf, -inf, both signs, an infinity beside a NaN,
        or finite values so large that their sum overflows. slot: position in the stream -- the first sixteen cases take the eight
        flavours in turn, in two and then in one / three dimensions, with the default dropna"""
        d = rng.choice([1, 2, 2, 3])
        flavour = rng.choice(NONFINITE_FLAVOURS)
        n = rng.choice([4, 6, 8, 12])
        with_nan = rng.random() < 0.5
        dropna = rng.random() < (0.9 if with_nan else 0.6)
        if slot is not None and slot < 2 * len(NONFINITE_FLAVOURS):
            flavour = NONFINITE_FLAVOURS[slot % len(NONFINITE_FLAVOURS)]
            d = 2 if slot < len(NONFINITE_FLAVOURS) else rng.choice([1, 3])
            dropna = dropna or slot < len(NONFINITE_FLAVOURS)
        if d == 1:
            pairs, _ = gen1.rising_bins(rng, allow_gaps=False)
            binning, axes_pairs = [gen1.binning_json(pairs, form="static_obj")], [pairs]
        else:
            axes = [gennd.axis_binning(rng, maxbins=3, allow_fixed=False) for _ in range(d)]
            binning, axes_pairs = [a[0] for a in axes], [a[1] for a in axes]
        rows = [list(r) for r in self._gen_rows(rng, axes_pairs, n, False, 0.15 if with_nan else 0)]
        flavours = [flavour]
        for _ in range(rng.choice([0, 0, 1, 2])):
            flavours.append("huge" if flavour == "huge_only" else rng.choice(NONFINITE_FLAVOURS[:-1]))
        blocks = [self._special_rows(rng, "huge" if f == "huge_only" else f, self._gen_rows(rng, axes_pairs, 1, False, 0), d) for f in flavours]
        while sum(len(b) for b in blocks) > n - 1:
            blocks.pop()
        items = [[r] for r in rows[:n - sum(len(b) for b in blocks)]] + blocks      # a block stays together (d == 1: neighbours)
        rng.shuffle(items)
        rows = [list(r) for it in items for r in it]
        exps = list(range(n))
        rng.shuffle(exps)
        wmode = rng.choice(["int", "int", "float", "float", "float", "none", "none"])
        if wmode == "none":
            ws, wk = None, None
        elif wmode == "int":
            ws, wk = [2 ** e for e in exps], "int64"
        else:
            ws, wk = [2.0 ** (e - 4) for e in exps], "float64"
        opened = open_triggers()
        case = {"kind": "nonfinite", "d": d, "binning": binning, "data": rows, "weights": ws, "wkind": wk,
                "names": [f"col{i}" for i in range(d)], "dropna": dropna, "flavour": flavour,
                "extra": {"sub": rng.sample(range(d), 2) if d >= 2 else [0], "chunk": rng.choice([1, 2, 3, 7, n]), "colchunk": rng.choice([1, d])},
                "open": opened}
        case["tags"] = self._nonfinite_tags(case)
        return case

    @staticmethod
    def _nonfinite_tags(case):
        rows = case["data"]
        t = [f"d:{case['d']}", "kind:nonfinite", "stream:nonfinite", f"nonfinite:{case['flavour']}"]
        if any("inf" in r and "-inf" in r for r in rows):
            t.append("nonfinite:row_with_both_signs")
        if any(any(is_infinite(v) for v in r) and any(v is None for v in r) for r in rows):
            t.append("nonfinite:row_with_inf_and_nan")
        if any(any(is_infinite(v) for v in r) for r in rows):
            t.append("nonfinite:inf")
        if any(any(isinstance(v, float) and abs(v) >= 1e308 for v in r) for r in rows):
            t.append("nonfinite:huge")
        if any(v is None for r in rows for v in r):
            t.append("nonfinite:nan")
        t.append("nonfinite:dropna" if case["dropna"] else "nonfinite:no_dropna")
        t.append("nonfinite:weights" if case["weights"] else "nonfinite:no_weights")
        return t + [f"open:{o}" for o in case.get("open", [])]

    # ---- weights of the right size and another shape
    def gen_wshape(self, rng, slot=None):
        """one data set (d = 1: an r x c table, entered flat and as the table; d = 2, 3: n rows) with weights = distinct powers of two,
        entered in every shape of the right size. slot: the first four cases are 1-D without NaN and with the default dropna"""
        d = rng.choice([1, 1, 1, 2, 2, 3])
        r, c = rng.choice([(1, 1), (1, 3), (2, 2), (2, 3), (3, 2), (2, 4), (4, 2), (3, 3), (1, 6), (3, 4), (6, 1)])
        dropna = rng.random() < 0.65
        with_nan = rng.random() < (0.45 if dropna else 0.2)
        ints = rng.random() < 0.2
        if slot is not None and slot < 4:
            d, with_nan, dropna = 1, False, True
            r, c = [(2, 3), (3, 2), (1, 4), (2, 2)][slot]
        n = r * c
        if d == 1:
            pairs, _ = gen1.rising_bins(rng, allow_gaps=False)
            binning, axes_pairs = [gen1.binning_json(pairs, form="static_obj")], [pairs]
        else:
            binning, axes_pairs = self._gen_axes(rng, d)
        rows = [list(x) for x in self._gen_rows(rng, axes_pairs, n, ints, 0.2 if with_nan and not ints else 0)]
        exps = list(range(n))
        rng.shuffle(exps)
        if rng.random() < 0.4:
            ws, wk = [2 ** e for e in exps], "int64"
        else:
            ws, wk = [2.0 ** (e - 4) for e in exps], "float64"
        opened = open_triggers()
        case = {"kind": "wshape", "d": d, "binning": binning, "data": rows, "rc": [r, c], "ints": ints, "weights": ws, "wkind": wk,
                "wcontainer": rng.choice(["array", "array", "list"]), "names": [f"col{i}" for i in range(d)], "dropna": dropna,
                "extra": {"chunk": rng.choice([1, 2, 3, n])}, "open": opened}
        case["tags"] = self._wshape_tags(case)
        return case

    @staticmethod
    def _wshape_tags(case):
        t = [f"d:{case['d']}", "kind:wshape", "stream:wshape", "wshape:dropna" if case["dropna"] else "wshape:no_dropna",
             f"wshape:weights_as_{case['wcontainer']}"]
        if any(v is None for r in case["data"] for v in r):
            t.append("wshape:nan")
        return t + [f"open:{o}" for o in case.get("open", [])]

    # ---- element types of the containers
    def gen_eltype(self, rng, slot=None):
        """n values x (and a second column y) exactly representable in a narrow element type, weights in a narrow type or none, bins
        derived from the data by a method or explicit. slot: the first len(ELTYPES) cases take the element types in turn with an
        integer bin count (the first six: float32 / float16 data on ten bins), the next take the weight types in turn"""
        ctype = rng.choice(ELTYPES)
        wtype = rng.choice(ELTYPE_WTYPES)
        method = rng.choice(ELTYPE_METHODS)
        if slot is not None and slot < len(ELTYPES):
            ctype = ELTYPES[slot]
            method = rng.choice(["int", "int", "int_range", "explicit", "default"])
        elif slot is not None and slot < len(ELTYPES) + len(ELTYPE_WTYPES):
            wtype = ELTYPE_WTYPES[slot - len(ELTYPES)]
        n = rng.choice([4, 6, 9, 12, 16, 24])
        floating = ctype in NP_FLOATS or ctype in ("pyfloat", "pymixed")
        near = ctype in NP_FLOATS and rng.random() < 0.6
        narrow = np.dtype(ctype).type if ctype in NP_FLOATS else None

        def exact_value():
            if ctype == "bool":
                return float(rng.randint(0, 1))
            if ctype.startswith("uint"):
                return float(rng.randint(0, 12))
            if not floating:
                return float(rng.randint(-6, 6))
            return rng.randint(-32, 32) / 8

        # the range of the data: two distinct exact values, always present
        lo, hi = sorted([exact_value(), exact_value()])
        if lo == hi:
            lo, hi = (0.0, 1.0) if ctype == "bool" else (lo, lo + rng.choice([1.0, 2.0, 3.0]))
        k = rng.choice([3, 5, 6, 7, 9, 10, 10, 11])
        binning, spec = None, {"m": method}
        if method in ("int", "int_range"):
            spec = {"m": method, "k": k}
            if method == "int_range":
                spec["range"] = [lo - rng.choice([0, 0.5, 1.0]), hi + rng.choice([0, 0.25, 1.0])]
            a, b = spec.get("range", [lo, hi])
            edges = [float(e) for e in np.linspace(a, b, k + 1)]
        elif method == "explicit":
            if rng.random() < 0.6:
                step = rng.choice([0.1, 0.2, 0.3, 0.7, 1.1])
                edges = [lo + i * step for i in range(rng.randint(2, 8))]
            else:
                edges = sorted({lo + i / 8 * rng.choice([1, 2, 4]) for i in range(rng.randint(2, 8))})
            if len(edges) < 2:
                edges = [lo, lo + 1.0]
            binning = [gen1.binning_json([[edges[i], edges[i + 1]] for i in range(len(edges) - 1)],
                                         form=rng.choice(["static_obj", "edges", "edge_list"]))]
        else:
            if method == "fixed_width":
                spec["bin_width"] = rng.choice([0.5, 0.25, 0.1, 0.3, 1.0, 0.7])
                w = spec["bin_width"]
                edges = [float(e) for e in np.arange(np.floor(lo / w), np.ceil(hi / w) + 1) * w]
            elif method == "quantile":
                spec["q"] = rng.choice([[0, 0.5, 1], [0, 0.25, 0.5, 0.75, 1], [0, 0.1, 0.3, 0.9, 1], [0.1, 0.5, 0.8]])
                edges = [float(e) for e in np.linspace(lo, hi, 8)]
            else:
                if method in ("pretty", "human") and rng.random() < 0.5:
                    spec["bin_count"] = rng.choice([3, 5, 8, 12])
                edges = [float(e) for e in np.linspace(lo, hi, rng.choice([4, 8, 11]))]

        def near_value():
            e = rng.choice(edges)
            c = narrow(e)
            with np.errstate(all="ignore"):
                v = rng.choice([c, np.nextafter(c, narrow(np.inf)), np.nextafter(c, narrow(-np.inf))])
            v = float(v)
            # bins derived from the data: the range stays [lo, hi]
            if method != "explicit" and not lo <= v <= hi:
                return float(c) if lo <= float(c) <= hi else exact_value_in()
            return v if np.isfinite(v) else exact_value_in()

        def exact_value_in():
            for _ in range(20):
                v = exact_value()
                if lo <= v <= hi:
                    return v
            return lo

        def value():
            if near and rng.random() < 0.7:
                return near_value()
            if method == "explicit" and rng.random() < 0.25:
                return exact_value()                # may fall outside the bins
            return exact_value_in()

        xs = [lo, hi] + [value() for _ in range(n - 2)]
        rng.shuffle(xs)
        if floating and rng.random() < 0.2:
            xs[rng.randrange(n)] = None if sum(v is not None for v in xs) > 3 else xs[0]
            if {lo, hi} - set(xs):
                xs = [lo, hi] + xs[2:] if None in xs[2:] else xs
                for must in (lo, hi):
                    if must not in xs:
                        xs[[i for i, v in enumerate(xs) if v is not None][0]] = must
        ys = [exact_value() for _ in range(n)]
        if len(set(ys)) < 2:
            ys[0] = ys[1] + 1.0 if ctype != "bool" else 1.0 - ys[1]
        if wtype is None:
            ws = None
        elif is_integer_type(wtype) or wtype == "float16":
            ws = [float(rng.randint(0, 5 if wtype != "int8" or ENABLE_INT8_WEIGHTS_OVERFLOW else 2)) for _ in range(n)]
        else:
            ws = [rng.randint(0, 24) / 4 for _ in range(n)]
        if ws is not None and not any(ws):
            ws[0] = 1.0
        if ws is not None and is_integer_type(wtype):
            ws = [int(w) for w in ws]
        opened = open_triggers()
        case = {"kind": "eltype", "d": 1, "binning": binning, "spec": spec, "ctype": ctype, "wtype": wtype,
                "data": [[v] for v in xs], "y": ys, "weights": ws,
                "wkind": None if ws is None else ("int64" if is_integer_type(wtype) else "float64"),
                "k2": rng.choice([2, 3, 5, 7, 10]), "names": ["col0"], "dropna": True,
                "extra": {"chunk": rng.choice([1, 2, 3, 7, n])}, "open": opened}
        case["tags"] = self._eltype_tags(case)
        return case

    @staticmethod
    def _eltype_tags(case):
        xs = [r[0] for r in case["data"] if r[0] is not None]
        dyadic = all(float(v * 8) == int(v * 8) for v in xs)
        t = ["d:1", "kind:eltype", "stream:eltype", f"eltype:data:{case['ctype']}", f"eltype:weights:{case['wtype']}",
             f"eltype:bins:{case['spec']['m']}", "eltype:values:dyadic" if dyadic else "eltype:values:narrow_ulp_beside_edge"]
        if any(r[0] is None for r in case["data"]):
            t.append("eltype:nan")
        return t + [f"open:{o}" for o in case.get("open", [])]

    # ------------------------------------------------------------------ the implementation
    def run_impl(self, case):
        if case["kind"] == "eltype":
            return self.run_eltype(case)
        if case["kind"] == "nonfinite":
            return self.run_nonfinite(case)
        if case["kind"] == "wshape":
            return self.run_wshape(case)
        if case["kind"] == "labelled":
            return self.run_labelled(case)
        if case["kind"] == "dask":
            return self.run_dask(case)
        if case["kind"] == "mutate":
            return self.run_mutate(case)
        if case["kind"] == "nested":
            return self.run_nested(case)
        import dask.array as da
        import pandas as pd
        import polars as pl
        import physt
        from physt import h, h1, h2, h3
        from physt.compat import dask as pdask
        import physt.compat.pandas as pc
        import physt.compat.polars  # noqa: F401
        d = case["d"]
        A = np.array([[np.nan if v is None else v for v in r] for r in case["data"]], dtype=float)
        ws = None if case["weights"] is None else np.array(case["weights"], dtype=case["wkind"])
        names = case["names"]
        dropna = case["dropna"]
        extra = case.get("extra")
        opened = set(case.get("open", []))
        out = {"results": {}, "refusals": {}, "pairs": {}, "outcomes": {}}
        log = []
        why = {}        # the error met by each demanded refusal (for the reader of a sample; not compared)
        bins = [impl1.mk_binning(b) for b in case["binning"]]

        def run(name, f, snap):
            try:
                return snap(f())
            except Exception as e:
                log.append(f"{name}: {type(e).__name__}: {e}"[:160])
                return "REFUSED"

        def rec(name, f, snap):
            out["results"][name] = run(name, f, snap)

        def pair(name, f, ref, snap, names=None, must=True):
            """an entry form with a reference of its own (`ref` is a snapshot or REFUSED); must=False: acceptance is not
            required, only that an accepted call gives the reference"""
            out["pairs"][name] = {"got": run(name, f, snap), "ref": ref, "names": names, "must": must}

        def refusal(name, f):
            try:
                f(); out["refusals"][name] = "accepted"
            except Exception as e:
                out["refusals"][name] = "REFUSED"
                why[name] = f"{type(e).__name__}: {e}"[:120]

        def outcome(name, f):
            try:
                f(); out["outcomes"][name] = "accepted"
            except Exception as e:
                out["outcomes"][name] = "REFUSED"
                log.append(f"{name}: {type(e).__name__}: {e}"[:160])

        def mkb():
            return [impl1.mk_binning(b) for b in case["binning"]]
        if d == 1:
            x = A[:, 0]
            kw = dict(dropna=dropna)
            rec("array", lambda: h1(x, mkb()[0], weights=ws, **kw), s1)
            rec("list", lambda: h1(x.tolist(), mkb()[0], weights=None if ws is None else ws.tolist(), **kw), s1)
            rec("tuple", lambda: h1(tuple(x.tolist()), mkb()[0], weights=ws, **kw), s1)
            rec("iterator", lambda: h1(iter(x.tolist()), mkb()[0], weights=ws, **kw), s1)
            n = len(x)
            if n % 2 == 0 and n >= 4:
                x2 = x.reshape(2, n // 2)
                w2 = None if ws is None else ws.reshape(2, n // 2)
                rec("array2d", lambda: h1(x2, mkb()[0], weights=w2, **kw), s1)
                rec("array2d_F", lambda: h1(np.asfortranarray(x2), mkb()[0], weights=None if w2 is None else np.asfortranarray(w2), **kw), s1)
                rec("array2d_T", lambda: h1(x2.T.copy().T, mkb()[0], weights=w2, **kw), s1)
                if not np.isnan(x).any() and w2 is not None:
                    # without a NaN mask the weights take another code path: a non-contiguous weight array must still be
                    # paired with the data element by element (logical order), whatever its memory order
                    rec("array2d_Fweights_nodropna", lambda: h1(x2, mkb()[0], weights=np.asfortranarray(w2), dropna=False), s1)
                    rec("array2d_F_nodropna", lambda: h1(np.asfortranarray(x2), mkb()[0], weights=w2, dropna=False), s1)
                    rec("array2d_Tview_nodropna", lambda: h1(x2.T, mkb()[0], weights=w2.T, dropna=False),
                        lambda hh, _x=x2, _w=w2: s1(hh))
            ser = pd.Series(x, name=names[0])
            rec("pandas_series", lambda: h1(ser, mkb()[0], weights=ws, **kw), s1)
            rec("pandas_accessor", lambda: ser.physt.h1(mkb()[0], weights=ws, **kw), s1)
            rec("pandas_series_weights", lambda: h1(ser, mkb()[0], weights=None if ws is None else pd.Series(ws), **kw), s1)
            df = pd.DataFrame({names[0]: x, "w": np.ones(n) if ws is None else ws})
            rec("pandas_df_accessor", lambda: df.physt.h1(names[0], mkb()[0], weights=None if ws is None else "w", **kw), s1)
            rec("explicit_axis_name", lambda: h1(ser, mkb()[0], weights=ws, axis_name="given", **kw), s1)
            if not np.isnan(x).any():
                pser = pl.Series(names[0], x)
                rec("polars_series", lambda: h1(pser, mkb()[0], weights=ws, **kw), s1)
            else:
                pser = pl.Series(names[0], x)   # NaN (not null) entries are dropped like in numpy
                rec("polars_series", lambda: h1(pser, mkb()[0], weights=ws, **kw), s1)
            # dask: adaptive fixed-width bins, several chunkings
            finite = x[~np.isnan(x)]
            finite = finite[np.abs(finite) < 200]      # far outliers would need millions of adaptive bins
            if len(finite) >= 2:
                w = 0.5
                ref = h1(finite, "fixed_width", bin_width=w, adaptive=True)
                out["dask_ref"] = s1(ref)
                for ch in sorted({1, 3, 7, len(finite)}):
                    darr = da.from_array(finite, chunks=ch)
                    rec(f"dask_chunks_{ch}", lambda: pdask.h1(darr, "fixed_width", bin_width=w), s1)
            # refusals
            for name, f in (("df_to_h1", lambda: h1(df, mkb()[0])), ("scalar", lambda: h1(5.0, mkb()[0])),
                            ("strings", lambda: h1(pd.Series(["a", "b"]), mkb()[0])),
                            ("object_list", lambda: h1(["a", "b"], mkb()[0])),
                            ("nan_no_dropna", (lambda: h1(np.array([1.0, np.nan]), mkb()[0], dropna=False))),
                            ("polars_null", lambda: h1(pl.Series("x", [1.0, None]), mkb()[0])),
                            ("weights_wrong_len", lambda: h1(x, mkb()[0], weights=np.ones(n + 1)))):
                refusal(name, f)
            if extra is not None:
                # ---- more entry forms of the same data (each against the plain-array result) ----
                ref_arr = out["results"]["array"]
                rec("pandas_accessor_histogram", lambda: ser.physt.histogram(mkb()[0], weights=ws, **kw), s1)
                df1 = pd.DataFrame({names[0]: x})
                rec("pandas_df1_h1_nocolumn", lambda: df1.physt.h1(bins=mkb()[0], weights=ws, **kw), s1)
                rec("pandas_df_histogram_str", lambda: df.physt.histogram(names[0], mkb()[0], weights=ws, **kw), s1)
                rec("polars_series_accessor", lambda: pser.physt.h1(mkb()[0], weights=ws, **kw), s1)
                pair("polars_series_explicit_axis_name", lambda: h1(pser, mkb()[0], weights=ws, axis_name="given", **kw), ref_arr, s1, names="given")
                rec("dask_plain_h1", lambda: h1(da.from_array(x, chunks=extra["chunk"]), mkb()[0], weights=ws, **kw), s1)
                # (name, values): what iterating over a pandas groupby yields
                ref_plain = run("ref_plain", lambda: h1(x, mkb()[0]), s1)
                pair("tuple_form", lambda: h1(("grp", x), mkb()[0]), ref_plain, s1)
                pair("tuple_form_series", lambda: h1(("grp", ser), mkb()[0]), ref_plain, s1, names=names[0])
                if "tuple_form_args" in opened:
                    pair("tuple_form_args", lambda: h1(("grp", x), mkb()[0], weights=ws, axis_name="given", **kw), ref_arr, s1, names="given")
                    pair("tuple_form_series_args", lambda: h1(("grp", ser), mkb()[0], weights=ws, **kw), ref_arr, s1, names=names[0])
                if ws is not None:
                    if ws.dtype.kind == "f" or "polars_int_weights" in opened:
                        pair("polars_weights", lambda: h1(x, mkb()[0], weights=pl.Series("w", ws), **kw), ref_arr, s1)
                        pair("polars_series_polars_weights", lambda: pser.physt.h1(mkb()[0], weights=pl.Series("w", ws), **kw), ref_arr, s1,
                             names=names[0])
                    else:
                        wf = ws.astype(float)
                        ref_f = run("ref_float_weights", lambda: h1(x, mkb()[0], weights=wf, **kw), s1)
                        pair("polars_weights", lambda: h1(x, mkb()[0], weights=pl.Series("w", wf), **kw), ref_f, s1)
                        pair("polars_series_polars_weights", lambda: pser.physt.h1(mkb()[0], weights=pl.Series("w", wf), **kw), ref_f, s1,
                             names=names[0])
                # one selected column of a polars frame / a one-column pandas frame to histogram(): the property does not say
                # that a frame is taken for 1-D data -- recorded; an accepted call must give the column's histogram
                pdf1 = pl.DataFrame({names[0]: x, extra["label"]: ["t"] * n})
                pair("polars_df_accessor_1sel", lambda: pdf1.physt.h(names[0], bins=mkb()[0], weights=ws, **kw), ref_arr, sany, must=False)
                pair("polars_df_accessor_1numeric", lambda: pdf1.physt.h(bins=mkb()[0], weights=ws, **kw), ref_arr, sany, must=False)
                pair("pandas_df1_histogram", lambda: df1.physt.histogram(None, mkb()[0], weights=ws, **kw), ref_arr, sany, must=False)
                pair("pandas_df_histogram_list1", lambda: df.physt.histogram([names[0]], mkb()[0], weights=ws, **kw), ref_arr, sany, must=False)
                try:
                    cut = ser.physt.cut(mkb()[0])
                    out["outcomes"]["pandas_series_cut"] = "accepted"
                    out["cut"] = [int(cut.notna().sum()), int(len(cut))]
                except Exception:
                    out["outcomes"]["pandas_series_cut"] = "REFUSED"
                # ---- inputs the property wants refused ----
                k = extra["null_at"]
                xn = [None if i == k else (None if np.isnan(v) else float(v)) for i, v in enumerate(x)]
                wn = [None if i == k else 1.0 for i in range(n)]
                dfs = pd.DataFrame({names[0]: x, extra["label"]: ["t"] * n})
                pdfs = pl.DataFrame({extra["label"]: ["t"] * n})
                for name, f in (
                        ("polars_series_accessor_null", lambda: pl.Series(names[0], xn, dtype=pl.Float64).physt.h1(mkb()[0])),
                        ("polars_weights_null", lambda: h1(x, mkb()[0], weights=pl.Series("w", wn, dtype=pl.Float64))),
                        ("polars_series_strings", lambda: h1(pl.Series("x", ["a"] * n), mkb()[0])),
                        ("polars_weights_strings", lambda: h1(x, mkb()[0], weights=pl.Series("w", ["a"] * n))),
                        ("polars_series_accessor_strings", lambda: pl.Series("x", ["a"] * n).physt.h1(mkb()[0])),
                        ("polars_df_to_h1", lambda: h1(pl.DataFrame({names[0]: x, "v": x}), mkb()[0])),
                        ("polars_df_accessor_nonnumeric", lambda: pdfs.physt.h(bins=mkb()[0])),
                        ("polars_df_accessor_strings_selected", lambda: pdf1.physt.h(extra["label"], names[0], bins=mkb() + mkb())),
                        ("pandas_accessor_strings", lambda: pd.Series(["a"] * n).physt.h1(mkb()[0])),
                        ("pandas_df_h1_nocolumn_2cols", lambda: df.physt.h1(bins=mkb()[0])),
                        ("pandas_df_h1_unknown_column", lambda: df.physt.h1("nope", mkb()[0])),
                        ("pandas_df_h1_two_columns", lambda: df.physt.h1([names[0], "w"], mkb()[0])),
                        ("pandas_df_h1_nonnumeric", lambda: dfs.physt.h1(extra["label"], mkb()[0])),
                        ("pandas_df_histogram_nonnumeric", lambda: dfs.physt.histogram(extra["label"], mkb()[0]))):
                    refusal(name, f)
                # refusals of the conversions: nothing in the property asks for them -- recorded
                b3 = [0.0, 1.0, 2.0, 3.0]
                for name, f in (("index_to_binning_list", lambda: pc.index_to_binning(b3)),
                                ("index_to_binning_right_closed", lambda: pc.index_to_binning(pd.IntervalIndex.from_breaks(b3, closed="right"))),
                                ("index_to_binning_overlapping", lambda: pc.index_to_binning(
                                    pd.IntervalIndex.from_arrays([0.0, 1.0], [2.0, 3.0], closed="left"))),
                                ("polars_weights_frame", lambda: h1(x, mkb()[0], weights=pl.DataFrame({"w": np.ones(n)})))):
                    outcome(name, f)
            # conversions
            rec("ref_hist", lambda: h1(x, mkb()[0], weights=ws, name="hname", **kw), s1)
            try:
                hh = h1(x, mkb()[0], weights=ws, name="hname", dropna=True)
                import physt.compat.xarray  # noqa: F401
                from physt.histogram1d import Histogram1D
                back = Histogram1D.from_xarray(hh.to_xarray())
                out["xarray_roundtrip"] = [s1(hh), s1(back)]
                idx = pc.binning_to_index(hh.binning)
                b2 = pc.index_to_binning(idx)
                out["index_roundtrip"] = [[[rs(l), rs(r)] for l, r in hh.bins], [[rs(l), rs(r)] for l, r in b2.bins]]
                ser2 = hh.to_series(); dfr = hh.to_dataframe()
                out["series_values"] = [[nrs(v) for v in ser2.values], [[rs(i.left), rs(i.right)] for i in ser2.index]]
                out["df_values"] = [[nrs(v) for v in dfr["frequency"].values], [nrs(v * v) for v in dfr["error"].values],
                                    [[rs(i.left), rs(i.right)] for i in dfr.index]]
            except Exception as e:
                out["conversion_error"] = f"{type(e).__name__}: {e}"[:200]
        else:
            kw = dict(dropna=dropna)
            rec("array", lambda: h(A, mkb(), weights=ws, **kw), sn)
            rec("list", lambda: h(A.tolist(), mkb(), weights=ws, **kw), sn)
            rec("array_F", lambda: h(np.asfortranarray(A), mkb(), weights=ws, **kw), sn)
            df = pd.DataFrame(A, columns=names)
            rec("pandas_df", lambda: h(df, mkb(), weights=ws, **kw), sn)
            rec("pandas_df_accessor", lambda: df.physt.histogram(None, mkb(), weights=ws, **kw), sn)
            pdf = pl.DataFrame({nm: A[:, i] for i, nm in enumerate(names)})
            rec("polars_df", lambda: h(pdf, mkb(), weights=ws, **kw), sn)
            rec("explicit_names", lambda: h(df, mkb(), weights=ws, axis_names=[f"g{i}" for i in range(d)], **kw), sn)
            if d == 2:
                rec("h2_columns", lambda: h2(A[:, 0], A[:, 1], mkb(), weights=ws, **kw), sn)
                rec("h2_series", lambda: h2(df[names[0]], df[names[1]], mkb(), weights=ws, **kw), sn)
                rec("h2_F_columns", lambda: h2(np.asfortranarray(A[:, 0].reshape(2, -1)) if len(A) % 2 == 0 and len(A) >= 4 else A[:, 0],
                                               A[:, 1].reshape(2, -1) if len(A) % 2 == 0 and len(A) >= 4 else A[:, 1], mkb(), weights=None,
                                               dropna=False) if not np.isnan(A).any() else h2(A[:, 0], A[:, 1], mkb(), weights=None), sn)
                rec("h2_ref_noweights", lambda: h2(A[:, 0], A[:, 1], mkb(), weights=None, dropna=not (not np.isnan(A).any())), sn)
                rec("df_h2_accessor", lambda: df.physt.h2(names[0], names[1], mkb(), weights=ws, **kw), sn)
            if d == 3:
                rec("h3", lambda: h3(A, mkb(), weights=ws, **kw), sn)
                rec("h3_columns", lambda: h3([A[:, 0], A[:, 1], A[:, 2]], mkb(), weights=ws, **kw), sn)
            for name, f in (("series_to_h", lambda: h(pd.Series([1.0, 2.0]), mkb())), ("one_d", lambda: h(np.array([1.0, 2.0]), mkb())),
                            ("strings_df", lambda: h(pd.DataFrame({"a": ["x", "y"], "b": [1.0, 2.0]}), 2)),
                            ("wrong_cols", lambda: h(np.zeros((3, d + 1)), mkb())),
                            ("weights_wrong_len", lambda: h(A, mkb(), weights=np.ones(len(A) + 1)))):
                refusal(name, f)
            if extra is not None:
                n = len(A)
                ref_arr = out["results"]["array"]
                sub = extra["sub"]
                snames = [names[i] for i in sub]
                label = extra["label"]

                def subb():
                    b = mkb()
                    return [b[i] for i in sub]
                ref_sub = run("ref_sub", lambda: h(A[:, sub], subb(), weights=ws, **kw), sn)
                pdfl = pl.DataFrame({**{nm: A[:, i] for i, nm in enumerate(names)}, label: ["t"] * n})
                dfl = df.assign(**{label: ["t"] * n})
                # ---- polars frames through the .physt namespace (2 selected columns go through h2, 3 through h) ----
                rec("polars_df_accessor", lambda: pdf.physt.h(bins=mkb(), weights=ws, **kw), sn)
                rec("polars_df_accessor_numeric_only", lambda: pdfl.physt.h(bins=mkb(), weights=ws, **kw), sn)
                rec("polars_df_accessor_all_selected", lambda: pdfl.physt.h(*names, bins=mkb(), weights=ws, **kw), sn)
                rec("polars_df_dim", lambda: h(pdf, mkb(), weights=ws, dim=d, **kw), sn)
                rec("pandas_df_dim", lambda: h(df, mkb(), weights=ws, dim=d, **kw), sn)
                rec("pandas_df_named_hist", lambda: h(df, mkb(), weights=ws, name="hname", title="htitle", **kw), sn)
                rec("dask_plain_h", lambda: h(da.from_array(A, chunks=(extra["chunk"], extra["colchunk"])), mkb(), weights=ws, **kw), sn)
                pair("polars_df_accessor_2sel", lambda: pdfl.physt.h(*snames, bins=subb(), weights=ws, **kw), ref_sub, sn, names=snames)
                pair("polars_df_accessor_2sel_list", lambda: pdfl.physt.h(snames, bins=subb(), weights=ws, **kw), ref_sub, sn, names=snames)
                pair("polars_h2_series", lambda: h2(pdf[snames[0]], pdf[snames[1]], subb(), weights=ws, **kw), ref_sub, sn, names=snames)
                pair("polars_df_explicit_names", lambda: h(pdf, mkb(), weights=ws, axis_names=[f"g{i}" for i in range(d)], **kw), ref_arr, sn,
                     names=[f"g{i}" for i in range(d)])
                if ws is not None:
                    if ws.dtype.kind == "f" or "polars_int_weights" in opened:
                        pair("polars_df_polars_weights", lambda: h(pdf, mkb(), weights=pl.Series("w", ws), **kw), ref_arr, sn, names=names)
                        pair("polars_df_accessor_polars_weights", lambda: pdfl.physt.h(*snames, bins=subb(), weights=pl.Series("w", ws), **kw),
                             ref_sub, sn, names=snames)
                    else:
                        wf = ws.astype(float)
                        pair("polars_df_polars_weights", lambda: h(pdf, mkb(), weights=pl.Series("w", wf), **kw),
                             run("ref_float_weights", lambda: h(A, mkb(), weights=wf, **kw), sn), sn, names=names)
                        pair("polars_df_accessor_polars_weights", lambda: pdfl.physt.h(*snames, bins=subb(), weights=pl.Series("w", wf), **kw),
                             run("ref_sub_float_weights", lambda: h(A[:, sub], subb(), weights=wf, **kw), sn), sn, names=snames)
                # ---- pandas accessors: column subsets in either order, h2 without columns ----
                pair("pandas_df_h2_subset", lambda: dfl.physt.h2(snames[0], snames[1], subb(), weights=ws, **kw), ref_sub, sn, names=snames)
                pair("pandas_df_histogram_subset", lambda: dfl.physt.histogram(snames, subb(), weights=ws, **kw), ref_sub, sn, names=snames)
                pair("dask_plain_h2", lambda: h2(da.from_array(A[:, sub[0]], chunks=extra["chunk"]), da.from_array(A[:, sub[1]], chunks=n),
                                                 subb(), weights=ws, **kw), ref_sub, sn)
                if d == 2:
                    rec("pandas_df_h2_nocolumns", lambda: df.physt.h2(bins=mkb(), weights=ws, **kw), sn)
                else:
                    refusal("pandas_df_h2_nocolumns_3cols", lambda: df.physt.h2(bins=mkb()[:2]))
                # ---- collection(): one 1-D histogram per column over shared bins ----
                if not np.isnan(A).any():
                    refs = [run("ref_col", lambda i=i: h1(A[:, i], mkb()[0]), s1) for i in range(d)]
                    for cname, src in (("collection_pandas", lambda: df), ("collection_polars", lambda: pdf),
                                       ("collection_dict", lambda: {nm: A[:, i] for i, nm in enumerate(names)})):
                        try:
                            col = physt.collection(src(), mkb()[0])
                            out.setdefault("collections", {})[cname] = [[str(x.name) for x in col.histograms], [s1(x) for x in col.histograms], refs]
                        except Exception as e:
                            out["outcomes"][cname] = "REFUSED"
                            log.append(f"{cname}: {type(e).__name__}: {e}"[:160])
                else:
                    outcome("collection_pandas_nan", lambda: physt.collection(df, mkb()[0]))
                # ---- inputs the property wants refused ----
                k = extra["null_at"]
                col0 = [None if i == k else (None if np.isnan(v) else float(v)) for i, v in enumerate(A[:, 0])]
                pdfn = pl.DataFrame({names[0]: pl.Series(names[0], col0, dtype=pl.Float64), **{nm: A[:, i] for i, nm in enumerate(names) if i}})
                for name, f in (
                        ("polars_df_null", lambda: h(pdfn, mkb())),
                        ("polars_df_accessor_null", lambda: pdfn.physt.h(bins=mkb())),
                        ("polars_df_weights_null", lambda: h(pdf, mkb(), weights=pl.Series("w", [None if i == k else 1.0 for i in range(n)],
                                                                                      dtype=pl.Float64))),
                        ("polars_df_strings", lambda: h(pdfl, mkb() + mkb()[:1])),
                        ("polars_df_accessor_strings_selected", lambda: pdfl.physt.h(label, names[0], bins=mkb()[:2])),
                        ("polars_df_accessor_nonnumeric", lambda: pl.DataFrame({label: ["t"] * n}).physt.h(bins=mkb())),
                        ("polars_df_empty", lambda: h(pl.DataFrame(), mkb())),
                        ("polars_series_to_h", lambda: h(pdf[names[0]], mkb())),
                        ("polars_series_to_h_named", lambda: h(pdf[names[0]], mkb(), axis_names=names)),
                        ("polars_df_to_h2", lambda: h2(pdf, pdf[names[0]], mkb()[:2])),
                        ("polars_df_to_h2_named", lambda: h2(pdf, pdf[names[0]], mkb()[:2], axis_names=names[:2])),
                        ("pandas_df_to_h2", lambda: h2(df, df[names[0]], mkb()[:2])),
                        ("polars_df_weights_strings", lambda: h(pdf, mkb(), weights=pl.Series("w", ["a"] * n))),
                        ("polars_df_wrong_axis_names", lambda: h(pdf, mkb(), axis_names=[f"g{i}" for i in range(extra["wrong_names"])])),
                        ("pandas_df_wrong_axis_names", lambda: h(df, mkb(), axis_names=[f"g{i}" for i in range(extra["wrong_names"])])),
                        ("array_wrong_axis_names", lambda: h(A, mkb(), axis_names=[f"g{i}" for i in range(extra["wrong_names"])])),
                        ("polars_df_wrong_dim", lambda: h(pdf, mkb(), dim=d + 1)),
                        ("pandas_df_wrong_dim", lambda: h(df, mkb(), dim=d + 1)),
                        ("array_wrong_dim", lambda: h(A, mkb(), dim=d + 1)),
                        ("pandas_df_strings_accessor", lambda: dfl.physt.histogram(None, mkb() + mkb()[:1])),
                        ("pandas_df_strings_selected", lambda: dfl.physt.h2(label, names[0], mkb()[:2])),
                        ("pandas_df_h2_unknown_column", lambda: df.physt.h2(names[0], "nope", mkb()[:2])),
                        ("pandas_df_histogram_unknown_column", lambda: df.physt.histogram([names[0], "nope"], mkb()[:2])),
                        ("pandas_df_histogram_no_columns", lambda: df.physt.histogram([], mkb())),
                        ("pandas_df1_h2", lambda: df[[names[0]]].physt.h2(bins=mkb()[:2]))):
                    refusal(name, f)
                outcome("pandas_df_h2_one_column_given", lambda: df.physt.h2(names[0], bins=mkb()[:2]))
                outcome("polars_weights_frame", lambda: h(pdf, mkb(), weights=pl.DataFrame({"w": np.ones(n)})))
        return {"outs": out, "log": log, "why": why}

    # ------------------------------------------------------------------ physt.compat.dask
    def run_dask(self, case):
        import dask
        import dask.array as da
        import dask.local
        from physt import h, h1
        from physt.compat import dask as pdask
        d = case["d"]
        A = np.array([[np.nan if v is None else v for v in r] for r in case["data"]], dtype=float)
        n = len(A)
        ws = np.array(case["weights"], dtype=case["wkind"])
        width = case["width"]
        out = {"results": {}, "refusals": {}, "pairs": {}, "outcomes": {}}
        log = []
        why = {}        # the error met by each demanded refusal (for the reader of a sample; not compared)

        def run(name, f, snap):
            try:
                return snap(f())
            except Exception as e:
                log.append(f"{name}: {type(e).__name__}: {e}"[:160])
                return "REFUSED"

        def refusal(name, f):
            try:
                f(); out["refusals"][name] = "accepted"
            except Exception as e:
                out["refusals"][name] = "REFUSED"
                why[name] = f"{type(e).__name__}: {e}"[:120]

        def outcome(name, f):
            try:
                f(); out["outcomes"][name] = "accepted"
            except Exception as e:
                out["outcomes"][name] = "REFUSED"
                log.append(f"{name}: {type(e).__name__}: {e}"[:160])

        def graph(f, snap):
            """compute=False hands back (graph, key): evaluated here with the synchronous scheduler"""
            def g():
                r = f()
                if isinstance(r, tuple) and len(r) == 2 and isinstance(r[0], dict):
                    out["graph_tasks"] = len(r[0])
                    return dask.get(r[0], r[1])
                return r
            return g
        kwb = dict(bin_width=width)
        if d == 1:
            x = A[:, 0]
            snap = s1
            # the dask facade forces adaptive=True: so does the reference
            ref = run("ref", lambda: h1(x, "fixed_width", adaptive=True, **kwb), s1)
            refw = run("refw", lambda: h1(x, "fixed_width", adaptive=True, weights=ws, **kwb), s1)
            out["ref"] = ref

            def arr(p):
                return da.from_array(x, chunks=(tuple(p),))

            def dk(name, f, must=True, names=None, r=None):
                out["pairs"][name] = {"got": run(name, f, snap), "ref": ref if r is None else r, "names": names, "must": must}
            for i, p in enumerate(case["parts"]):
                dk(f"dask_h1:p{i}", lambda: pdask.h1(arr(p), "fixed_width", **kwb))
            p = case["parts"][-1]
            dk("dask_h1_method_none", lambda: pdask.h1(arr(p), "fixed_width", dask_method=None, **kwb))
            dk("dask_h1_method_threads", lambda: pdask.h1(arr(p), "fixed_width", dask_method="threads", **kwb))
            dk("dask_h1_method_callable", lambda: pdask.h1(arr(p), "fixed_width", dask_method=dask.local.get_sync, **kwb))
            dk("dask_h1_graph", graph(lambda: pdask.h1(arr(p), "fixed_width", compute=False, **kwb), s1))
            dk("dask_h1_axis_name", lambda: pdask.histogram1d(arr(p), "fixed_width", axis_name="given", **kwb), names="given")
            dk("dask_h1_adaptive_true", lambda: pdask.h1(arr(p), "fixed_width", adaptive=True, **kwb))
            # a numpy array handed to the dask facade, weights: nothing says these are taken -- an accepted call must be right
            dk("dask_h1_numpy", lambda: pdask.h1(x, "fixed_width", **kwb), must=False)
            dk("dask_h1_list", lambda: pdask.h1(x.tolist(), "fixed_width", **kwb), must=False)
            dk("dask_h1_weights_one_chunk", lambda: pdask.h1(arr([n]), "fixed_width", weights=ws, **kwb), must=False, r=refw)
            dk("dask_h1_weights_chunked", lambda: pdask.h1(arr(case["parts"][0]), "fixed_width", weights=ws, **kwb), must=False, r=refw)
            outcome("dask_h1_adaptive_false", lambda: pdask.h1(arr(p), "fixed_width", adaptive=False, **kwb))
            outcome("dask_h1_invalid_method", lambda: pdask.h1(arr(p), "fixed_width", dask_method="no_such_scheduler", **kwb))
        else:
            snap = sn
            ref = run("ref", lambda: h(A, "fixed_width", adaptive=True, **kwb), sn)
            refw = run("refw", lambda: h(A, "fixed_width", adaptive=True, weights=ws, **kwb), sn)
            out["ref"] = ref

            def arr(p, cp=None):
                return da.from_array(A, chunks=(tuple(p), tuple(cp or [d])))

            def cols(kind=list):
                return kind(da.from_array(A[:, i], chunks=(tuple(case["colpart_each"][i]),)) for i in range(d))

            def dk(name, f, must=True, names=None, r=None):
                out["pairs"][name] = {"got": run(name, f, snap), "ref": ref if r is None else r, "names": names, "must": must}
            for i, (p, cp) in enumerate(zip(case["parts"], case["colparts"])):
                dk(f"dask_h:p{i}", lambda: pdask.histogramdd(arr(p, cp), "fixed_width", **kwb))
            # the 1-D dask facade takes data of any dimension ("can have more than one dimension"), chunked in any way along
            # rows AND columns: the histogram of all entries, as h1 of the equivalent numpy array
            w1 = width[0] if isinstance(width, list) else width
            ref1 = run("ref1", lambda: h1(A, "fixed_width", adaptive=True, bin_width=w1), s1)
            for i, (p, cp) in enumerate(zip(case["parts"], case["colparts"])):
                out["pairs"][f"dask_h1_of_2d:p{i}"] = {
                    "got": run(f"dask_h1_of_2d:p{i}", lambda: pdask.h1(arr(p, cp), "fixed_width", bin_width=w1), s1),
                    "ref": ref1, "names": None, "must": True}
            p, cp = case["parts"][-1], case["colparts"][-1]
            dk("dask_h_list", lambda: pdask.histogramdd(cols(list), "fixed_width", **kwb))
            dk("dask_h_tuple", lambda: pdask.histogramdd(cols(tuple), "fixed_width", **kwb))
            dk("dask_h_method_none", lambda: pdask.histogramdd(arr(p, cp), "fixed_width", dask_method=None, **kwb))
            dk("dask_h_method_threads", lambda: pdask.histogramdd(arr(p, cp), "fixed_width", dask_method="threading", **kwb))
            dk("dask_h_method_callable", lambda: pdask.histogramdd(arr(p, cp), "fixed_width", dask_method=dask.local.get_sync, **kwb))
            dk("dask_h_graph", graph(lambda: pdask.histogramdd(arr(p, cp), "fixed_width", compute=False, **kwb), sn))
            dk("dask_h_axis_names", lambda: pdask.histogramdd(arr(p, cp), "fixed_width", axis_names=case["names"], **kwb), names=case["names"])
            if d == 2:
                c = cols(list)
                dk("dask_h2", lambda: pdask.h2(c[0], c[1], "fixed_width", **kwb))
                dk("dask_h2_axis_names", lambda: pdask.histogram2d(c[0], c[1], "fixed_width", axis_names=case["names"], **kwb),
                   names=case["names"])
                dk("dask_h2_numpy", lambda: pdask.h2(A[:, 0], A[:, 1], "fixed_width", **kwb), must=False)
                dk("dask_h2_mixed", lambda: pdask.h2(c[0], A[:, 1], "fixed_width", **kwb), must=False)
            if d == 3:
                dk("dask_h3", lambda: pdask.h3(arr(p, cp), "fixed_width", **kwb))
                dk("dask_h3_list", lambda: pdask.h3(cols(list), "fixed_width", **kwb))
            dk("dask_h_numpy", lambda: pdask.histogramdd(A, "fixed_width", **kwb), must=False)
            dk("dask_h_weights_one_chunk", lambda: pdask.histogramdd(arr([n]), "fixed_width", weights=ws, **kwb), must=False, r=refw)
            dk("dask_h_weights_chunked", lambda: pdask.histogramdd(arr(case["parts"][0]), "fixed_width", weights=ws, **kwb), must=False, r=refw)
            # wrongly shaped
            refusal("dask_h_1d_array", lambda: pdask.histogramdd(da.from_array(A[:, 0], chunks=(tuple(p),)), "fixed_width", **kwb))
            refusal("dask_h_3d_array", lambda: pdask.histogramdd(da.from_array(A.reshape(n, d, 1), chunks=(tuple(p), d, 1)), "fixed_width", **kwb))
            outcome("dask_h_adaptive_false", lambda: pdask.histogramdd(arr(p, cp), "fixed_width", adaptive=False, **kwb))
            outcome("dask_h_invalid_method", lambda: pdask.histogramdd(arr(p, cp), "fixed_width", dask_method="no_such_scheduler", **kwb))
        return {"outs": out, "log": log, "why": why}

    # ------------------------------------------------------------------ containers changed in place between two calls
    def run_mutate(self, case):
        """every mutable container is built once, handed to physt, changed in place, handed to physt again (same object, same
        form -- and once with the form varying from call to call). Each call is paired with the histogram of the numpy array that
        is built, at that moment, from the content the container is *expected* to have (kept in plain python lists here, never
        read back from the container); the container's content is read before and after each call."""
        import pandas as pd
        import polars as pl
        import physt  # noqa: F401
        from physt import h, h1, h2, h3
        import physt.compat.pandas  # noqa: F401
        import physt.compat.polars  # noqa: F401
        d, names, dropna, ints, wk = case["d"], case["names"], case["dropna"], case["ints"], case["wkind"]
        opened = set(case.get("open", []))
        out = {"results": {}, "refusals": {}, "pairs": {}, "outcomes": {}, "touched": []}
        log, why = [], {}
        kw = dict(dropna=dropna)
        snap = s1 if d == 1 else sn
        dt = int if ints else float
        n0 = len(case["data"])
        has_w = case["weights"] is not None

        def mkb():
            bs = [impl1.mk_binning(b) for b in case["binning"]]
            return bs[0] if d == 1 else bs

        def num(v):
            return float("nan") if v is None else v

        def arr(rows):
            return np.array([[num(v) for v in r] for r in rows], dtype=dt).reshape(len(rows), d)

        def warr(ws):
            return None if ws is None else np.array(ws, dtype=wk)

        def run(name, f):
            try:
                return snap(f())
            except Exception as e:
                log.append(f"{name}: {type(e).__name__}: {e}"[:160])
                return "REFUSED"

        refs = {}

        def ref_for(rows, ws, wdt=None):
            """physt on the numpy array of this content (weights in the dtype their container holds them in)"""
            key = json.dumps([rows, ws, wdt])
            if key not in refs:
                A, w = arr(rows), warr(ws) if ws is None or wdt is None else np.array(ws, dtype=wdt)
                refs[key] = run("ref", (lambda: h1(A[:, 0], mkb(), weights=w, **kw)) if d == 1 else (lambda: h(A, mkb(), weights=w, **kw)))
            return refs[key]

        def same(a, b):
            return all((x is None and y is None) or (x is not None and y is not None and x.shape == y.shape and
                                                     np.array_equal(x, y, equal_nan=True)) for x, y in zip(a, b))

        def polars_w(ws):
            """weights beside a polars container: a polars Series (int ones only while that entry form is open)"""
            if ws is None:
                return None
            if wk == "int64" and "polars_int_weights" not in opened:
                return warr(ws)
            return pl.Series("w", warr(ws))

        def wfloat(w):
            return None if w is None else np.asarray(w.to_numpy() if hasattr(w, "to_numpy") else w, dtype=float).ravel()

        drivers = []

        def D(name, build, forms, apply, content, wdt=None):
            drivers.append((name, build, forms, apply, content, wdt))

        def half(i, m):
            return i // m, i % m
        if d == 1:
            b1 = mkb
            # numpy arrays: element assignment (a numpy array cannot grow in place)
            def np_apply(st, ch):
                if ch["op"] != "set":
                    return False
                st["x"][ch["at"]] = num(ch["rows"][0][0])
                if has_w:
                    st["w"][ch["at"]] = ch["ws"][0]
                return True
            D("numpy", lambda rows, ws: {"x": arr(rows)[:, 0].copy(), "w": warr(ws)},
              [("h1", lambda st: h1(st["x"], b1(), weights=st["w"], **kw), None)],
              np_apply, lambda st: (st["x"].astype(float), wfloat(st["w"])))

            def np2_apply(st, ch):
                if ch["op"] != "set":
                    return False
                ij = half(ch["at"], st["x"].shape[1])
                st["x"][ij] = num(ch["rows"][0][0])
                if has_w:
                    st["w"][ij] = ch["ws"][0]
                return True
            if n0 % 2 == 0 and n0 >= 4:
                D("numpy2d", lambda rows, ws: {"x": arr(rows)[:, 0].reshape(2, -1).copy(), "w": None if ws is None else warr(ws).reshape(2, -1).copy()},
                  [("h1", lambda st: h1(st["x"], b1(), weights=st["w"], **kw), None)],
                  np2_apply, lambda st: (st["x"].astype(float).ravel(), wfloat(st["w"])))

            # python lists: item assignment, append, extend
            def list_apply(st, ch):
                vs = [num(r[0]) for r in ch["rows"]]
                if ch["op"] == "set":
                    st["x"][ch["at"]] = vs[0]
                    if has_w:
                        st["w"][ch["at"]] = ch["ws"][0]
                elif ch["op"] == "append":
                    for k, v in enumerate(vs):
                        st["x"].append(v)
                        if has_w:
                            st["w"].append(ch["ws"][k])
                else:
                    st["x"].extend(vs)
                    if has_w:
                        st["w"].extend(ch["ws"])
                return True
            lforms = [("h1", lambda st: h1(st["x"], b1(), weights=st["w"], **kw), None),
                      ("iterator", lambda st: h1(iter(st["x"]), b1(), weights=st["w"], **kw), None)]
            if "tuple_form_args" in opened:
                lforms.append(("tuple_form", lambda st: h1(("grp", st["x"]), b1(), weights=st["w"], **kw), None))
            D("list", lambda rows, ws: {"x": [num(r[0]) for r in rows], "w": None if ws is None else list(ws)}, lforms, list_apply,
              lambda st: (np.array(st["x"], dtype=float), wfloat(st["w"])))

            def list2_apply(st, ch):
                if ch["op"] != "set":
                    return False
                i, j = half(ch["at"], len(st["x"][0]))
                st["x"][i][j] = num(ch["rows"][0][0])
                if has_w:
                    st["w"][i][j] = ch["ws"][0]
                return True
            if n0 % 2 == 0 and n0 >= 4:
                D("list2d", lambda rows, ws: {"x": arr(rows)[:, 0].reshape(2, -1).tolist(), "w": None if ws is None else warr(ws).reshape(2, -1).tolist()},
                  [("h1", lambda st: h1(st["x"], b1(), weights=st["w"], **kw), None)],
                  list2_apply, lambda st: (np.array(st["x"], dtype=float).ravel(), wfloat(st["w"])))

            # pandas Series: .iloc assignment, enlargement through .loc
            def ps_apply(st, ch):
                if ch["op"] == "set":
                    st["s"].iloc[ch["at"]] = num(ch["rows"][0][0])
                    if has_w:
                        st["w"].iloc[ch["at"]] = ch["ws"][0]
                else:
                    for k, r in enumerate(ch["rows"]):
                        st["s"].loc[len(st["s"])] = num(r[0])
                        if has_w:
                            st["w"].loc[len(st["w"])] = ch["ws"][k]
                return True
            D("pandas_series", lambda rows, ws: {"s": pd.Series(arr(rows)[:, 0], name=names[0]), "w": None if ws is None else pd.Series(warr(ws))},
              [("h1", lambda st: h1(st["s"], b1(), weights=st["w"], **kw), names[0]),
               ("accessor_h1", lambda st: st["s"].physt.h1(b1(), weights=st["w"], **kw), names[0]),
               ("accessor_histogram", lambda st: st["s"].physt.histogram(b1(), weights=st["w"], **kw), names[0])],
              ps_apply, lambda st: (st["s"].to_numpy(dtype=float), wfloat(st["w"])))

            # pandas DataFrame (data column + weight column): .iloc assignment, enlargement through .loc
            def pdf_apply(st, ch):
                df = st["df"]
                if ch["op"] == "set":
                    df.iloc[ch["at"], 0] = num(ch["rows"][0][0])
                    if has_w:
                        df.iloc[ch["at"], 1] = ch["ws"][0]
                else:
                    for k, r in enumerate(ch["rows"]):
                        df.loc[len(df)] = [num(r[0]), ch["ws"][k] if has_w else 1]
                return True
            D("pandas_df", lambda rows, ws: {"df": pd.DataFrame({names[0]: arr(rows)[:, 0], "w": np.ones(len(rows), dtype=int) if ws is None else warr(ws)})},
              [("accessor_h1", lambda st: st["df"].physt.h1(names[0], b1(), weights="w" if has_w else None, **kw), names[0]),
               ("accessor_histogram", lambda st: st["df"].physt.histogram(names[0], b1(), weights=st["df"]["w"].to_numpy() if has_w else None, **kw), names[0]),
               ("column", lambda st: h1(st["df"][names[0]], b1(), weights=st["df"]["w"] if has_w else None, **kw), names[0])],
              pdf_apply, lambda st: (st["df"][names[0]].to_numpy(dtype=float), wfloat(st["df"]["w"]) if has_w else None),
              # a row of a float and an int written through .loc turns the int column into a float column
              wdt=lambda st: str(st["df"]["w"].dtype))

            # polars Series: item assignment, append, extend
            def pl_apply(st, ch):
                s, w = st["s"], st["w"]
                if ch["op"] == "set":
                    s[ch["at"]] = num(ch["rows"][0][0])
                    if has_w:
                        w[ch["at"]] = ch["ws"][0]
                    return True
                more = pl.Series(names[0], arr(ch["rows"])[:, 0])
                (s.append if ch["op"] == "append" else s.extend)(more)
                if has_w:
                    if isinstance(w, pl.Series):
                        (w.append if ch["op"] == "append" else w.extend)(pl.Series("w", warr(ch["ws"])))
                    else:
                        st["w"] = np.concatenate([w, warr(ch["ws"])])
                return True
            D("polars_series", lambda rows, ws: {"s": pl.Series(names[0], arr(rows)[:, 0]), "w": polars_w(ws)},
              [("h1", lambda st: h1(st["s"], b1(), weights=st["w"], **kw), names[0]),
               ("accessor_h1", lambda st: st["s"].physt.h1(b1(), weights=st["w"], **kw), names[0])],
              pl_apply, lambda st: (st["s"].to_numpy().astype(float), wfloat(st["w"])))
        else:
            # numpy (n, d) arrays, C- and Fortran-ordered: row assignment
            def npn_apply(st, ch):
                if ch["op"] != "set":
                    return False
                st["A"][ch["at"], :] = [num(v) for v in ch["rows"][0]]
                if has_w:
                    st["w"][ch["at"]] = ch["ws"][0]
                return True
            nforms = [("h", lambda st: h(st["A"], mkb(), weights=st["w"], **kw), None)]
            if d == 2:
                nforms.append(("h2_columns", lambda st: h2(st["A"][:, 0], st["A"][:, 1], mkb(), weights=st["w"], **kw), None))
            if d == 3:
                nforms.append(("h3", lambda st: h3(st["A"], mkb(), weights=st["w"], **kw), None))
            D("numpy", lambda rows, ws: {"A": arr(rows).copy(), "w": warr(ws)}, nforms, npn_apply,
              lambda st: (st["A"].astype(float), wfloat(st["w"])))
            D("numpy_F", lambda rows, ws: {"A": np.asfortranarray(arr(rows)), "w": warr(ws)}, nforms[:1], npn_apply,
              lambda st: (np.ascontiguousarray(st["A"]).astype(float), wfloat(st["w"])))

            # list of rows: element assignment, append, extend
            def ln_apply(st, ch):
                rows = [[num(v) for v in r] for r in ch["rows"]]
                if ch["op"] == "set":
                    for j, v in enumerate(rows[0]):
                        st["x"][ch["at"]][j] = v
                    if has_w:
                        st["w"][ch["at"]] = ch["ws"][0]
                elif ch["op"] == "append":
                    for k, r in enumerate(rows):
                        st["x"].append(r)
                        if has_w:
                            st["w"].append(ch["ws"][k])
                else:
                    st["x"].extend(rows)
                    if has_w:
                        st["w"].extend(ch["ws"])
                return True
            D("list", lambda rows, ws: {"x": [[num(v) for v in r] for r in rows], "w": None if ws is None else list(ws)},
              [("h", lambda st: h(st["x"], mkb(), weights=st["w"], **kw), None)], ln_apply,
              lambda st: (np.array(st["x"], dtype=float).reshape(len(st["x"]), d), wfloat(st["w"])))
            if d == 2:
                # two lists of coordinates to h2
                def lc_apply(st, ch):
                    rows = [[num(v) for v in r] for r in ch["rows"]]
                    if ch["op"] == "set":
                        for j in range(2):
                            st["c"][j][ch["at"]] = rows[0][j]
                        if has_w:
                            st["w"][ch["at"]] = ch["ws"][0]
                    else:
                        for j in range(2):
                            st["c"][j].extend(r[j] for r in rows)
                        if has_w:
                            st["w"].extend(ch["ws"])
                    return True
                D("list_columns", lambda rows, ws: {"c": [[num(r[j]) for r in rows] for j in range(2)], "w": None if ws is None else list(ws)},
                  [("h2", lambda st: h2(st["c"][0], st["c"][1], mkb(), weights=st["w"], **kw), None)], lc_apply,
                  lambda st: (np.array(st["c"], dtype=float).T, wfloat(st["w"])))

            # pandas DataFrame: .iloc assignment, enlargement through .loc
            def pdn_apply(st, ch):
                df = st["df"]
                if ch["op"] == "set":
                    for j, v in enumerate(ch["rows"][0]):
                        df.iloc[ch["at"], j] = num(v)
                    if has_w:
                        st["w"].iloc[ch["at"]] = ch["ws"][0]
                else:
                    for k, r in enumerate(ch["rows"]):
                        df.loc[len(df)] = [num(v) for v in r]
                        if has_w:
                            st["w"].loc[len(st["w"])] = ch["ws"][k]
                return True
            pforms = [("h", lambda st: h(st["df"], mkb(), weights=st["w"], **kw), names),
                      ("accessor_histogram", lambda st: st["df"].physt.histogram(None, mkb(), weights=st["w"], **kw), names)]
            if d == 2:
                pforms += [("accessor_h2", lambda st: st["df"].physt.h2(names[0], names[1], mkb(), weights=st["w"], **kw), names),
                           ("h2_series", lambda st: h2(st["df"][names[0]], st["df"][names[1]], mkb(), weights=st["w"], **kw), names)]
            D("pandas_df", lambda rows, ws: {"df": pd.DataFrame(arr(rows), columns=names), "w": None if ws is None else pd.Series(warr(ws))},
              pforms, pdn_apply, lambda st: (st["df"].to_numpy(dtype=float), wfloat(st["w"])))

            # polars DataFrame: item assignment, extend, vstack(in_place=True)
            def frame(rows):
                A = arr(rows)
                return pl.DataFrame({nm: A[:, j] for j, nm in enumerate(names)})

            def pln_apply(st, ch):
                pdf, w = st["df"], st["w"]
                if ch["op"] == "set":
                    for j, v in enumerate(ch["rows"][0]):
                        pdf[ch["at"], names[j]] = num(v)
                    if has_w:
                        w[ch["at"]] = ch["ws"][0]
                    return True
                if ch["op"] == "append":
                    pdf.vstack(frame(ch["rows"]), in_place=True)
                else:
                    pdf.extend(frame(ch["rows"]))
                if has_w:
                    if isinstance(w, pl.Series):
                        (w.append if ch["op"] == "append" else w.extend)(pl.Series("w", warr(ch["ws"])))
                    else:
                        st["w"] = np.concatenate([w, warr(ch["ws"])])
                return True
            qforms = [("h", lambda st: h(st["df"], mkb(), weights=st["w"], **kw), names),
                      ("accessor_h", lambda st: st["df"].physt.h(bins=mkb(), weights=st["w"], **kw), names)]
            if d == 2:
                qforms.append(("h2_series", lambda st: h2(st["df"][names[0]], st["df"][names[1]], mkb(), weights=st["w"], **kw), names))
            D("polars_df", lambda rows, ws: {"df": frame(rows), "w": polars_w(ws)}, qforms, pln_apply,
              lambda st: (st["df"].to_numpy().astype(float).reshape(st["df"].height, d), wfloat(st["w"])))

        changes = case["changes"]
        for dname, build, forms, apply, content, wdt in drivers:
            plans = [(fname, [k] * (len(changes) + 1)) for k, (fname, _, _) in enumerate(forms)]
            if len(forms) > 1:
                plans.append(("mixed", [m % len(forms) for m in case["mix"]][:len(changes) + 1]))
            for pname, plan in plans:
                rows = [list(r) for r in case["data"]]
                ws = None if not has_w else list(case["weights"])
                st = build(rows, ws)
                for step in range(len(changes) + 1):
                    fname, f, axn = forms[plan[step]]
                    name = f"mutate_{dname}.{pname}:call{step}" + (f"({fname})" if pname == "mixed" else "")
                    before = content(st)
                    got = run(name, lambda: f(st))
                    after = content(st)
                    if not same(before, after):
                        out["touched"].append(f"{name}: content {before[0].tolist()} weights {None if before[1] is None else before[1].tolist()} "
                                              f"became {after[0].tolist()} weights {None if after[1] is None else after[1].tolist()}"[:300])
                    has_nan = any(v is None for r in rows for v in r)
                    out["pairs"][name] = {"got": got, "ref": ref_for(rows, ws, None if wdt is None else wdt(st)), "names": axn, "must": True,
                                          "invalid": has_nan and not dropna, "after": step}
                    if step < len(changes):
                        ch = changes[step]
                        if (ch["op"] != "set" or ch["at"] < len(rows)) and apply(st, ch):
                            apply_change(rows, ws, ch)
                        now = content(st)
                        exp = (arr(rows).astype(float) if d > 1 else arr(rows)[:, 0].astype(float), None if ws is None else warr(ws).astype(float))
                        if not same(now, exp) and same(before, after):
                            raise AssertionError(f"harness: {dname} holds {now} after {ch}, expected {exp}")
        rows, ws = final_content(case)
        out["results"]["array"] = ref_for(rows, ws)
        return {"outs": out, "log": log, "why": why}

    # ------------------------------------------------------------------ nested python containers
    def run_nested(self, case):
        """an r x c table (and its transpose) as tuple / list of tuples / lists / arrays / a mixture: h1 takes every entry as one
        observation, h the rows as observations, h2 two containers as the two coordinates; the reference is the same call on
        np.asarray(container)"""
        from physt import h, h1, h2, h3
        dropna, ints, wk = case["dropna"], case["ints"], case["wkind"]
        opened = set(case.get("open", []))
        out = {"results": {}, "refusals": {}, "pairs": {}, "outcomes": {}}
        log, why = [], {}
        kw = dict(dropna=dropna)
        dt = int if ints else float

        def b1():
            return impl1.mk_binning(case["binning"][0])

        def num(v):
            return float("nan") if v is None else v

        def s1name(hh):
            s = s1(hh)
            s["name"] = None if hh.name is None else str(hh.name)
            return s

        def snname(hh):
            s = sn(hh)
            s["name"] = None if hh.name is None else str(hh.name)
            return s

        def run(name, f, snap):
            try:
                return snap(f())
            except Exception as e:
                log.append(f"{name}: {type(e).__name__}: {e}"[:160])
                return "REFUSED"

        def outcome(name, f):
            try:
                f(); out["outcomes"][name] = "accepted"
            except Exception as e:
                out["outcomes"][name] = "REFUSED"
                log.append(f"{name}: {type(e).__name__}: {e}"[:160])

        def inner_of(kind, i, row, dtype):
            k = case["mixed"][i % len(case["mixed"])] if kind == "mixed" else kind
            return tuple(row) if k == "tuple" else list(row) if k == "list" else np.array(row, dtype=dtype)

        def make(table, outer, inner, dtype):
            return (tuple if outer == "tuple" else list)(inner_of(inner, i, row, dtype) for i, row in enumerate(table))
        T = [[num(v) for v in row] for row in case["table"]]
        W = case["weights"]
        has_nan = any(v is None for row in case["table"] for v in row)
        invalid = has_nan and not dropna
        for orient, table, wtable in (("", T, W), ("T", [list(c) for c in zip(*T)], None if W is None else [list(c) for c in zip(*W)])):
            r, c = len(table), len(table[0])
            if orient == "T" and (r, c) == (len(T), len(T[0])) and table == T:
                continue
            A = np.array(table, dtype=dt)
            wA = None if wtable is None else np.array(wtable, dtype=wk)
            ref1 = run("ref1", lambda: h1(A, b1(), weights=wA, **kw), s1name)
            ref1_plain = run("ref1_plain", lambda: h1(A, b1(), **kw), s1name)
            if orient == "":
                out["results"]["array"] = ref1
            refn = run("refn", lambda: h(A, [b1() for _ in range(c)], weights=None if wA is None else wA[:, 0], **kw), snname) if c in (2, 3) else None
            ref2 = run("ref2", lambda: h2(A[0], A[1], [b1(), b1()], weights=None if wA is None else wA[0], **kw), snname) if r >= 2 else None
            ref2n = run("ref2n", lambda: h2(A, A[::-1], [b1(), b1()], **kw), snname) if r >= 2 else None
            for outer in ("tuple", "list"):
                for inner in ("tuple", "list", "array", "mixed"):
                    if inner == "mixed" and len({case["mixed"][i % len(case["mixed"])] for i in range(r)}) == 1:
                        continue
                    form = f"nested_{outer}_of_{inner}"
                    shape = f"{r}x{c}"
                    X = make(table, outer, inner, dt)
                    wX = None if wtable is None else make(wtable, outer, inner, wk)

                    def P(what, f, ref, snap, **more):
                        out["pairs"][f"{form}.{what}:{shape}"] = {"got": run(f"{form}.{what}:{shape}", f, snap), "ref": ref, "names": None,
                                                                 "must": True, "invalid": invalid, **more}
                    P("h1", lambda: h1(X, b1(), weights=wX, **kw), ref1, s1name, hname=None)
                    if wX is not None:
                        P("h1_array_weights", lambda: h1(X, b1(), weights=wA, **kw), ref1, s1name, hname=None)
                        P("h1_no_weights", lambda: h1(X, b1(), **kw), ref1_plain, s1name, hname=None)
                    if "tuple_form_args" in opened or (wX is None and dropna):
                        P("h1_named", lambda: h1(("grp", X), b1(), weights=wX, **kw), ref1, s1name, hname="grp")
                    if refn is not None:
                        P("h", lambda: h(X, [b1() for _ in range(c)], weights=None if wX is None else [row[0] for row in wtable], **kw), refn, snname,
                          hname=None)
                    if ref2 is not None:
                        P("h2_rows", lambda: h2(X[0], X[1], [b1(), b1()], weights=None if wX is None else wX[0], **kw), ref2, snname, hname=None)
                        P("h2_nested", lambda: h2(X, X[::-1], [b1(), b1()], **kw), ref2n, snname, hname=None)
                    if inner == "array" and r == 3 and c >= 1:
                        # three arrays of coordinates to h3: the histogram of the (c, 3) array of their columns
                        ref3 = run("ref3", lambda: h(A.T, [b1(), b1(), b1()], weights=None if wA is None else wA[0], **kw), snname)
                        P("h3_columns", lambda: h3(X, [b1(), b1(), b1()], weights=None if wA is None else wA[0], **kw), ref3, snname, hname=None)
            # not pinned by the property: a table whose rows differ in length, a (number, values) pair -- recorded
            if r >= 2 and c >= 2 and orient == "":
                ragged = tuple(tuple(row) for row in table[:-1]) + (tuple(table[-1][:-1]),)
                outcome(f"nested_ragged:{min(r, 3)}rows", lambda: h1(ragged, b1(), **kw))
                outcome("tuple_number_values", lambda: h1((table[0][0], tuple(table[-1])), b1(), **kw))
        return {"outs": out, "log": log, "why": why}

    # ------------------------------------------------------------------ labelled containers
    def run_labelled(self, case):
        """pandas Series / DataFrames whose labels are not 0..n-1 in order, weights as a pandas Series with other labels: every
        spelling is paired with the same call on the numpy arrays of the values (series.to_numpy(), weights.to_numpy()), i.e. values
        and weights are paired by position. Every container is built OUTSIDE the recorded calls (an error of pandas / polars /
        xarray / dask while building is a harness problem, not a refusal by physt), and its positional content is checked."""
        import dask.array as da
        import pandas as pd
        import polars as pl
        import xarray as xr
        from physt import h, h1, h2, h3
        import physt.compat.pandas  # noqa: F401
        import physt.compat.polars  # noqa: F401
        d, names, dropna, n = case["d"], case["names"], case["dropna"], len(case["data"])
        extra, wcol = case["extra"], case["wcol"]
        opened = set(case.get("open", []))
        has_none = any(v is None for r in case["data"] for v in r)
        dt = int if case["ints"] and not has_none else float
        A = np.array([[np.nan if v is None else v for v in r] for r in case["data"]], dtype=dt).reshape(n, d)
        ws = None if case["weights"] is None else np.array(case["weights"], dtype=case["wkind"])
        ddt, wnull = case["ddtype"], case["wnullable"]
        DI = build_index(case["dlabels"], n, case.get("index_name"))
        WI = build_index(case["wlabels"], n)
        kw = dict(dropna=dropna)
        invalid = has_none and not dropna
        out = {"results": {}, "refusals": {}, "pairs": {}, "outcomes": {}}
        log, why = [], {}

        def mkb():
            return [impl1.mk_binning(b) for b in case["binning"]]

        def run(name, f, snap):
            try:
                return snap(f())
            except Exception as e:
                log.append(f"{name}: {type(e).__name__}: {e}"[:160])
                return "REFUSED"

        def P(name, f, ref, snap, names=None, must=True):
            name = "labelled_" + name
            out["pairs"][name] = {"got": run(name, f, snap), "ref": ref, "names": names, "must": must, "invalid": invalid}

        def same_content(got, exp, what):
            got = np.asarray(got, dtype=float).reshape(np.asarray(exp).shape)
            if not np.array_equal(got, np.asarray(exp, dtype=float), equal_nan=True):
                raise AssertionError(f"harness: {what} holds {got.tolist()}, expected {np.asarray(exp).tolist()}")

        def nullable_w(s):
            return s.astype("Int64" if ws.dtype.kind == "i" else "Float64") if wnull else s

        def frame(index):
            """the data as a frame with these labels (nullable columns on request)"""
            df = pd.DataFrame(A, columns=names)
            df.index = index
            return df.astype(ddt) if ddt else df

        def values_of(obj):
            return obj.to_numpy(dtype=float, na_value=np.nan)
        # a nullable column with pd.NA: whether NA counts as a NaN entry (dropped) or as a null (refused) is not said -- an accepted
        # call must give the histogram of the array with NaN there
        pm = not (ddt is not None and has_none)
        df = frame(DI)
        same_content(values_of(df), A, "the labelled frame")
        W = None if ws is None else nullable_w(pd.Series(ws, index=WI, name=case["wname"]))
        if W is not None:
            same_content(values_of(W), ws, "the labelled weights")
        # a column sorted / a frame filtered (the labels travel with the rows), the weights numbered afresh
        dfp = df.assign(**{"_pos": np.arange(n)})
        dfs = dfp.sort_values(names[0]).drop(columns="_pos")
        order = dfp.sort_values(names[0])["_pos"].to_numpy()
        same_content(values_of(dfs), A[order], "the sorted frame")
        keep = np.array(case["keep"], dtype=bool)
        dff = df[keep]
        same_content(values_of(dff), A[keep], "the filtered frame")
        Wf = None if ws is None else nullable_w(pd.Series(ws[keep], name=case["wname"]))
        # xarray: the labels as coordinates (a MultiIndex is left out: positions backwards instead)
        xcoord = np.arange(n)[::-1] if isinstance(DI, pd.MultiIndex) else np.asarray(DI)
        wcoord = np.arange(n)[::-1] if isinstance(WI, pd.MultiIndex) else np.asarray(WI)
        xw = None if ws is None else xr.DataArray(ws, dims="i", coords={"i": wcoord}, name="w")
        dw = None if ws is None else da.from_array(ws, chunks=extra["wchunk"])
        polars_w = ws is not None and (ws.dtype.kind == "f" or "polars_int_weights" in opened)
        pw = pl.Series("w", ws) if polars_w else None
        if d == 1:
            x, col = A[:, 0], names[0]
            S = df[col]

            def b():
                return mkb()[0]
            ref = run("ref", lambda: h1(x, b(), weights=ws, **kw), s1)
            out["results"]["array"] = ref
            decoy = np.ones(n) if ws is None else ws[::-1].copy()
            dfd = df.assign(**{wcol: decoy})            # a column called like the weights, holding something else
            P("facade", lambda: h1(S, b(), weights=W, **kw), ref, s1, col, pm)
            P("series_accessor_h1", lambda: S.physt.h1(b(), weights=W, **kw), ref, s1, col, pm)
            P("series_accessor_histogram", lambda: S.physt.histogram(b(), weights=W, **kw), ref, s1, col, pm)
            P("frame_accessor_h1_external", lambda: dfd.physt.h1(col, b(), weights=W, **kw), ref, s1, col, pm)
            P("frame_accessor_histogram_external", lambda: dfd.physt.histogram(col, b(), weights=W, **kw), ref, s1, col, pm)
            P("frame1_accessor_h1_nocolumn", lambda: df.physt.h1(bins=b(), weights=W, **kw), ref, s1, col, pm)
            if "tuple_form_args" in opened or (W is None and dropna):
                P("tuple_form_series", lambda: h1(("grp", S), b(), weights=W, **kw), ref, s1, col, pm)
            if ws is not None:
                dfw = df.assign(**{wcol: nullable_w(pd.Series(ws, index=DI))})
                same_content(values_of(dfw[wcol]), ws, "the weight column")
                other = pd.DataFrame({wcol: ws, col: np.zeros(n)}, index=WI)
                ow = nullable_w(other[wcol])
                P("frame_accessor_h1_column", lambda: dfw.physt.h1(col, b(), weights=wcol, **kw), ref, s1, col, pm)
                P("facade_array_weights", lambda: h1(S, b(), weights=ws, **kw), ref, s1, col, pm)
                P("series_accessor_array_weights", lambda: S.physt.h1(b(), weights=ws, **kw), ref, s1, col, pm)
                P("array_series_weights", lambda: h1(x, b(), weights=W, **kw), ref, s1)
                P("list_series_weights", lambda: h1(x.tolist(), b(), weights=W, **kw), ref, s1)
                P("series_accessor_weights_column_of_other_frame", lambda: S.physt.h1(b(), weights=ow, **kw), ref, s1, col, pm)
                P("frame_accessor_h1_weights_column_of_other_frame", lambda: dfd.physt.h1(col, b(), weights=ow, **kw), ref, s1, col, pm)
                # sorted / filtered data: the same rows in another order keep their weights when these come from the same frame,
                # and are paired by position with weights that were numbered afresh
                dfws = dfw.iloc[order]
                ref_sorted = run("ref_sorted", lambda: h1(x[order], b(), weights=ws, **kw), s1)
                ref_moved = run("ref_moved", lambda: h1(x[order], b(), weights=ws[order], **kw), s1)
                ref_kept = run("ref_kept", lambda: h1(x[keep], b(), weights=ws[keep], **kw), s1)
                Ss, Sf = dfs[col], dff[col]
                P("sorted_frame_weights_column", lambda: dfws.physt.h1(col, b(), weights=wcol, **kw), ref_moved, s1, col, pm)
                P("sorted_series_fresh_weights.facade", lambda: h1(Ss, b(), weights=W, **kw), ref_sorted, s1, col, pm)
                P("sorted_series_fresh_weights.accessor", lambda: Ss.physt.h1(b(), weights=W, **kw), ref_sorted, s1, col, pm)
                P("sorted_frame_fresh_weights.accessor", lambda: dfs.physt.h1(col, b(), weights=W, **kw), ref_sorted, s1, col, pm)
                P("filtered_series_fresh_weights.facade", lambda: h1(Sf, b(), weights=Wf, **kw), ref_kept, s1, col, pm)
                P("filtered_series_fresh_weights.accessor", lambda: Sf.physt.h1(b(), weights=Wf, **kw), ref_kept, s1, col, pm)
                P("filtered_frame_fresh_weights.accessor", lambda: dff.physt.h1(col, b(), weights=Wf, **kw), ref_kept, s1, col, pm)
                P("filtered_frame_array_weights.accessor", lambda: dff.physt.h1(col, b(), weights=ws[keep], **kw), ref_kept, s1, col, pm)
            # polars (no labels: positional by construction), with labelled pandas weights and the other way round
            pser = pl.Series(col, x)
            P("polars_series_pandas_weights", lambda: h1(pser, b(), weights=W, **kw), ref, s1, col)
            P("polars_accessor_pandas_weights", lambda: pser.physt.h1(b(), weights=W, **kw), ref, s1, col)
            if pw is not None:
                P("series_accessor_polars_weights", lambda: S.physt.h1(b(), weights=pw, **kw), ref, s1, col, pm)
            # dask arrays with labelled weights; dask / xarray weights and xarray data are not among the containers of the
            # property: recorded, an accepted call must give the array's histogram
            darr = da.from_array(x, chunks=extra["chunk"])
            P("dask_array_pandas_weights", lambda: h1(darr, b(), weights=W, **kw), ref, s1)
            xa = xr.DataArray(x, dims="i", coords={"i": xcoord}, name=col)
            P("xarray_h1", lambda: h1(xa, b(), weights=xw, **kw), ref, s1, None, False)
            if ws is not None:
                P("xarray_pandas_weights", lambda: h1(xa, b(), weights=W, **kw), ref, s1, None, False)
                P("series_accessor_xarray_weights", lambda: S.physt.h1(b(), weights=xw, **kw), ref, s1, col, False)
                P("series_accessor_dask_weights", lambda: S.physt.h1(b(), weights=dw, **kw), ref, s1, col, False)
        else:
            sub = extra["sub"]
            snames = [names[i] for i in sub]

            def subb():
                bb = mkb()
                return [bb[i] for i in sub]
            ref = run("ref", lambda: h(A, mkb(), weights=ws, **kw), sn)
            out["results"]["array"] = ref
            ref_sub = run("ref_sub", lambda: h(A[:, sub], subb(), weights=ws, **kw), sn)
            P("h_frame", lambda: h(df, mkb(), weights=W, **kw), ref, sn, names, pm)
            P("frame_accessor_histogram", lambda: df.physt.histogram(None, mkb(), weights=W, **kw), ref, sn, names, pm)
            P("frame_accessor_histogram_subset", lambda: df.physt.histogram(snames, subb(), weights=W, **kw), ref_sub, sn, snames, pm)
            P("frame_accessor_h2_subset", lambda: df.physt.h2(snames[0], snames[1], subb(), weights=W, **kw), ref_sub, sn, snames, pm)
            S0, S1 = df[snames[0]], df[snames[1]]
            S1o = pd.Series(A[:, sub[1]], index=WI, name=snames[1])         # the second coordinate with the labels of the weights
            P("h2_series", lambda: h2(S0, S1, subb(), weights=W, **kw), ref_sub, sn, snames, pm)
            P("h2_series_differently_labelled", lambda: h2(S0, S1o, subb(), weights=W, **kw), ref_sub, sn, snames, pm)
            P("h2_series_and_array", lambda: h2(S0, A[:, sub[1]], subb(), weights=W, **kw), ref_sub, sn, None, pm)
            if d == 2:
                P("frame_accessor_h2_nocolumns", lambda: df.physt.h2(bins=mkb(), weights=W, **kw), ref, sn, names, pm)
            if d == 3:
                P("h3_frame", lambda: h3(df, mkb(), weights=W, **kw), ref, sn, names, pm)
            if ws is not None:
                P("h_frame_array_weights", lambda: h(df, mkb(), weights=ws, **kw), ref, sn, names, pm)
                P("h_array_series_weights", lambda: h(A, mkb(), weights=W, **kw), ref, sn)
                ref_sorted = run("ref_sorted", lambda: h(A[order], mkb(), weights=ws, **kw), sn)
                ref_kept = run("ref_kept", lambda: h(A[keep], mkb(), weights=ws[keep], **kw), sn)
                P("sorted_frame_fresh_weights.facade", lambda: h(dfs, mkb(), weights=W, **kw), ref_sorted, sn, names, pm)
                P("sorted_frame_fresh_weights.accessor", lambda: dfs.physt.histogram(None, mkb(), weights=W, **kw), ref_sorted, sn, names, pm)
                P("filtered_frame_fresh_weights.facade", lambda: h(dff, mkb(), weights=Wf, **kw), ref_kept, sn, names, pm)
                P("filtered_frame_fresh_weights.accessor", lambda: dff.physt.histogram(None, mkb(), weights=Wf, **kw), ref_kept, sn, names, pm)
            pdf = pl.DataFrame({nm: A[:, j] for j, nm in enumerate(names)})
            P("polars_frame_pandas_weights", lambda: h(pdf, mkb(), weights=W, **kw), ref, sn, names)
            P("polars_accessor_pandas_weights", lambda: pdf.physt.h(bins=mkb(), weights=W, **kw), ref, sn, names)
            if pw is not None:
                P("h_frame_polars_weights", lambda: h(df, mkb(), weights=pw, **kw), ref, sn, names, pm)
            darr = da.from_array(A, chunks=(extra["chunk"], extra["colchunk"]))
            P("dask_array_pandas_weights", lambda: h(darr, mkb(), weights=W, **kw), ref, sn)
            d0, d1 = da.from_array(A[:, sub[0]], chunks=extra["chunk"]), da.from_array(A[:, sub[1]], chunks=n)
            P("dask_columns_h2_pandas_weights", lambda: h2(d0, d1, subb(), weights=W, **kw), ref_sub, sn)
            xA = xr.DataArray(A, dims=("i", "c"), coords={"i": xcoord, "c": names}, name="table")
            P("xarray_h", lambda: h(xA, mkb(), weights=xw, **kw), ref, sn, None, False)
            if ws is not None:
                P("h_frame_xarray_weights", lambda: h(df, mkb(), weights=xw, **kw), ref, sn, names, False)
                P("h_frame_dask_weights", lambda: h(df, mkb(), weights=dw, **kw), ref, sn, names, False)
        # no call may have changed the containers handed to it (values and labels)
        out["touched"] = []
        df0 = frame(DI)
        if not df.equals(df0) or not df.index.equals(df0.index):
            out["touched"].append(f"the labelled frame holds {values_of(df).tolist()} under {list(df.index)[:8]} after the calls"[:300])
        if W is not None:
            W0 = nullable_w(pd.Series(ws, index=WI, name=case["wname"]))
            if not W.equals(W0) or not W.index.equals(W0.index):
                out["touched"].append(f"the labelled weights hold {values_of(W).tolist()} under {list(W.index)[:8]} after the calls"[:300])
        return {"outs": out, "log": log, "why": why}

    # ------------------------------------------------------------------ entries that are not finite and not NaN
    def run_nonfinite(self, case):
        """every container of the data (with rows / entries holding infinities or huge finite values) against the same call on the
        numpy array; the containers are built outside the recorded calls"""
        import dask.array as da
        import pandas as pd
        import polars as pl
        from physt import h, h1, h2, h3
        import physt.compat.pandas  # noqa: F401
        import physt.compat.polars  # noqa: F401
        d, names, dropna, n = case["d"], case["names"], case["dropna"], len(case["data"])
        extra = case["extra"]
        opened = set(case.get("open", []))
        A = np.array([[dec_value(v) for v in r] for r in case["data"]], dtype=float).reshape(n, d)
        ws = None if case["weights"] is None else np.array(case["weights"], dtype=case["wkind"])
        wl = None if ws is None else ws.tolist()
        kw = dict(dropna=dropna)
        invalid = any(v is None for r in case["data"] for v in r) and not dropna
        out = {"results": {}, "refusals": {}, "pairs": {}, "outcomes": {}}
        log, why = [], {}

        def mkb():
            return [impl1.mk_binning(b) for b in case["binning"]]

        def run(name, f, snap):
            try:
                return snap(f())
            except Exception as e:
                log.append(f"{name}: {type(e).__name__}: {e}"[:160])
                return "REFUSED"

        def P(name, f, ref, snap, names=None, must=True):
            name = "nonfinite_" + name
            out["pairs"][name] = {"got": run(name, f, snap), "ref": ref, "names": names, "must": must, "invalid": invalid}
        W = None if ws is None else pd.Series(ws, name="w")
        pw = pl.Series("w", ws) if ws is not None and (ws.dtype.kind == "f" or "polars_int_weights" in opened) else None
        if d == 1:
            x, col = A[:, 0].copy(), names[0]

            def b():
                return mkb()[0]
            ref = run("ref", lambda: h1(x, b(), weights=ws, **kw), light1)
            out["results"]["array"] = ref
            P("list", lambda: h1(x.tolist(), b(), weights=wl, **kw), ref, light1)
            P("tuple", lambda: h1(tuple(x.tolist()), b(), weights=ws, **kw), ref, light1)
            P("iterator", lambda: h1(iter(x.tolist()), b(), weights=ws, **kw), ref, light1)
            if n % 2 == 0 and n >= 4:
                x2 = x.reshape(2, -1)
                w2 = None if ws is None else ws.reshape(2, -1)
                P("array2d", lambda: h1(x2, b(), weights=w2, **kw), ref, light1)
                P("array2d_F", lambda: h1(np.asfortranarray(x2), b(), weights=w2, **kw), ref, light1)
                P("array2d_transposed_view", lambda: h1(x2.T.copy().T, b(), weights=None if w2 is None else w2.T.copy().T, **kw), ref, light1)
                P("nested_list", lambda: h1(x2.tolist(), b(), weights=None if w2 is None else w2.tolist(), **kw), ref, light1)
                P("nested_tuple", lambda: h1(tuple(map(tuple, x2.tolist())), b(), weights=w2, **kw), ref, light1)
                P("iterator_of_rows", lambda: h1(iter(x2.tolist()), b(), weights=w2, **kw), ref, light1)
            S = pd.Series(x, name=col)
            P("pandas_series", lambda: h1(S, b(), weights=ws, **kw), ref, light1, col)
            P("pandas_series_series_weights", lambda: h1(S, b(), weights=W, **kw), ref, light1, col)
            P("pandas_accessor_h1", lambda: S.physt.h1(b(), weights=ws, **kw), ref, light1, col)
            P("pandas_accessor_histogram", lambda: S.physt.histogram(b(), weights=W, **kw), ref, light1, col)
            df = pd.DataFrame({col: x, "w": np.ones(n) if ws is None else ws})
            df1 = pd.DataFrame({col: x})
            P("pandas_frame_accessor_h1_column", lambda: df.physt.h1(col, b(), weights=None if ws is None else "w", **kw), ref, light1, col)
            P("pandas_frame_accessor_histogram", lambda: df.physt.histogram(col, b(), weights=ws, **kw), ref, light1, col)
            P("pandas_frame1_accessor_h1_nocolumn", lambda: df1.physt.h1(bins=b(), weights=ws, **kw), ref, light1, col)
            pser = pl.Series(col, x)
            P("polars_series", lambda: h1(pser, b(), weights=ws, **kw), ref, light1, col)
            P("polars_accessor", lambda: pser.physt.h1(b(), weights=ws, **kw), ref, light1, col)
            P("polars_series_pandas_weights", lambda: h1(pser, b(), weights=W, **kw), ref, light1, col)
            if pw is not None:
                P("polars_series_polars_weights", lambda: pser.physt.h1(b(), weights=pw, **kw), ref, light1, col)
                P("array_polars_weights", lambda: h1(x, b(), weights=pw, **kw), ref, light1)
            darr = da.from_array(x, chunks=extra["chunk"])
            P("dask_plain_h1", lambda: h1(darr, b(), weights=ws, **kw), ref, light1)
            if "tuple_form_args" in opened or (ws is None and dropna):
                P("tuple_form", lambda: h1(("grp", x), b(), weights=ws, **kw), ref, light1)
                P("tuple_form_series", lambda: h1(("grp", S), b(), weights=ws, **kw), ref, light1, col)
            content = [(x, A[:, 0], "the array"), (S.to_numpy(), A[:, 0], "the pandas Series"), (pser.to_numpy(), A[:, 0], "the polars Series")]
        else:
            sub = extra["sub"]
            snames = [names[i] for i in sub]
            A0 = A.copy()

            def subb():
                bb = mkb()
                return [bb[i] for i in sub]
            ref = run("ref", lambda: h(A, mkb(), weights=ws, **kw), lightn)
            out["results"]["array"] = ref
            P("list", lambda: h(A.tolist(), mkb(), weights=wl, **kw), ref, lightn)
            P("tuple", lambda: h(tuple(map(tuple, A.tolist())), mkb(), weights=ws, **kw), ref, lightn)
            P("array_F", lambda: h(np.asfortranarray(A), mkb(), weights=ws, **kw), ref, lightn)
            df = pd.DataFrame(A, columns=names)
            P("pandas_frame", lambda: h(df, mkb(), weights=ws, **kw), ref, lightn, names)
            P("pandas_frame_series_weights", lambda: h(df, mkb(), weights=W, **kw), ref, lightn, names)
            P("pandas_frame_accessor", lambda: df.physt.histogram(None, mkb(), weights=ws, **kw), ref, lightn, names)
            pdf = pl.DataFrame({nm: A[:, j] for j, nm in enumerate(names)})
            P("polars_frame", lambda: h(pdf, mkb(), weights=ws, **kw), ref, lightn, names)
            P("polars_frame_accessor", lambda: pdf.physt.h(bins=mkb(), weights=ws, **kw), ref, lightn, names)
            if pw is not None:
                P("polars_frame_polars_weights", lambda: h(pdf, mkb(), weights=pw, **kw), ref, lightn, names)
            darr = da.from_array(A, chunks=(extra["chunk"], extra["colchunk"]))
            P("dask_plain_h", lambda: h(darr, mkb(), weights=ws, **kw), ref, lightn)
            # two columns: h2 of every carrier, the frame accessors with a column selection
            ref_sub = run("ref_sub", lambda: h(A[:, sub], subb(), weights=ws, **kw), lightn)
            out["ref_sub"] = ref_sub
            c0, c1 = A[:, sub[0]].copy(), A[:, sub[1]].copy()
            P("h2_arrays", lambda: h2(c0, c1, subb(), weights=ws, **kw), ref_sub, lightn)
            P("h2_lists", lambda: h2(c0.tolist(), c1.tolist(), subb(), weights=wl, **kw), ref_sub, lightn)
            P("h2_tuples", lambda: h2(tuple(c0.tolist()), tuple(c1.tolist()), subb(), weights=ws, **kw), ref_sub, lightn)
            P("h2_pandas_series", lambda: h2(df[snames[0]], df[snames[1]], subb(), weights=ws, **kw), ref_sub, lightn, snames)
            P("h2_polars_series", lambda: h2(pdf[snames[0]], pdf[snames[1]], subb(), weights=ws, **kw), ref_sub, lightn, snames)
            P("h2_series_and_array", lambda: h2(df[snames[0]], c1, subb(), weights=W, **kw), ref_sub, lightn)
            if n % 2 == 0 and n >= 4:
                P("h2_2d_arrays", lambda: h2(c0.reshape(2, -1), c1.reshape(2, -1), subb(), weights=ws, **kw), ref_sub, lightn)
            P("pandas_frame_accessor_h2", lambda: df.physt.h2(snames[0], snames[1], subb(), weights=ws, **kw), ref_sub, lightn, snames)
            P("pandas_frame_accessor_histogram_subset", lambda: df.physt.histogram(snames, subb(), weights=ws, **kw), ref_sub, lightn, snames)
            P("polars_frame_accessor_2sel", lambda: pdf.physt.h(*snames, bins=subb(), weights=ws, **kw), ref_sub, lightn, snames)
            if d == 2:
                P("pandas_frame_accessor_h2_nocolumns", lambda: df.physt.h2(bins=mkb(), weights=ws, **kw), ref, lightn, names)
            if d == 3:
                P("h3", lambda: h3(A, mkb(), weights=ws, **kw), ref, lightn)
                P("h3_columns", lambda: h3([A[:, 0], A[:, 1], A[:, 2]], mkb(), weights=ws, **kw), ref, lightn)
                P("h3_frame", lambda: h3(df, mkb(), weights=ws, **kw), ref, lightn, names)
            content = [(A, A0, "the array"), (df.to_numpy(), A0, "the pandas frame"), (pdf.to_numpy(), A0, "the polars frame")]
        # no call may have changed what was handed to it
        out["touched"] = [f"{what} holds {np.asarray(now).tolist()} after the calls"[:300] for now, before, what in content
                          if not np.array_equal(np.asarray(now, dtype=float).reshape(np.shape(before)), before, equal_nan=True)]
        if ws is not None and not np.array_equal(ws, np.array(case["weights"], dtype=case["wkind"])):
            out["touched"].append(f"the weights hold {ws.tolist()} after the calls"[:300])
        return {"outs": out, "log": log, "why": why}

    # ------------------------------------------------------------------ weights of the right size and another shape
    def run_wshape(self, case):
        """each carrier of the data with the weights in every shape of the right size: 'same' (the shape of the data; rows: (n,)), a
        column (n, 1), a row (1, n), (n, 1, 1), another factorisation (a, b), flat / transposed for a 2-D data array, 0-d for one
        value. For every shape the call on the numpy array is the reference of the other carriers (accepted or refused)."""
        import dask.array as da
        import pandas as pd
        import polars as pl
        from physt import h, h1, h2, h3
        import physt.compat.pandas  # noqa: F401
        import physt.compat.polars  # noqa: F401
        d, names, dropna, n = case["d"], case["names"], case["dropna"], len(case["data"])
        r, c = case["rc"]
        if r * c != n:
            raise AssertionError(f"harness: a {r} x {c} table of {n} values")
        dt = int if case["ints"] and not any(v is None for row in case["data"] for v in row) else float
        A = np.array([[dec_value(v) for v in row] for row in case["data"]], dtype=dt).reshape(n, d)
        ws = np.array(case["weights"], dtype=case["wkind"])
        as_list = case["wcontainer"] == "list"
        kw = dict(dropna=dropna)
        out = {"results": {}, "refusals": {}, "pairs": {}, "outcomes": {}, "wrefs": {}, "wpairs": {}}
        log, why = [], {}

        def mkb():
            return [impl1.mk_binning(b) for b in case["binning"]]

        def b():
            return mkb()[0]

        def run(name, f, snap):
            try:
                return snap(f())
            except Exception as e:
                log.append(f"{name}: {type(e).__name__}: {e}"[:160])
                return "REFUSED"

        def wmake(sname, shape):
            w = ws.reshape(r, c).T if sname == "transposed" else ws.reshape(shape)        # the transposed weights: a view
            if w.shape != tuple(shape) or (sname != "transposed" and not np.array_equal(w.ravel(), ws)):
                raise AssertionError(f"harness: weights of shape {w.shape} for {shape}")
            return w.tolist() if as_list else w          # 0-d as a list: a python number

        def group(gname, dshape, same_shape, shapes, carriers, snap):
            """carriers[0] is the numpy call; shapes: (name, shape, one_axis) -- one_axis: all axes but one have length 1, so the order
            of the weights is not in question"""
            seen = {tuple(same_shape)}
            todo = [("same", tuple(same_shape), True)]
            for sname, shp, one in shapes:
                if tuple(shp) not in seen:
                    seen.add(tuple(shp))
                    todo.append((sname, tuple(shp), one))
            same = None
            for sname, shp, one in todo:
                key = f"{gname}.{sname}"
                w = wmake(sname, shp)
                ref = run(f"wshape_{gname}_numpy.{sname}", lambda: carriers[0][1](w), snap)
                if sname == "same":
                    same = ref
                out["wrefs"][key] = {"ref": ref, "same": same, "dshape": list(dshape), "wshape": list(shp), "one_axis": one,
                                     "mismatch": sname != "same", "call": carriers[0][0]}
                for cname, f, axn in carriers[1:]:
                    nm = f"wshape_{gname}_{cname}.{sname}"
                    out["wpairs"][nm] = {"got": run(nm, lambda: f(w), snap), "group": key, "names": axn}
            return same
        pair = factor_pair(n)
        if d == 1:
            x, col = A[:, 0].copy(), names[0]
            S, pser, darr = pd.Series(x, name=col), pl.Series(col, x), da.from_array(x, chunks=case["extra"]["chunk"])
            df = pd.DataFrame({col: x, "other": np.zeros(n)})
            flat_shapes = [("column", (n, 1), True), ("row", (1, n), True), ("cube", (n, 1, 1), True)]
            if r > 1 and c > 1:
                flat_shapes.append(("table", (r, c), False))
            if n == 1:
                flat_shapes.append(("zero_d", (), True))
            same = group("flat", (n,), (n,), flat_shapes, [
                ("h1(numpy array of shape (n,))", lambda w: h1(x, b(), weights=w, **kw), None),
                ("list", lambda w: h1(x.tolist(), b(), weights=w, **kw), None),
                ("tuple", lambda w: h1(tuple(x.tolist()), b(), weights=w, **kw), None),
                ("iterator", lambda w: h1(iter(x.tolist()), b(), weights=w, **kw), None),
                ("pandas_series", lambda w: h1(S, b(), weights=w, **kw), col),
                ("pandas_accessor", lambda w: S.physt.h1(b(), weights=w, **kw), col),
                ("pandas_frame_accessor", lambda w: df.physt.h1(col, b(), weights=w, **kw), col),
                ("polars_series", lambda w: h1(pser, b(), weights=w, **kw), col),
                ("polars_accessor", lambda w: pser.physt.h1(b(), weights=w, **kw), col),
                ("dask_plain", lambda w: h1(darr, b(), weights=w, **kw), None)], light1)
            out["results"]["array"] = same
            T = x.reshape(r, c)
            table_shapes = [("flat", (n,), True), ("transposed", (c, r), r == 1 or c == 1), ("column", (n, 1), True), ("row", (1, n), True)]
            tsame = group("table", (r, c), (r, c), table_shapes, [
                ("h1(numpy array of shape (r, c))", lambda w: h1(T, b(), weights=w, **kw), None),
                ("array_F", lambda w: h1(np.asfortranarray(T), b(), weights=w, **kw), None),
                ("nested_list", lambda w: h1(T.tolist(), b(), weights=w, **kw), None),
                ("nested_tuple", lambda w: h1(tuple(map(tuple, T.tolist())), b(), weights=w, **kw), None),
                ("iterator_of_rows", lambda w: h1(iter(T.tolist()), b(), weights=w, **kw), None),
                ("list_of_arrays", lambda w: h1(list(T), b(), weights=w, **kw), None)], light1)
            out["pairs"]["wshape_table_numpy.same"] = {"got": tsame, "ref": same, "names": None, "must": True,
                                                       "invalid": any(v is None for row in case["data"] for v in row) and not dropna}
        else:
            df = pd.DataFrame(A, columns=names)
            pdf = pl.DataFrame({nm: A[:, j] for j, nm in enumerate(names)})
            shapes = [("column", (n, 1), True), ("row", (1, n), True), ("cube", (n, 1, 1), True)]
            if pair is not None:
                shapes.append(("table", pair, False))
            if n == 1:
                shapes.append(("zero_d", (), True))
            carriers = [("h(numpy array of shape (n, d))", lambda w: h(A, mkb(), weights=w, **kw), None),
                        ("list", lambda w: h(A.tolist(), mkb(), weights=w, **kw), None),
                        ("tuple", lambda w: h(tuple(map(tuple, A.tolist())), mkb(), weights=w, **kw), None),
                        ("array_F", lambda w: h(np.asfortranarray(A), mkb(), weights=w, **kw), None),
                        ("pandas_frame", lambda w: h(df, mkb(), weights=w, **kw), names),
                        ("pandas_frame_accessor", lambda w: df.physt.histogram(None, mkb(), weights=w, **kw), names),
                        ("polars_frame", lambda w: h(pdf, mkb(), weights=w, **kw), names),
                        ("polars_frame_accessor", lambda w: pdf.physt.h(bins=mkb(), weights=w, **kw), names)]
            if d == 2:
                carriers += [("h2_arrays", lambda w: h2(A[:, 0], A[:, 1], mkb(), weights=w, **kw), None),
                             ("h2_lists", lambda w: h2(A[:, 0].tolist(), A[:, 1].tolist(), mkb(), weights=w, **kw), None),
                             ("h2_pandas_series", lambda w: h2(df[names[0]], df[names[1]], mkb(), weights=w, **kw), names),
                             ("h2_polars_series", lambda w: h2(pdf[names[0]], pdf[names[1]], mkb(), weights=w, **kw), names),
                             ("pandas_frame_accessor_h2", lambda w: df.physt.h2(names[0], names[1], mkb(), weights=w, **kw), names)]
            else:
                carriers += [("h3", lambda w: h3(A, mkb(), weights=w, **kw), None),
                             ("h3_columns", lambda w: h3([A[:, 0], A[:, 1], A[:, 2]], mkb(), weights=w, **kw), None),
                             ("h3_frame", lambda w: h3(df, mkb(), weights=w, **kw), names)]
            out["results"]["array"] = group("rows", (n, d), (n,), shapes, carriers, lightn)
        if not np.array_equal(ws, np.array(case["weights"], dtype=case["wkind"])):
            out["touched"] = [f"the weights hold {ws.tolist()} after the calls"[:300]]
        return {"outs": out, "log": log, "why": why}

    def run_eltype(self, case):
        """every carrier of the narrow element type against the call on the float64 array of the same values"""
        import dask.array as da
        import pandas as pd
        import polars as pl
        from physt import h, h1, h2
        import physt.compat.pandas  # noqa: F401
        import physt.compat.polars  # noqa: F401
        ctype, wtype, spec = case["ctype"], case["wtype"], case["spec"]
        xs = [r[0] for r in case["data"]]
        ys = case["y"]
        n = len(xs)
        x64 = np.array([np.nan if v is None else v for v in xs], dtype=np.float64)
        y64 = np.array(ys, dtype=np.float64)
        w64 = None if case["weights"] is None else np.array(case["weights"], dtype=case["wkind"])
        chunk = max(1, min(case["extra"]["chunk"], n))
        out = {"results": {}, "refusals": {}, "pairs": {}, "outcomes": {}}
        log = []

        def bins1():
            """(bins argument, keyword arguments) of the 1-D calls, made afresh for every call"""
            m = spec["m"]
            if m == "explicit":
                return impl1.mk_binning(case["binning"][0]), {}
            if m == "int":
                return spec["k"], {}
            if m == "int_range":
                return spec["k"], {"range": tuple(spec["range"])}
            if m == "default":
                return None, {}
            return m, {k: v for k, v in spec.items() if k != "m"}

        def bins2():
            if spec["m"] == "explicit":
                return [impl1.mk_binning(case["binning"][0]), case["k2"]]
            if spec["m"] in ("int", "int_range"):
                return [spec["k"], case["k2"]]
            return case["k2"]

        def run(name, f, snap):
            try:
                with np.errstate(all="ignore"):
                    return snap(f())
            except Exception as e:
                log.append(f"{name}: {type(e).__name__}: {e}"[:160])
                return "REFUSED"

        def call1(data, w):
            b, kw = bins1()
            return h1(data, b, weights=w, **kw)

        def data_carriers(values, t, name):
            """(label, () -> container) of every carrier of the values in element type t; containers are built afresh"""
            a = eltype_array(values, t)
            py = eltype_python(values, t) if t in PY_TYPES else a.tolist()
            cs = [("numpy", lambda: a.copy()), ("numpy_strided", lambda: np.repeat(a, 2)[::2]), ("list_python", lambda: list(py)),
                  ("tuple_python", lambda: tuple(py)), ("iterator_python", lambda: iter(list(py))),
                  ("generator_python", lambda: (v for v in py))]
            if t not in PY_TYPES:
                cs += [("list_scalars", lambda: list(a)), ("tuple_scalars", lambda: tuple(a)), ("iterator_scalars", lambda: iter(a)),
                       ("generator_scalars", lambda: (v for v in a)),
                       ("list_mixed", lambda: [v if i % 2 else p for i, (v, p) in enumerate(zip(a, py))])]
            cs += [("pandas_series", lambda: pd.Series(a.copy(), name=name)),
                   ("pandas_frame_column", lambda: pd.DataFrame({name: a.copy(), "other": np.arange(len(a))})[name]),
                   ("dask", lambda: da.from_array(a.copy(), chunks=chunk))]
            if t in PANDAS_NULLABLE and t != "pymixed":
                cs.append(("pandas_nullable", lambda: pd.Series(a.copy(), name=name).astype(PANDAS_NULLABLE[t])))
            if t not in ("float16", "pymixed") and (t != "bool" or POLARS_TAKES_BOOL_DATA):
                cs.append(("polars_series", lambda: pl.Series(name, a.copy())))
            return a, cs

        # ---- the reference: the float64 array of the exact values, weights int64 / float64
        ref = run("array", lambda: call1(x64.copy(), w64), elight1)
        out["results"]["array"] = ref
        ref_now = ref if w64 is None else run("array_noweights", lambda: call1(x64.copy(), None), elight1)
        xa, xcs = data_carriers(xs, ctype, "col0")

        def P(name, f, r, snap, weights_only=False):
            out["pairs"][name] = {"got": run(name, f, snap), "ref": r, "names": None, "must": True, "wnarrow": weights_only}

        wcs = []
        if w64 is not None:
            wa, wcs = data_carriers(case["weights"], wtype, "w")
            wcs = [(l, mk) for l, mk in wcs if "iterator" not in l and "generator" not in l]       # an iterator of weights: not the property's
        # (1) data in the narrow type, weights int64 / float64 (or none)
        for label, mk in xcs:
            P(f"eltype_data_{label}", lambda mk=mk: call1(mk(), w64), ref, elight1)
        P("eltype_data_name_values", lambda: call1(("some name", xa.copy()), w64), ref, elight1)
        P("eltype_data_pandas_accessor", lambda: pd.Series(xa.copy(), name="col0").physt.h1(bins1()[0], weights=w64, **bins1()[1]), ref, elight1)
        P("eltype_data_pandas_frame_accessor", lambda: pd.DataFrame({"col0": xa.copy(), "o": np.arange(n)}).physt.h1("col0", bins1()[0], weights=w64, **bins1()[1]),
          ref, elight1)
        polars_ok = ctype not in ("float16", "pymixed") and (ctype != "bool" or POLARS_TAKES_BOOL_DATA)
        if polars_ok:
            P("eltype_data_polars_namespace", lambda: pl.Series("col0", xa.copy()).physt.h1(bins1()[0], weights=w64, **bins1()[1]), ref, elight1)
        # (2) weights in the narrow type, data float64; (3) both narrow, in the same kind of container
        xmk = dict(xcs)
        for label, mk in wcs:
            P(f"eltype_weights_{label}", lambda mk=mk: call1(x64.copy(), mk()), ref, elight1, weights_only=True)
            if label in xmk:
                P(f"eltype_both_{label}", lambda mk=mk, dm=xmk[label]: call1(dm(), mk()), ref, elight1, weights_only=True)
        # (4) fill_n: a histogram over the same bins (static: explicit bins; adaptive: fixed width) filled from the carrier
        if spec["m"] == "explicit":
            def filled(data, w):
                hh = h1(x64[:0].copy(), bins1()[0])
                hh.fill_n(data, weights=w)
                return hh
            fref = run("fill_n_array", lambda: filled(x64.copy(), w64), elight1)
        else:
            def filled(data, w):
                hh = h1(None, "fixed_width", bin_width=spec.get("bin_width", 0.5), adaptive=True)
                hh.fill_n(data, weights=w)
                return hh
            fref = run("fill_n_array", lambda: filled(x64.copy(), w64), elight1)
        out["results"]["fill_n_array"] = fref
        for label, mk in xcs:
            if label in ("numpy", "numpy_strided", "list_python", "list_scalars", "tuple_scalars", "pandas_series", "polars_series", "iterator_scalars"):
                P(f"eltype_fill_n_{label}", lambda mk=mk: filled(mk(), w64), fref, elight1)
        for label, mk in wcs:
            if label in ("numpy", "list_python", "pandas_series", "polars_series"):
                P(f"eltype_fill_n_weights_{label}", lambda mk=mk: filled(x64.copy(), mk()), fref, elight1, weights_only=True)
                if label in xmk:
                    P(f"eltype_fill_n_both_{label}", lambda mk=mk, dm=xmk[label]: filled(dm(), mk()), fref, elight1, weights_only=True)
        # (5) two columns: h2 / h and the frames (rows with a NaN are dropped with their weights)
        ya, ycs = data_carriers(ys, ctype, "col1")
        ymk = dict(ycs)
        ref2 = run("array2", lambda: h2(x64.copy(), y64.copy(), bins2(), weights=w64), elightn)
        out["results"]["array2"] = ref2
        both_kind = xa.dtype == ya.dtype
        for label in ("numpy", "numpy_strided", "list_python", "tuple_python", "list_scalars", "pandas_series", "polars_series", "dask"):
            if label in xmk and label in ymk:
                P(f"eltype_h2_{label}", lambda a=xmk[label], b=ymk[label]: h2(a(), b(), bins2(), weights=w64), ref2, elightn)
        if both_kind:
            tab = np.column_stack([xa, ya])
            P("eltype_h_table", lambda: h(tab.copy(), bins2(), weights=w64), ref2, elightn)
            P("eltype_h_table_fortran", lambda: h(np.asfortranarray(tab), bins2(), weights=w64), ref2, elightn)
            P("eltype_h_nested_list", lambda: h(tab.tolist(), bins2(), weights=w64), ref2, elightn)
            P("eltype_h_dask_table", lambda: h(da.from_array(tab.copy(), chunks=(chunk, 1)), bins2(), weights=w64), ref2, elightn)
        frame = lambda: pd.DataFrame({"col0": xa.copy(), "col1": ya.copy()})       # noqa: E731
        P("eltype_h_pandas_frame", lambda: h(frame(), bins2(), weights=w64), ref2, elightn)
        P("eltype_pandas_frame_h2", lambda: frame().physt.h2("col0", "col1", bins2(), weights=w64), ref2, elightn)
        P("eltype_pandas_frame_histogram", lambda: frame().physt.histogram(None, bins2(), weights=w64), ref2, elightn)
        if polars_ok:
            pframe = lambda: pl.DataFrame({"col0": xa.copy(), "col1": ya.copy()})      # noqa: E731
            P("eltype_h_polars_frame", lambda: h(pframe(), bins2(), weights=w64), ref2, elightn)
            P("eltype_polars_frame_namespace", lambda: pframe().physt.h(bins=bins2(), weights=w64), ref2, elightn)
        for label, mk in wcs:
            if label in ("numpy", "list_python", "tuple_python", "pandas_series", "polars_series", "dask"):
                P(f"eltype_h2_weights_{label}", lambda mk=mk: h2(x64.copy(), y64.copy(), bins2(), weights=mk()), ref2, elightn, weights_only=True)
                if label in xmk and label in ymk:
                    P(f"eltype_h2_both_{label}", lambda mk=mk, a=xmk[label], b=ymk[label]: h2(a(), b(), bins2(), weights=mk()), ref2, elightn,
                      weights_only=True)
        out["ref_noweights"] = ref_now
        return {"outs": out, "log": log, "why": {}}

    def model_case(self, case, io):
        """the reference call (plain numpy array) as a construction of the model; for the 'mutate' stream the array built from the
        content after the last change, for the 'nested' stream the table read row by row"""
        if case["kind"] not in ("containers", "mutate", "nested", "labelled", "nonfinite", "wshape", "eltype"):
            return None
        if case["kind"] == "eltype" and case["binning"] is None:
            return None         # bins derived from the data by a method: oracle only (explicit bins go through the model)
        if case["kind"] == "nonfinite" and any(is_infinite(v) for r in case["data"] for v in r):
            return None         # the model's values are rationals: no infinities (huge finite values are modelled)
        ref = io["outs"]["results"].get("array")
        if ref == "REFUSED" or ref is None:
            return None
        data, ws = case.get("data"), case["weights"]
        if case["kind"] == "mutate":
            data, ws = final_content(case)
        elif case["kind"] == "nested":
            data = [[v] for row in case["table"] for v in row]
            ws = None if ws is None else [w for row in ws for w in row]
        if case["d"] == 1:
            op = {"op": "construct", "out": 0, "binning": case["binning"][0], "data": [None if r[0] is None else rs(r[0]) for r in data],
                  "weights": None if ws is None else [rs(w) for w in ws], "wkind": case["wkind"], "dropna": case["dropna"]}
            return {"kind": "hist1", "ops": [op]}
        op = {"op": "construct", "out": 0, "axes": case["binning"], "rows": gennd.enc_rows(data),
              "weights": None if ws is None else [rs(w) for w in ws], "wkind": case["wkind"], "dropna": case["dropna"]}
        return {"kind": "histn", "ops": [op]}

    def diff(self, case, model_ok, io):
        ref = io["outs"]["results"]["array"]
        m = model_ok[0]["regs"][0] if model_ok[0]["regs"] else None
        if m is None:
            return ["model refused the reference call"]
        keys = ("bins", "freq", "err2", "dtype") + (("under", "over") if case["d"] == 1 else ("missed", "shape"))
        if case["d"] == 1:
            b = [(Fraction(l), Fraction(r)) for l, r in ref["bins"]]
            gaps = [b[i + 1][0] - b[i][1] for i in range(len(b) - 1)]
            if any(g > 0 for g in gaps) and all(g <= Fraction(1, 10**8) + Fraction(1, 10**5) * abs(b[i][1]) for i, g in enumerate(gaps)):
                keys = ("bins", "freq", "err2", "dtype")    # a gap below is_consecutive()'s tolerance
        d = []
        for k in keys:
            a, b = m[k], ref[k]
            if case["d"] == 1 and k == "bins":
                pass
            if a != b and not (isinstance(a, list) and k in ("freq", "err2") and [Fraction(x) for x in a] == [Fraction(x) for x in b]):
                d.append(f"reference.{k}: model={a} impl={b}")
        return d

    # ------------------------------------------------------------------ the property, restated on the outputs
    @staticmethod
    def _pairs(o, log, fails, invalid_ref=False):
        """entry forms with their own reference: an accepted call must reproduce it (contents, bins, errors, missed, dtype, and the
        axis names where the property fixes them); where acceptance is required, a refusal is a failure too"""
        for name, p in o.get("pairs", {}).items():
            got, ref = p["got"], p["ref"]
            dask = name.startswith("dask_h")
            if not isinstance(ref, dict):
                if (invalid_ref or p.get("invalid")) and isinstance(got, dict):
                    fails.append(f"accepted_invalid: {name} accepted NaN with dropna=False")
                continue
            if got == "REFUSED":
                if p["must"]:
                    why = "; ".join(l[len(name) + 2:] for l in log if l.startswith(name + ":"))[:200]
                    fails.append((f"dask_refused: {name}: " if dask else f"container_refused: {name} was refused although the array is accepted: ") + why)
                continue
            fields = F1 if "under" in ref else FN
            if ("under" in got) != ("under" in ref):
                fails.append(f"container_differs: {name}: a {'1-D' if 'under' in got else 'N-D'} histogram came back")
                continue
            for f in fields:
                if got[f] != ref[f]:
                    fails.append((f"dask_differs: {name}: {f} = {got[f]}, the whole numpy array (adaptive=True) gives {ref[f]}" if dask else
                                  f"container_differs: {name}: {f} = {got[f]}, the numpy array built from the container's content after "
                                  f"{p['after']} in-place change(s) gives {ref[f]}" if p.get("after") else
                                  f"container_differs: {name}: {f} = {got[f]}, the numpy array gives {ref[f]}")[:400])
                    break
            if "hname" in p and got.get("name") != p["hname"]:
                fails.append(f"histogram_name: {name} is named {got.get('name')!r}, expected {p['hname']!r}")
            if p["names"] is not None:
                gn = got["axis_name"] if "axis_name" in got else got["names"]
                if gn != p["names"]:
                    fails.append(f"axis_name: {name} has axis name(s) {gn!r}, expected {p['names']!r}")

    @staticmethod
    def _positional_sums(case, ref):
        """the reference (numpy arrays) of a 'labelled' case against exact sums over the rows: row i counts with weight i"""
        has_nan = any(v is None for r in case["data"] for v in r)
        if has_nan and not case["dropna"]:
            return ["accepted_invalid: NaN accepted with dropna=False"] if isinstance(ref, dict) else []
        if not isinstance(ref, dict):
            return ["refused_valid: the reference call on the numpy arrays was refused"]
        bins = [ref["bins"]] if case["d"] == 1 else ref["bins"]
        axes = [([(Fraction(l), Fraction(r)) for l, r in b], spec.get("ire", True)) for b, spec in zip(bins, case["binning"])]
        cells, _ = gennd.brute_cells(axes, case["data"], case["weights"])
        shape = [len(a[0]) for a in axes]
        if len(ref["freq"]) != int(np.prod(shape)):
            return [f"shape: {len(ref['freq'])} cells for bins of shape {shape}"]
        for pos, idx in enumerate(gennd.unravel(shape)):
            f, e = cells.get(idx, (Fraction(0), Fraction(0)))
            if Fraction(ref["freq"][pos]) != f:
                return [f"pairing: cell {idx} of the numpy arrays' histogram holds {ref['freq'][pos]}, the (row, weight) pairs taken by position give {f}"]
            if Fraction(ref["err2"][pos]) != e:
                return [f"pairing: cell {idx} of the numpy arrays' histogram has errors2 {ref['err2'][pos]}, the squared weights taken by position give {e}"]
        return []

    @staticmethod
    def _exact_expectation(case, ref, cols):
        """the numpy call of a 'nonfinite' / 'wshape' case (cols: on these columns only) against the rows taken one by one: a row
        is kept iff it holds no NaN; its cell comes from comparing each coordinate with the edges (an infinite one is in no bin);
        contents, errors2 and the weight that hit no cell are exact sums (the weights are powers of two)"""
        rows = [[exact_value(v) for v in r] for r in case["data"]]
        specs = case["binning"]
        if cols is not None:
            rows, specs = [[r[j] for j in cols] for r in rows], [specs[j] for j in cols]
        what = "the numpy call" + (f" on columns {cols}" if cols is not None else "")
        if any(v is None for r in rows for v in r) and not case["dropna"]:
            return [f"accepted_invalid: {what} accepted NaN with dropna=False"] if isinstance(ref, dict) else []
        if not isinstance(ref, dict):
            return [f"refused_valid: {what} was refused (explicit bins; no NaN, or dropna=True)"]
        one_d = "under" in ref
        axes = [([(Fraction(l), Fraction(r)) for l, r in b], spec.get("ire", True)) for b, spec in zip([ref["bins"]] if one_d else ref["bins"], specs)]
        shape = [len(a[0]) for a in axes]
        ws = case["weights"]
        cells, outside = {}, []
        for i, r in enumerate(rows):
            if any(v is None for v in r):
                continue
            w = Fraction(ws[i]) if ws is not None else Fraction(1)
            c = gennd.cell_of(axes, r)
            if c is None:
                outside.append((i, w))
            else:
                a, b2 = cells.get(c, (Fraction(0), Fraction(0)))
                cells[c] = (a + w, b2 + w * w)

        def differs(got, exp):
            try:
                return Fraction(got) != exp
            except (TypeError, ValueError):
                return True
        if len(ref["freq"]) != int(np.prod(shape)):
            return [f"shape: {len(ref['freq'])} cells for bins of shape {shape}"]
        for pos, idx in enumerate(gennd.unravel(shape)):
            f, e = cells.get(idx, (Fraction(0), Fraction(0)))
            if differs(ref["freq"][pos], f):
                return [f"rows_kept: cell {idx} of {what} holds {ref['freq'][pos]}, the rows without NaN give {f}"]
            if differs(ref["err2"][pos], e):
                return [f"rows_kept: cell {idx} of {what} has errors2 {ref['err2'][pos]}, the rows without NaN give {e}"]

        def show(pairs):
            pairs = sorted(pairs, key=lambda p: not any(is_infinite(v) or (isinstance(v, float) and abs(v) >= 1e308) for v in case["data"][p[0]]))
            return ", ".join(f"#{i} {case['data'][i] if cols is None else [case['data'][i][j] for j in cols]} (weight {w})" for i, w in pairs[:4])
        if one_d:
            pairs = axes[0][0]
            lo, hi = pairs[0][0], pairs[-1][1]
            under = [(i, w) for i, w in outside if rows[i][0] < lo]
            over = [(i, w) for i, w in outside if not rows[i][0] < hi]
            gapped = any(pairs[i][1] != pairs[i + 1][0] for i in range(len(pairs) - 1))     # entries between bins: not looked at
            for key, part in (("under", under), ("over", over)) if not gapped else ():
                exp = sum((w for _, w in part), Fraction(0))
                if differs(ref[key], exp):
                    return [f"rows_kept: {key}flow of {what} is {ref[key]}, the entries without NaN {'below' if key == 'under' else 'above'} the "
                            f"bins weigh {exp}: {show(part)} -- only NaN drops an entry"[:400]]
        else:
            exp = sum((w for _, w in outside), Fraction(0))
            if differs(ref["missed"], exp):
                return [f"rows_kept: missed of {what} is {ref['missed']}, the rows without NaN that hit no cell weigh {exp}: {show(outside)} -- "
                        "only NaN drops a row, one with infinite coordinates is kept and counted as missed"[:400]]
        return []

    @staticmethod
    def _shape_rules(case, o, log):
        """shapes of data and weights must match: weights of the right size and another shape are refused (always when dropna=True,
        where the library has a mask to compare with); whatever the numpy array call does with a shape -- refuse, accept -- every
        carrier does; an accepted call with weights that have a single non-unit axis pairs by position (= the proper weights)"""
        fails = []
        invalid = any(v is None for r in case["data"] for v in r) and not case["dropna"]
        dropna = case["dropna"]

        def call(g):
            return f"{g['call']} with weights of shape {tuple(g['wshape'])} (data of shape {tuple(g['dshape'])}, dropna={dropna})"
        for key, g in o["wrefs"].items():
            ref, same = g["ref"], g["same"]
            if invalid:
                if isinstance(ref, dict):
                    fails.append(f"accepted_invalid: {call(g)} accepted NaN with dropna=False")
                continue
            if not g["mismatch"]:
                if not isinstance(ref, dict):
                    why = "; ".join(l for l in log if l.startswith(f"wshape_{key.split('.')[0]}_numpy.same"))[:160]
                    fails.append(f"refused_valid: {call(g)} was refused: {why}")
                continue
            if isinstance(ref, dict):
                if dropna or PIN_REFUSAL_WITHOUT_DROPNA:
                    fails.append(f"accepted_misshaped: {call(g)} was accepted: contents {ref['freq']}"
                                 + (f", with the weights in the shape of the data {same['freq']}" if isinstance(same, dict) else ""))
                elif g["one_axis"] and isinstance(same, dict):
                    for f in (F1 if "under" in same else FN):
                        if ref[f] != same[f]:
                            fails.append(f"misshaped_pairing: {call(g)} was accepted with {f} = {ref[f]}; the same weights in the shape of the "
                                         f"data give {same[f]}"[:400])
                            break
        for name, p in o["wpairs"].items():
            g = o["wrefs"][p["group"]]
            got, ref = p["got"], g["ref"]
            what = f"{name} (weights of shape {tuple(g['wshape'])}, data of shape {tuple(g['dshape'])}, dropna={dropna})"
            if not isinstance(ref, dict):
                if isinstance(got, dict):
                    fails.append((f"accepted_invalid: {what} accepted NaN with dropna=False" if invalid else
                                  f"accepted_misshaped: {what} was accepted (contents {got['freq']}), the numpy array call refuses these weights")
                                 if invalid or g["mismatch"] else f"container_differs: {what} was accepted, the numpy array call is refused")
                continue
            if got == "REFUSED":
                why = "; ".join(l[len(name) + 2:] for l in log if l.startswith(name + ":"))[:160]
                fails.append(f"container_refused: {what} was refused although the numpy array call is accepted: {why}")
                continue
            if ("under" in got) != ("under" in ref):
                fails.append(f"container_differs: {what}: a {'1-D' if 'under' in got else 'N-D'} histogram came back")
                continue
            for f in (F1 if "under" in ref else FN):
                if got[f] != ref[f]:
                    fails.append(f"container_differs: {what}: {f} = {got[f]}, the numpy array call gives {ref[f]}"[:400])
                    break
            if p["names"] is not None:
                gn = got["axis_name"] if "axis_name" in got else got["names"]
                if gn != p["names"]:
                    fails.append(f"axis_name: {name} has axis name(s) {gn!r}, expected {p['names']!r}")
        return fails

    @staticmethod
    def _eltype_oracle(case, o, log):
        fails = []
        xs = [r[0] for r in case["data"]]
        ws = case["weights"]

        def fr(v):
            return None if v is None else Fraction(v)

        def same_numbers(a, b):
            if isinstance(a, list):
                return len(a) == len(b) and all(same_numbers(x, y) for x, y in zip(a, b))
            return fr(a) == fr(b)

        def kind_of(dt):
            return "floating" if np.dtype(dt).kind == "f" else "integer"

        for name, p in o["pairs"].items():
            got, ref = p["got"], p["ref"]
            if not isinstance(ref, dict):
                continue                    # the float64 call itself was refused (the method does not take these data)
            what = (f"{name} [data as {case['ctype']}, weights as {case['wtype']}, bins: {case['spec']}]")
            if got == "REFUSED":
                why = "; ".join(l[len(name) + 2:] for l in log if l.startswith(name + ":"))[:200]
                fails.append(f"container_refused: {what} was refused although the float64 array of the same values is accepted: {why}")
                continue
            nd = "missed" in ref
            fields = ("bins", "freq", "err2", "missed", "shape") if nd else ("bins", "freq", "err2", "under", "over", "stats")
            for f in fields:
                if p["wnarrow"] and f in ("freq", "err2", "under", "over", "missed"):
                    ok = same_numbers(got[f], ref[f])
                elif p["wnarrow"] and f == "stats":
                    ok = all(fr(got[f][k]) == fr(ref[f][k]) for k in ref[f])
                else:
                    ok = got[f] == ref[f]
                if not ok:
                    fails.append(f"eltype_differs: {what}: {f} = {got[f]}, the float64 array of exactly the same values (weights {case['wkind']}) "
                                 f"gives {ref[f]}"[:600])
                    break
            else:
                if p["wnarrow"]:
                    if kind_of(got["dtype"]) != kind_of(ref["dtype"]) and (case["wtype"] != "uint64" or PIN_UINT64_WEIGHTS_KIND):
                        fails.append(f"eltype_dtype: {what}: contents of dtype {got['dtype']}, the {case['wkind']} weights give {ref['dtype']}")
                elif got["dtype"] != ref["dtype"]:
                    fails.append(f"eltype_dtype: {what}: contents of dtype {got['dtype']}, the float64 array gives {ref['dtype']}")
        # the float64 call itself: each value in the bin the exact comparison with the returned edges gives
        ref = o["results"].get("array")
        if isinstance(ref, dict):
            edges = [(Fraction(l), Fraction(r)) for l, r in ref["bins"]]
            nb = len(edges)
            freq, err2 = [Fraction(0)] * nb, [Fraction(0)] * nb
            under = over = Fraction(0)
            s0 = s1_ = s2_ = Fraction(0)
            for i, v in enumerate(xs):
                if v is None:
                    continue
                v = Fraction(v)
                w = Fraction(1) if ws is None else Fraction(ws[i])
                s0, s1_, s2_ = s0 + w, s1_ + w * v, s2_ + w * v * v
                if v < edges[0][0]:
                    under += w
                    continue
                for j, (l, r) in enumerate(edges):
                    if l <= v < r or (v == r and j == nb - 1 and ref["ire"]):
                        freq[j] += w
                        err2[j] += w * w
                        break
                else:
                    if v >= edges[-1][1]:
                        over += w
            gapless = all(edges[j][1] == edges[j + 1][0] for j in range(nb - 1))
            exp = {"freq": freq, "err2": err2}
            if gapless:
                exp.update({"under": under, "over": over})
            for f, e in exp.items():
                g = [Fraction(x) for x in ref[f]] if isinstance(e, list) else Fraction(ref[f])
                if g != e:
                    fails.append(f"eltype_reference: h1 of the float64 array: {f} = {ref[f]}, the values compared exactly with the returned "
                                 f"edges give {[str(x) for x in e] if isinstance(e, list) else str(e)}"[:500])
            vals = [v for v in xs if v is not None]
            if all(float(v * 8) == int(v * 8) and abs(v) <= 64 for v in vals):
                for f, e in (("weight", s0), ("sum", s1_), ("sum2", s2_)):
                    if ref["stats"][f] is None or Fraction(ref["stats"][f]) != e:
                        fails.append(f"eltype_statistics: h1 of the float64 array records {f} = {ref['stats'][f]}, exactly {e}")
            want = case["wkind"] or "int64"
            if ref["dtype"] != want:
                fails.append(f"eltype_dtype: h1 of the float64 array with weights {case['wkind']} has contents of dtype {ref['dtype']}")
        return fails

    def oracle(self, case, io):
        o = io["outs"]
        fails = []
        if case["kind"] == "eltype":
            return self._eltype_oracle(case, o, io["log"])[:6]
        if case["kind"] == "dask":
            self._pairs(o, io["log"], fails)
            for name, r in o["refusals"].items():
                if r != "REFUSED":
                    fails.append(f"accepted_invalid: {name} was accepted")
            return fails[:6]
        if case["kind"] == "nonfinite":
            # only NaN drops an entry / a row: one that holds infinities (or huge finite values) is kept and counted, with its
            # weight, where the comparison with the edges puts it -- in every container as in the numpy array
            for t in o.get("touched", []):
                fails.append("container_changed: a call changed the container handed to it: " + t)
            fails += self._exact_expectation(case, o["results"].get("array"), None)
            if "ref_sub" in o:
                fails += self._exact_expectation(case, o["ref_sub"], case["extra"]["sub"])
            self._pairs(o, io["log"], fails)
            return fails[:6]
        if case["kind"] == "wshape":
            for t in o.get("touched", []):
                fails.append("container_changed: a call changed the weights handed to it: " + t)
            fails += self._exact_expectation(case, o["results"].get("array"), None)
            self._pairs(o, io["log"], fails)
            fails += self._shape_rules(case, o, io["log"])
            return fails[:6]
        if case["kind"] == "labelled":
            # labels do not take part: every spelling gives the histogram of the numpy arrays of the values and of the weights
            # (paired by position), and that histogram is the sum over the positional (row, weight) pairs
            for t in o.get("touched", []):
                fails.append("container_changed: a call changed the container handed to it: " + t)
            self._pairs(o, io["log"], fails)
            fails += self._positional_sums(case, o["results"].get("array"))
            where = (f" [labels of the data: {case['dlabels']['kind']}, of the weights: {case['wlabels']['kind']} ({case['relation']}); "
                     "values and weights are paired by position]")
            return [f + where for f in fails[:6]]
        if case["kind"] in ("mutate", "nested"):
            # the same container again after an in-place change / a nested container: the histogram of the numpy array with the
            # content the container has at the moment of the call (axis names from the Series / columns; the histogram's name
            # only from a (name, values) pair); and no call changes the container handed to it
            for t in o.get("touched", []):
                fails.append("container_changed: the call changed the container handed to it: " + t)
            self._pairs(o, io["log"], fails)
            return fails[:6]
        res = o["results"]
        ref = res.get("array")
        has_nan = any(v is None for r in case["data"] for v in r)
        must_refuse_ref = has_nan and not case["dropna"]
        if ref == "REFUSED":
            if not must_refuse_ref:
                fails.append("refused_valid: the reference array call was refused: " + "; ".join(io["log"][:1]))
            else:
                # the same arguments are refused for the array (NaN with dropna=False): so they are for every container
                for name, r in res.items():
                    if isinstance(r, dict) and name not in ("h2_F_columns", "h2_ref_noweights") and not name.startswith("dask_chunks"):
                        fails.append(f"accepted_invalid: {name} accepted NaN with dropna=False")
                self._pairs(o, io["log"], fails, invalid_ref=True)
            return fails[:6]
        if must_refuse_ref:
            fails.append("accepted_invalid: NaN accepted with dropna=False")
        fields = F1 if case["d"] == 1 else FN
        for name, r in res.items():
            if name in ("array", "explicit_axis_name", "explicit_names", "ref_hist", "h2_F_columns", "h2_ref_noweights") or name.startswith("dask_chunks"):
                continue
            if r == "REFUSED":
                fails.append(f"container_refused: {name} was refused although the array is accepted: " + "; ".join(l for l in io["log"] if l.startswith(name))[:200])
                continue
            for f in fields:
                if r[f] != ref[f]:
                    fails.append(f"container_differs: {name}: {f} = {r[f]}, the numpy array gives {ref[f]}")
                    break
        self._pairs(o, io["log"], fails)
        # axis names
        if case["d"] == 1:
            for name in ("pandas_series", "pandas_accessor", "polars_series", "pandas_df_accessor", "pandas_accessor_histogram",
                         "pandas_df1_h1_nocolumn", "pandas_df_histogram_str", "polars_series_accessor"):
                r = res.get(name)
                if isinstance(r, dict) and r["axis_name"] != case["names"][0]:
                    fails.append(f"axis_name: {name} has axis name {r['axis_name']!r}, the Series is named {case['names'][0]!r}")
            r = res.get("explicit_axis_name")
            if isinstance(r, dict) and r["axis_name"] != "given":
                fails.append(f"axis_name_explicit: explicit axis_name ignored ({r['axis_name']!r})")
            if "dask_ref" in o:
                for name, r in res.items():
                    if name.startswith("dask_chunks"):
                        if r == "REFUSED":
                            fails.append(f"dask_refused: {name}: " + "; ".join(l for l in io["log"] if l.startswith(name))[:160])
                        elif any(r[f] != o["dask_ref"][f] for f in ("bins", "freq", "err2", "under", "over")):
                            fails.append(f"dask_differs: {name} gives {r['freq']} over {len(r['bins'])} bins, the whole array gives {o['dask_ref']['freq']}")
        else:
            for name in ("pandas_df", "pandas_df_accessor", "polars_df", "h2_series", "df_h2_accessor", "polars_df_accessor",
                         "polars_df_accessor_numeric_only", "polars_df_accessor_all_selected", "polars_df_dim", "pandas_df_dim",
                         "pandas_df_h2_nocolumns", "pandas_df_named_hist"):
                r = res.get(name)
                if isinstance(r, dict) and r["names"] != case["names"]:
                    fails.append(f"axis_names: {name} has names {r['names']}, the columns are {case['names']}")
            r = res.get("explicit_names")
            if isinstance(r, dict) and r["names"] != [f"g{i}" for i in range(case["d"])]:
                fails.append("axis_names_explicit: explicit axis_names ignored")
            a, b = res.get("h2_F_columns"), res.get("h2_ref_noweights")
            if isinstance(a, dict) and isinstance(b, dict) and any(a[f] != b[f] for f in ("freq", "err2", "missed")):
                fails.append(f"column_alignment: h2 of differently laid-out (Fortran / C ordered) columns gives {a['freq']}, expected {b['freq']}")
            for key, (cn, got, refs) in o.get("collections", {}).items():
                if cn != case["names"]:
                    fails.append(f"collection_names: {key}: histograms named {cn}, the columns are {case['names']}")
                for nm, g, r in zip(cn, got, refs):
                    if isinstance(r, dict) and any(g[f] != r[f] for f in ("bins", "freq", "err2", "under", "over")):
                        fails.append(f"collection_differs: {key}[{nm}] = {g['freq']}, h1 of the column gives {r['freq']}")
        for name, r in o["refusals"].items():
            if r != "REFUSED":
                fails.append(f"accepted_invalid: {name} was accepted")
        if "conversion_error" in o:
            fails.append("conversion_error: " + o["conversion_error"])
        if "xarray_roundtrip" in o:
            a, b = o["xarray_roundtrip"]
            for f in ("bins", "freq", "err2", "under", "over"):
                if a[f] != b[f]:
                    fails.append(f"xarray_roundtrip: {f}: {a[f]} -> {b[f]}")
            a, b = o["index_roundtrip"]
            if a != b:
                fails.append(f"interval_index_roundtrip: bins {a} -> {b}")
            vals, idx = o["series_values"]
            h0 = res["ref_hist"] if isinstance(res.get("ref_hist"), dict) else None
            if h0 is not None and case["dropna"]:
                if [Fraction(x) for x in vals] != [Fraction(x) for x in h0["freq"]] or idx != h0["bins"]:
                    fails.append("to_series: values / index differ from frequencies / bins")
                fv, ev, di = o["df_values"]
                if [Fraction(x) for x in fv] != [Fraction(x) for x in h0["freq"]] or di != h0["bins"]:
                    fails.append("to_dataframe: frequency / index differ from frequencies / bins")
                if any(abs(Fraction(x) - Fraction(y)) > Fraction(1, 10**9) * (1 + abs(Fraction(y))) for x, y in zip(ev, h0["err2"])):
                    fails.append("to_dataframe: error**2 differs from errors2")
        return fails[:6]

    def exhaustive_cases(self, tier):
        yield {"kind": "geant4", "tags": ["geant4"]}

    def nontrivial(self, case, io):
        if case["kind"] == "geant4":
            return True
        r = io["outs"]["ref"] if case["kind"] == "dask" else io["outs"]["results"].get("array")
        return isinstance(r, dict) and any(Fraction(x) != 0 for x in r["freq"])

    def tags(self, case, io):
        if case["kind"] == "geant4":
            return ["geant4"]
        o = io["outs"]
        t = list(case["tags"])
        forms = [k for k, v in o["results"].items() if k not in ("array", "ref_hist", "h2_ref_noweights")] + list(o["pairs"])
        t += [f"containers:{len(forms)}"] + (["weights"] if case["weights"] and case["kind"] == "containers" else [])
        if case["kind"] == "nonfinite":
            t += [f"container:{k}" for k in forms]
        elif case["kind"] == "eltype":
            t += [f"container:{k}" for k in forms]
            t += [f"eltype:refused:{k}" for k in ("array", "fill_n_array", "array2") if o["results"].get(k) == "REFUSED"]
            t += sorted({f"eltype:contents_dtype:{case['wtype']}->{p['got']['dtype']}" for p in o["pairs"].values()
                         if p["wnarrow"] and isinstance(p["got"], dict)})
        elif case["kind"] == "wshape":
            t += sorted({f"container:{k.split('.')[0]}" for k in o["wpairs"]})
            t += sorted({f"wshape:{k}:{'refused' if g['ref'] == 'REFUSED' else 'accepted'}" for k, g in o["wrefs"].items()})
        elif case["kind"] == "labelled":
            t += [f"container:{k}" for k in forms]
            t += ["labelled:weights" if case["weights"] else "labelled:no_weights"]
            t += [f"labelled:dtype:{case['ddtype']}"] if case["ddtype"] else []
            t += ["labelled:nullable_weights"] if case["wnullable"] else []
            t += ["labelled:nan"] if any(v is None for r in case["data"] for v in r) else []
        elif case["kind"] in ("mutate", "nested"):
            t += sorted({f"container:{k.split(':')[0]}" for k in forms})      # one per container and form, not per call
            if case["weights"]:
                t.append(f"{case['kind']}:weights")
            if any(v is None for r in case.get("data", case.get("table")) for v in r):
                t.append(f"{case['kind']}:nan")
        else:
            t += [f"container:{k.split(':')[0]}" for k in forms]
        t += [f"bad:{k}" for k in o["refusals"]]
        t += [f"outcome:{k}:{'refused' if v == 'REFUSED' else 'accepted'}" for k, v in o["outcomes"].items()]
        t += [f"outcome:{k}:{'refused' if p['got'] == 'REFUSED' else 'accepted'}" for k, p in o["pairs"].items() if not p["must"]]
        if case["kind"] == "dask":
            t += sorted({f"chunks:{len(p)}" for p in case["parts"]})
            if case["d"] > 1:
                t += sorted({"colchunks:" + "+".join(map(str, cp)) for cp in case["colparts"]})
            if any(v is None for r in case["data"] for v in r):
                t.append("dask:nan_rows")
        return t

    def matches_known(self, finding, case):
        return False

    def _as_labelled(self, case, dl, wl, relation="independent"):
        """the data of a 'containers' / 'labelled' case under these labels (weights: distinct powers of two by position)"""
        n, d = len(case["data"]), case["d"]
        c = {"kind": "labelled", "d": d, "binning": copy.deepcopy(case["binning"]), "data": copy.deepcopy(case["data"]),
             "ints": case.get("ints", False), "weights": [2 ** i for i in range(n)], "wkind": "int64", "ddtype": case.get("ddtype"),
             "wnullable": case.get("wnullable", False), "dlabels": dl, "wlabels": wl, "relation": relation, "index_name": case.get("index_name"),
             "names": list(case["names"]), "wcol": case.get("wcol", "w"), "wname": case.get("wname"), "dropna": case["dropna"],
             "keep": case.get("keep", [i % 3 != 1 for i in range(n)]),
             "extra": {"sub": case.get("extra", {}).get("sub", [0, 1][:max(1, min(d, 2))]), "chunk": case.get("extra", {}).get("chunk", 2),
                       "wchunk": case.get("extra", {}).get("wchunk", 3), "colchunk": case.get("extra", {}).get("colchunk", 1)},
             "open": list(case.get("open", []))}
        if case["kind"] == "labelled" and case["weights"] is not None:
            c["weights"], c["wkind"] = list(case["weights"]), case["wkind"]
        c["tags"] = self._labelled_tags(d, dl, wl, relation) + [f"open:{t}" for t in c["open"]]
        return c

    def _as_nonfinite(self, case, flavour):
        """the data of a case with its first row (d == 1: first entries) replaced by one of the non-finite flavours"""
        n, d = len(case["data"]), case["d"]
        rows = copy.deepcopy(case["data"])
        special = {"both": ["inf", "-inf", "inf"], "pinf": ["inf", 0.0, 0.0], "inf_nan": ["-inf", None, 0.0], "huge": [HUGE, HUGE, -HUGE]}[flavour]
        if d == 1:
            for i, v in enumerate(special[:2]):
                if not (v == 0.0 and flavour == "pinf"):
                    rows[i] = [v]
        else:
            rows[0] = [v if v != 0.0 else rows[0][j] for j, v in enumerate(special[:d])]
            if flavour == "pinf" and any(v is None for v in rows[0]):
                rows[0] = ["inf"] * d
        c = {"kind": "nonfinite", "d": d, "binning": copy.deepcopy(case["binning"]), "data": rows, "weights": [2 ** i for i in range(n)],
             "wkind": "int64", "names": [f"col{i}" for i in range(d)], "dropna": case["dropna"], "flavour": flavour,
             "extra": {"sub": case.get("extra", {}).get("sub", [0, 1][:max(1, min(d, 2))]), "chunk": 2, "colchunk": 1},
             "open": list(case.get("open", []))}
        c["tags"] = self._nonfinite_tags(c)
        return c

    def _as_wshape(self, case):
        n, d = len(case["data"]), case["d"]
        data = [[None if is_infinite(v) else v for v in r] for r in case["data"]]
        c = {"kind": "wshape", "d": d, "binning": copy.deepcopy(case["binning"]), "data": data, "rc": list(factor_pair(n) or (1, n)),
             "ints": False, "weights": [2.0 ** i for i in range(n)], "wkind": "float64", "wcontainer": "array",
             "names": [f"col{i}" for i in range(d)], "dropna": case["dropna"], "extra": {"chunk": 2}, "open": list(case.get("open", []))}
        c["tags"] = self._wshape_tags(c)
        return c

    def _as_eltype(self, case, ctype="float32"):
        """the 1-D data of a case rounded to a narrow floating type (the values of the new case ARE the rounded ones), over the same
        explicit bins"""
        dt = np.dtype(ctype).type
        xs = [None if r[0] is None or is_infinite(r[0]) or not np.isfinite(dt(r[0])) else float(dt(r[0])) for r in case["data"]]
        n = len(xs)
        c = {"kind": "eltype", "d": 1, "binning": copy.deepcopy(case["binning"][:1]), "spec": {"m": "explicit"}, "ctype": ctype,
             "wtype": "float32", "data": [[v] for v in xs], "y": [float(i % 5) for i in range(n)], "weights": [float(1 + i % 4) for i in range(n)],
             "wkind": "float64", "k2": 3, "names": ["col0"], "dropna": True, "extra": {"chunk": 2}, "open": list(case.get("open", []))}
        c["tags"] = self._eltype_tags(c)
        return c

    def neighbours(self, case):
        """the same data under other labels (a 'containers' case: as a labelled one), with non-finite entries, with the weights in
        other shapes, in single precision; an 'eltype' case: on ten bins, with the other narrow floating type"""
        out = []
        if case.get("kind") == "eltype":
            c = copy.deepcopy(case)
            c["binning"], c["spec"] = None, {"m": "int", "k": 10}
            c["tags"] = self._eltype_tags(c)
            return [c]
        if ENABLE_ELTYPE and case.get("kind") == "containers" and case["d"] == 1 and 2 <= len(case["data"]) <= 40 \
                and case["binning"][0].get("t") == "static":
            out.append(self._as_eltype(case))
        if case.get("kind") in ("containers", "labelled", "nonfinite") and 2 <= len(case["data"]) <= 40:
            if ENABLE_NONFINITE:
                out += [self._as_nonfinite(case, f) for f in ("both", "pinf", "inf_nan", "huge")]
            if ENABLE_WSHAPE:
                out.append(self._as_wshape(case))
        return out + self._neighbours_labelled(case)

    def _neighbours_labelled(self, case):
        if not ENABLE_LABELLED or case.get("kind") not in ("containers", "labelled"):
            return []
        n = len(case["data"])
        if n < 3:
            return []
        rot = list(range(1, n)) + [0]
        specs = [({"kind": "reversed"}, {"kind": "range"}), ({"kind": "shuffled", "labels": rot}, {"kind": "range"}),
                 ({"kind": "range"}, {"kind": "shuffled", "labels": rot}), ({"kind": "offset", "start": 10}, {"kind": "range"}),
                 ({"kind": "strings", "labels": [f"r{i}" for i in rot]}, {"kind": "strings", "labels": [f"r{i}" for i in range(n)]}),
                 ({"kind": "dup", "labels": [i // 2 for i in range(n)]}, {"kind": "gaps", "labels": [2 * i for i in range(n)]})]
        out = [self._as_labelled(case, copy.deepcopy(dl), copy.deepcopy(wl)) for dl, wl in specs]
        if case["kind"] == "labelled":
            out.append(self._as_labelled(case, copy.deepcopy(case["wlabels"]), copy.deepcopy(case["dlabels"]), case["relation"]))
        return out

    def shrink_candidates(self, case):
        if case["kind"] == "eltype":
            # fewer values (each with its y and its weight), no weights, plain weights
            n = len(case["data"])
            for j in range(n):
                if n <= 2:
                    break
                c = copy.deepcopy(case)
                del c["data"][j]
                del c["y"][j]
                if c["weights"] is not None:
                    del c["weights"][j]
                c["extra"]["chunk"] = max(1, min(c["extra"]["chunk"], n - 1))
                c["tags"] = self._eltype_tags(c)
                yield c
            if case["weights"] is not None:
                c = copy.deepcopy(case)
                c["weights"], c["wkind"], c["wtype"] = None, None, None
                c["tags"] = self._eltype_tags(c)
                yield c
            return
        if case["kind"] == "labelled":
            # fewer rows (each with its weight, its two labels and its filter flag), plain dtypes, plainer labels
            n = len(case["data"])
            for j in range(n):
                if n <= 3:
                    break
                c = copy.deepcopy(case)
                del c["data"][j]
                del c["keep"][j]
                if c["weights"] is not None:
                    del c["weights"][j]
                drop_label(c["dlabels"], j)
                drop_label(c["wlabels"], j)
                if not any(c["keep"]):
                    c["keep"][0] = True
                if all(c["keep"]):
                    c["keep"][-1] = False
                for key in ("chunk", "wchunk"):
                    c["extra"][key] = min(c["extra"][key], n - 1)
                yield c
            for key, plain in (("ddtype", None), ("wnullable", False), ("index_name", None), ("wname", None)):
                if case[key] != plain:
                    c = copy.deepcopy(case)
                    c[key] = plain
                    yield c
            for key in ("dlabels", "wlabels"):
                if case[key]["kind"] != "range":
                    c = copy.deepcopy(case)
                    c[key] = {"kind": "range"}
                    c["relation"] = "independent"
                    c["tags"] = self._labelled_tags(c["d"], c["dlabels"], c["wlabels"], c["relation"]) + [f"open:{t}" for t in c["open"]]
                    yield c
            return
        if case["kind"] == "dask":
            n = len(case["data"])
            for j in range(n):
                if n <= 2:
                    break
                c = copy.deepcopy(case)
                del c["data"][j]
                del c["weights"][j]
                c["parts"] = [drop_row_from_partition(p, j) for p in case["parts"]]
                c["colpart_each"] = [drop_row_from_partition(p, j) for p in case["colpart_each"]]
                yield c
            for i in range(len(case["parts"]) - 1):
                c = copy.deepcopy(case)
                del c["parts"][i]
                del c["colparts"][i]
                yield c
            return
        if case["kind"] == "mutate":
            # fewer changes, shorter changes, fewer initial rows, no weights
            for i in reversed(range(len(case["changes"]))):
                if len(case["changes"]) > 1:
                    c = copy.deepcopy(case)
                    del c["changes"][i]
                    del c["mix"][i + 1]
                    yield c
            for i, ch in enumerate(case["changes"]):
                for j in range(len(ch["rows"])):
                    if len(ch["rows"]) > 1:
                        c = copy.deepcopy(case)
                        del c["changes"][i]["rows"][j]
                        if ch["ws"] is not None:
                            del c["changes"][i]["ws"][j]
                        yield c
            for j in range(len(case["data"])):
                if len(case["data"]) <= 1 or any(ch["op"] == "set" and ch["at"] == j for ch in case["changes"]):
                    continue
                c = copy.deepcopy(case)
                del c["data"][j]
                if c["weights"] is not None:
                    del c["weights"][j]
                for ch in c["changes"]:
                    if ch["op"] == "set" and ch["at"] > j:
                        ch["at"] -= 1
                yield c
            if case["weights"] is not None:
                c = copy.deepcopy(case)
                c["weights"], c["wkind"] = None, None
                for ch in c["changes"]:
                    ch["ws"] = None
                yield c
            return
        if case["kind"] == "nested":
            # fewer rows, fewer columns, no weights
            r, cc = len(case["table"]), len(case["table"][0])
            for i in range(r):
                if r > 1:
                    c = copy.deepcopy(case)
                    del c["table"][i]
                    if c["weights"] is not None:
                        del c["weights"][i]
                    yield c
            for j in range(cc):
                if cc > 1:
                    c = copy.deepcopy(case)
                    for row in c["table"]:
                        del row[j]
                    for row in c["weights"] or []:
                        del row[j]
                    yield c
            if case["weights"] is not None:
                c = copy.deepcopy(case)
                c["weights"], c["wkind"] = None, None
                yield c
            return
        if case["kind"] == "nonfinite":
            # fewer rows (each with its weight), no weights
            n = len(case["data"])
            for j in range(n):
                if n <= 2:
                    break
                c = copy.deepcopy(case)
                del c["data"][j]
                if c["weights"] is not None:
                    del c["weights"][j]
                c["extra"]["chunk"] = min(c["extra"]["chunk"], n - 1)
                c["tags"] = self._nonfinite_tags(c)
                yield c
            if case["weights"] is not None:
                c = copy.deepcopy(case)
                c["weights"], c["wkind"] = None, None
                c["tags"] = self._nonfinite_tags(c)
                yield c
            return
        if case["kind"] == "wshape":
            # d == 1: the table without one of its rows / columns; rows: one row less (each with its weight)
            n, (r, cc) = len(case["data"]), case["rc"]
            drops = []
            if case["d"] == 1:
                drops += [([i * cc + j for j in range(cc)], [r - 1, cc]) for i in range(r) if r > 1]
                drops += [([i * cc + j for i in range(r)], [r, cc - 1]) for j in range(cc) if cc > 1]
            else:
                drops += [([j], [1, n - 1]) for j in range(n) if n > 1]
            for gone, rc in drops:
                c = copy.deepcopy(case)
                c["data"] = [x for i, x in enumerate(c["data"]) if i not in gone]
                c["weights"] = [x for i, x in enumerate(c["weights"]) if i not in gone]
                c["rc"] = rc
                c["extra"]["chunk"] = max(1, min(c["extra"]["chunk"], len(c["data"])))
                c["tags"] = self._wshape_tags(c)
                yield c
            return
        if case["kind"] != "containers":
            return
        for j in range(len(case["data"])):
            if len(case["data"]) <= 2:
                break
            c = copy.deepcopy(case)
            del c["data"][j]
            if c["weights"] is not None:
                del c["weights"][j]
            if "extra" in c:
                c["extra"]["null_at"] = min(c["extra"]["null_at"], len(c["data"]) - 1)
            yield c
        if case.get("weights") is not None:
            c = copy.deepcopy(case)
            c["weights"], c["wkind"] = None, None
            yield c


class C17G(C17):
    """adds the Geant4 pseudo-case handling"""

    def run_impl(self, case):
        if case["kind"] != "geant4":
            return super().run_impl(case)
        from physt.compat.geant4 import load_csv
        base = "/repo/tests/data"
        out = {}
        for name in ("geant-h1.csv", "geant-h2.csv"):
            p = os.path.join(base, name)
            if not os.path.exists(p):
                out[name] = "missing"
                continue
            raw = []
            meta = []
            for line in open(p, encoding="ascii"):
                if line.startswith("#"):
                    meta.append(line[1:].strip().split(" ", 1))
                else:
                    try:
                        raw.append([float(x) for x in line.split(",")])
                    except Exception:
                        pass
            h = load_csv(p)
            out[name] = {"freq": [nrs(x) for x in np.asarray(h.frequencies).ravel()], "err2": [nrs(x) for x in np.asarray(h.errors2).ravel()],
                         "shape": list(np.asarray(h.frequencies).shape), "raw": raw, "axes": [m[1] for m in meta if m[0] == "axis"],
                         "edges": [[nrs(b[0][0]), nrs(b[-1][1]), len(b)] for b in ([h.bins] if h.ndim == 1 else h.bins)],
                         "under_over": [nrs(h.underflow), nrs(h.overflow)] if h.ndim == 1 else None}
        return {"outs": out, "log": []}

    def model_case(self, case, io):
        if case["kind"] == "geant4":
            return None
        return super().model_case(case, io)

    def oracle(self, case, io):
        if case["kind"] != "geant4":
            return super().oracle(case, io)
        fails = []
        for name, o in io["outs"].items():
            if o == "missing":
                continue
            raw = np.array(o["raw"])
            axes = [a.split() for a in o["axes"]]
            shape = [int(a[1]) for a in axes]
            if o["shape"] != shape:
                fails.append(f"geant4_shape: {name}: {o['shape']} != {shape}")
                continue
            full = raw[:, 1].reshape([s + 2 for s in shape])
            full2 = raw[:, 2].reshape([s + 2 for s in shape])
            inner = full[tuple(slice(1, -1) for _ in shape)]
            inner2 = full2[tuple(slice(1, -1) for _ in shape)]
            if [float(Fraction(x)) for x in o["freq"]] != list(inner.ravel()):
                fails.append(f"geant4_contents: {name}: contents differ from the file")
            if [float(Fraction(x)) for x in o["err2"]] != list(inner2.ravel()):
                fails.append(f"geant4_errors: {name}: errors differ from the file")
            for (lo, hi, cnt), a in zip(o["edges"], axes):
                if cnt != int(a[1]) or abs(float(Fraction(lo)) - float(a[2])) > 1e-9 or abs(float(Fraction(hi)) - float(a[3])) > 1e-9:
                    fails.append(f"geant4_bins: {name}: axis {a} read as {lo}..{hi} in {cnt} bins")
            if o["under_over"] is not None:
                if float(Fraction(o["under_over"][0])) != full[0] or float(Fraction(o["under_over"][1])) != full[-1]:
                    fails.append(f"geant4_missed: {name}: underflow / overflow differ from the file")
        return fails


PROP = C17G()

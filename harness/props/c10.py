"""C10 — merge_bins conserves content and bin boundaries (1-D; ND part in c10nd)."""
from __future__ import annotations

import copy
from fractions import Fraction

from .. import gen1
from ..core import rs
from .base1 import Hist1Prop


def rand_hist_op(rng, pairs, out=0, keep=None):
    b = gen1.binning_json(pairs, rng=rng, form=rng.choice(["pairs", "static_obj"]))
    nb = len(pairs)
    dt = rng.choice(["int64", "int64", "float64", "int32", "float32"])
    isint = dt.startswith("int")
    f = [rng.choice([0, 0, 1, 2, 3, 5, 8]) if isint else rng.choice([0, 0.5, 1.25, 2, 4.75]) for _ in range(nb)]
    e = None if rng.random() < 0.4 else [rng.randint(0, 9) if isint else rng.randint(0, 40) / 4 for _ in range(nb)]
    gapped = not gen1.is_consecutive_exact(pairs)
    miss = [rng.randint(0, 5) for _ in range(3)]
    return {"op": "of_arrays", "out": out, "binning": b, "freq": [rs(x) for x in f],
            "err2": None if e is None else [rs(x) for x in e], "under": rs(miss[0]), "over": rs(miss[1]),
            "inner": rs(miss[2]), "dtype": dt, "keep": (rng.random() < 0.85) if keep is None else keep}


class C10(Hist1Prop):
    ID = "C10"
    N_QUICK = 400
    N_THOROUGH = 10000
    RULE = ("1-D histograms with 1-12 bins (irregular widths, gaps, tiny gaps), arbitrary contents / errors / missed values x "
            "merge_bins(amount = 1..n+1, or non-integral, or 0) x inplace / copy x axis None / 0, and merge_bins(min_frequency) "
            "with thresholds around the contents. non-trivial = at least two bins are merged; distinct = hash of the op list")
    FIELDS = {"bins", "freq", "err2", "under", "over", "inner", "total", "dtype", "keep"}

    def gen_case(self, rng, k, tier):
        if rng.random() < 0.4:
            from . import nd_parts
            return nd_parts.c10_gen(rng)
        pairs, t = gen1.rising_bins(rng)
        while rng.random() < 0.3 and len(pairs) < 12:
            l = pairs[-1][1]
            pairs.append([l, l + rng.choice([0.5, 1.0, 0.25])])
        tags = [x for x in ("gapped", "tiny_gap") if t[x]]
        init = rand_hist_op(rng, pairs)
        nb = len(pairs)
        mode = rng.choice(["amount"] * 3 + ["minfreq"] * 2 + ["bad"])
        op = {"op": "merge", "h": 0, "inplace": rng.random() < 0.4, "out": 1, "axis0": rng.random() < 0.5}
        if mode == "amount":
            op["amount"] = rng.randint(1, nb + 1)
        elif mode == "minfreq":
            fr = [Fraction(x) for x in init["freq"]]
            op["min_freq"] = rs(rng.choice(fr + [sum(fr) / 2, Fraction(1), Fraction(3), Fraction(7, 2), Fraction(100)]))
        else:
            op = {"op": "invalid", "what": rng.choice(["merge_frac", "merge_zero"]), "h": 0}
        return {"kind": "hist1", "ops": [init, op], "tags": tags + ["mode:" + mode]}

    def run_impl(self, case):
        # the two malformed merges are executed here (they are not part of the generic op language)
        from .. import impl1
        op = case["ops"][1]
        if op["op"] != "invalid" or case.get("kind") == "histn":
            return super().run_impl(case)
        s = impl1.Store()
        log = []
        outs = [{"ret": impl1.step(s, case["ops"][0], log), "regs": [impl1.snap1(h) for h in s.regs]}]
        h = s.get(0)
        try:
            if op["what"] == "merge_frac":
                h.merge_bins(2.5, inplace=True)
            else:
                h.merge_bins(0, inplace=True)
            ret = "accepted"
        except Exception as e:
            log.append(f"{type(e).__name__}: {e}"[:200])
            ret = "REFUSED"
        outs.append({"ret": ret, "regs": [impl1.snap1(h) for h in s.regs]})
        return {"outs": outs, "log": log}

    def shrink_candidates(self, case):
        return []

    def oracle(self, case, io):
        if case.get("kind") == "histn":
            from . import nd_parts
            return nd_parts.c10_oracle(case, io)
        outs, ops = io["outs"], case["ops"]
        fails = []
        if outs[0]["ret"] == "REFUSED":
            return ["refused_valid: setup refused: " + "; ".join(io["log"][:2])]
        op = ops[1]
        src = outs[0]["regs"][0]
        bins = [(Fraction(l), Fraction(r)) for l, r in src["bins"]]
        nb = len(bins)
        f = [Fraction(x) for x in src["freq"]]
        e = [Fraction(x) for x in src["err2"]]
        if op["op"] == "invalid":
            if outs[1]["ret"] != "REFUSED":
                fails.append(f"accepted_invalid: {op['what']} accepted")
            elif outs[1]["regs"][0] != src:
                fails.append("refused_changed: refused merge changed the histogram")
            return fails
        if op.get("amount") is not None:
            a = op["amount"]
            runs = [list(range(s, min(nb, s + a))) for s in range(0, nb, a)]
        else:
            runs = None
        crosses_gap = runs is not None and any(bins[i][1] != bins[i + 1][0] for r in runs for i in r[:-1])
        res = outs[1]["regs"][0 if op.get("inplace") else 1] if outs[1]["ret"] == "ok" else None
        if outs[1]["ret"] == "REFUSED":
            if runs is not None and not crosses_gap:
                fails.append(f"refused_valid: merge_bins({op.get('amount')}) refused: " + "; ".join(io["log"][:2]))
            elif runs is None and gen1.is_consecutive_exact([[l, r] for l, r in bins]):
                fails.append("refused_valid: merge_bins(min_frequency) refused: " + "; ".join(io["log"][:2]))
            if outs[1]["regs"][0] != src:
                fails.append("refused_changed: refused merge changed the histogram")
            return fails
        if crosses_gap:
            gap_sizes = [bins[i + 1][0] - bins[i][1] for r in runs for i in r[:-1] if bins[i][1] != bins[i + 1][0]]
            fails.append(f"merged_across_gap: a run spanning a gap of {[float(g) for g in gap_sizes]} was merged")
            return fails
        nbins = [(Fraction(l), Fraction(r)) for l, r in res["bins"]]
        nf = [Fraction(x) for x in res["freq"]]
        ne = [Fraction(x) for x in res["err2"]]
        if runs is not None:
            exp_bins = [(bins[r[0]][0], bins[r[-1]][1]) for r in runs]
            if nbins != exp_bins:
                fails.append(f"merged_bins: bins after merge_bins({a}) are {res['bins']}, expected runs of {a}")
            elif nf != [sum(f[i] for i in r) for r in runs]:
                fails.append(f"merged_content: contents {res['freq']} are not the runs' sums of {src['freq']}")
            elif ne != [sum(e[i] for i in r) for r in runs]:
                fails.append(f"merged_err2: squared errors {res['err2']} are not the runs' sums of {src['err2']}")
        else:
            # every new bin is a union of adjacent old bins, in order, nothing lost, outer edges unchanged
            i = 0
            ok = True
            for j, (l, r) in enumerate(nbins):
                if i >= nb or bins[i][0] != l:
                    ok = False
                    break
                sf, se = Fraction(0), Fraction(0)
                while i < nb and bins[i][1] <= r:
                    sf += f[i]; se += e[i]
                    last = bins[i][1]
                    i += 1
                if last != r or sf != nf[j] or se != ne[j]:
                    ok = False
                    break
            if not ok or i != nb:
                fails.append(f"minfreq_union: new bins {res['bins']} / contents {res['freq']} are not unions of adjacent old bins {src['bins']} / {src['freq']}")
            if nbins and (nbins[0][0] != bins[0][0] or nbins[-1][1] != bins[-1][1]):
                fails.append("outer_edges: the outer edges changed")
        if sum(nf) != sum(f):
            fails.append("total: total changed")
        for m in ("under", "over", "inner"):
            if res[m] != src[m]:
                fails.append(f"missed: {m} changed from {src[m]} to {res[m]}")
        if not op.get("inplace") and outs[1]["regs"][0] != src:
            fails.append("operand_modified: merge_bins() without inplace modified the original")
        return fails[:6]

    def nontrivial(self, case, io):
        o = io["outs"]
        if case.get("kind") == "histn":
            return o[1]["ret"] == "ok" and len(o[1]["regs"]) > 0 and o[1]["regs"][-1] is not None and o[1]["regs"][-1]["shape"] != o[0]["regs"][0]["shape"]
        try:
            return o[1]["ret"] == "ok" and len(o[1]["regs"][-1]["bins"]) < len(o[0]["regs"][0]["bins"])
        except Exception:
            return False


PROP = C10()
